#!/usr/bin/env python3
"""Driver: check.py <property-id> [--tier quick|thorough] [--seed N] [--replay file]

Builds what the property needs from /repo's current working tree, runs the monitor engines in
sharded processes with watchdogs, aggregates their JSON-line event streams, matches violations
against known_findings.json and writes evidence/<id>.json.

exit 0: property held on everything explored (known findings are printed as KNOWN-FINDING lines)
exit 1: violation not listed in known_findings.json ("VIOLATION property=<id> replay=<path>")
exit 2: harness failure / inconclusive (build failed, reference self-check failed, too few events)
"""
import concurrent.futures as cf
import hashlib
import json
import os
import re
import subprocess
import sys
import time

VERIF = os.path.dirname(os.path.abspath(__file__))
# evidence/ and replays/ live under /verif unless a scratch run (seeded change on a scratch worktree) redirects them
OUTROOT = os.environ.get("VERIF_OUT_DIR", VERIF)
sys.path.insert(0, VERIF)
from vlib import build  # noqa: E402
from vlib.plans import PLANS  # noqa: E402

NCPU = os.cpu_count() or 8


def load_known():
    p = os.path.join(VERIF, "known_findings.json")
    if not os.path.exists(p):
        return []
    return [e for e in json.load(open(p)).get("findings", []) if e.get("state", "open") == "open"]


def run_shard(cmd, timeout, env=None):
    t0 = time.time()
    try:
        r = subprocess.run(cmd, stdout=subprocess.PIPE, stderr=subprocess.PIPE, timeout=timeout, env=env)
        return {"cmd": cmd, "rc": r.returncode, "out": r.stdout.decode(errors="replace"),
                "err": r.stderr.decode(errors="replace")[-4000:], "t": time.time() - t0, "timeout": False}
    except subprocess.TimeoutExpired as e:
        return {"cmd": cmd, "rc": None, "out": (e.stdout or b"").decode(errors="replace"),
                "err": (e.stderr or b"").decode(errors="replace")[-4000:], "t": time.time() - t0, "timeout": True}


class Agg:
    def __init__(self, prop):
        self.prop = prop
        self.viol = {}          # key -> {prop, key, n, first}
        self.cov_hashes = {}    # class index name -> set
        self.cov_hits = {}
        self.samples = {}
        self.counts = {}
        self.notes = []
        self.harness_fail = []
        self.variants = set()
        self.crashes = []
        self.extra = {}

    def feed(self, res, label):
        classes = None
        hashes = []
        ended = False
        for line in res["out"].splitlines():
            if not line.startswith("{"):
                continue
            try:
                ev = json.loads(line)
            except ValueError:
                continue
            k = ev.get("ev")
            if k == "violation":
                key = ev["key"]
                v = self.viol.setdefault(key, {"prop": ev["prop"], "key": key, "n": 0, "first": ev})
                v["n"] += 1
            elif k == "violsum":
                v = self.viol.get(ev["key"])
                if v:
                    v["n"] = max(v["n"], ev["n"])
            elif k == "cov":
                self.cov_hits[ev["cls"]] = self.cov_hits.get(ev["cls"], 0) + ev["hits"]
            elif k == "sample":
                s = self.samples.setdefault(ev["cls"], [])
                if len(s) < 12:
                    s.append(ev["s"])
            elif k == "covh":
                hashes.extend(ev["h"].split(","))
            elif k == "covclasses":
                classes = ev["names"]
            elif k == "count":
                self.counts[ev["name"]] = self.counts.get(ev["name"], 0) + ev["n"]
            elif k == "note":
                if len(self.notes) < 40:
                    self.notes.append(ev)
            elif k == "harness_fail":
                self.harness_fail.append("%s: %s" % (label, ev["detail"]))
            elif k == "variants":
                for x in ev["list"]:
                    self.variants.add(x.split("=")[0])
            elif k == "crash":
                self.crashes.append((label, ev))
            elif k == "end":
                ended = True
            elif k == "extra":
                self.extra.setdefault(ev["name"], []).append(ev.get("value"))
        if classes:
            for h in hashes:
                hv = int(h, 16)
                cls = classes[hv & 0x1f] if (hv & 0x1f) < len(classes) else "?"
                self.cov_hashes.setdefault(cls, set()).add(hv)
        return ended


def match_known(known, prop, key):
    for e in known:
        if "key" in e and e["key"] == key:
            return e
        if "key_regex" in e and re.fullmatch(e["key_regex"], key):
            return e
    return None


def main():
    args = sys.argv[1:]
    if not args:
        print(__doc__)
        return 2
    prop = args[0]
    tier = os.environ.get("VERIF_TIER", "quick")
    seed = int(os.environ.get("VERIF_SEED", "1") or 1)
    replay = None
    i = 1
    while i < len(args):
        if args[i] == "--tier":
            tier = args[i + 1]
            i += 2
        elif args[i] == "--seed":
            seed = int(args[i + 1])
            i += 2
        elif args[i] == "--replay":
            replay = args[i + 1]
            i += 2
        else:
            i += 1
    if prop not in PLANS:
        print("unknown property %s" % prop)
        return 2
    plan = PLANS[prop]
    t0 = time.time()
    agg = Agg(prop)
    known = load_known()

    if replay:
        rp = json.load(open(replay))
        cmd = rp.get("cmd")
        if not cmd:
            print("replay file has no command")
            return 2
        fl = rp.get("flavour", "base")
        try:
            binp = build.harness(fl, shared=rp.get("shared", False), wrap=rp.get("wrap", False))
        except Exception as e:  # noqa: BLE001
            print("harness failure: %s" % e)
            return 2
        cmd = [binp] + cmd[1:]
        renv = dict(os.environ)
        for envname, (afl, ash) in rp.get("aux_bins", {}).items():
            renv[envname] = build.harness(afl, shared=ash)
        r = run_shard(cmd, 3600, renv)
        sys.stdout.write(r["out"][-20000:])
        return 1 if '"ev":"violation"' in r["out"] else 0

    # ---- build what is needed
    runs = plan["runs"](tier, seed)
    bins = {}
    try:
        for run in runs:
            fk = (run.get("flavour", "base"), bool(run.get("shared")), bool(run.get("wrap")))
            if fk not in bins:
                bins[fk] = build.harness(fk[0], shared=fk[1], wrap=fk[2])
            for envname, (afl, ash) in run.get("aux_bins", {}).items():
                if (afl, ash, False) not in bins:
                    bins[(afl, ash, False)] = build.harness(afl, shared=ash)
                run.setdefault("env", {})[envname] = bins[(afl, ash, False)]
    except Exception as e:  # noqa: BLE001
        print("harness failure: build: %s" % str(e)[-3000:])
        write_evidence(prop, plan, tier, seed, agg, t0, [], inconclusive="build failed")
        return 2

    # ---- launch shards
    jobs = []
    for ri, run in enumerate(runs):
        fk = (run.get("flavour", "base"), bool(run.get("shared")), bool(run.get("wrap")))
        n = run.get("shards", 1)
        for s in range(n):
            cmd = list(run.get("prefix", [])) + [bins[fk], run["engine"], "--seed", str(seed),
                                                 "--shard", "%d/%d" % (s, n), "--cases", str(run["cases"]),
                                                 "--tier", tier] + list(run.get("args", []))
            jobs.append((ri, s, cmd, run))
    results = []
    with cf.ThreadPoolExecutor(max_workers=int(os.environ.get("VERIF_JOBS", NCPU))) as ex:
        futs = {}
        for (ri, s, cmd, run) in jobs:
            env = dict(os.environ)
            env.update(run.get("env", {}))
            futs[ex.submit(run_shard, cmd, run.get("timeout", 1800), env)] = (ri, s, cmd, run)
        for f in cf.as_completed(futs):
            ri, s, cmd, run = futs[f]
            res = f.result()
            results.append((ri, s, cmd, run, res))

    inconclusive = []
    synthetic = []  # violations synthesised by the driver (hang / crash)
    for (ri, s, cmd, run, res) in sorted(results, key=lambda x: (x[0], x[1])):
        label = "%s[%d/%d]" % (run["engine"], s, run.get("shards", 1))
        if res["timeout"]:
            # re-run once alone before calling it a hang
            res2 = run_shard(cmd, run.get("timeout", 1800) * 2)
            if res2["timeout"]:
                agg.feed(res2, label)
                synthetic.append((prop, "%s|hang|%s|%s" % (prop, run["engine"], " ".join(run.get("args", []))),
                                  "shard did not finish within %ds twice" % (run.get("timeout", 1800) * 2), cmd))
                continue
            res = res2
        ended = agg.feed(res, label)
        post = run.get("post")
        if post:
            post(agg, res, label, synthetic)
        rc = res["rc"]
        if rc == 2 or (rc not in (0, 1) and not agg.crashes and not ended):
            if rc == 2:
                inconclusive.append("%s: harness failure (rc 2) %s" % (label, res["err"][-300:]))
            elif not run.get("rc_ok"):
                synthetic.append((prop, "%s|abnormal-exit|%s|rc%s" % (prop, run["engine"], rc),
                                  "process ended abnormally rc=%s stderr=%s" % (rc, res["err"][-600:]), cmd))
        elif rc not in (0, 1) and not run.get("rc_ok"):
            if not ended and not any(lbl == label for (lbl, _) in agg.crashes):
                synthetic.append((prop, "%s|abnormal-exit|%s|rc%s" % (prop, run["engine"], rc),
                                  "process ended abnormally rc=%s stderr=%s" % (rc, res["err"][-600:]), cmd))
    for (label, ev) in agg.crashes:
        key = "%s|crash|%s|%s|%s" % (prop, ev.get("fn", ""), re.sub(r"\+0x[0-9a-f]+", "", ev.get("rip", "")),
                                     ev.get("kind", ""))
        synthetic.append((prop, key, "process crashed: %s" % json.dumps(ev), None))
    if agg.harness_fail:
        inconclusive.extend(agg.harness_fail)

    # ---- verdicts
    os.makedirs(os.path.join(OUTROOT, "replays", prop), exist_ok=True)
    unknown = 0
    known_hits = {}
    allv = []
    for key, v in agg.viol.items():
        allv.append((v["prop"], key, v["first"].get("detail", ""), v["first"], v["n"]))
    syn = {}
    for (p, key, detail, cmd) in synthetic:
        if key in syn:
            syn[key][4] += 1
        else:
            syn[key] = [p, key, detail, {"cmd": cmd}, 1]
    allv.extend(tuple(v) for v in syn.values())
    for (p, key, detail, first, n) in sorted(allv, key=lambda x: x[1]):
        e = match_known(known, p, key)
        if e:
            kh = known_hits.setdefault(e["id"], {"e": e, "n": 0, "keys": set()})
            kh["n"] += n
            kh["keys"].add(key)
            continue
        unknown += 1
        h = hashlib.sha1(key.encode()).hexdigest()[:12]
        rp = os.path.join(OUTROOT, "replays", p, "%s.json" % h)
        os.makedirs(os.path.dirname(rp), exist_ok=True)
        rec = {"property": p, "key": key, "detail": detail, "count": n, "seed": seed, "tier": tier,
               "witness": first}
        # command that reproduces the shard
        for (ri, s, cmd, run, res) in results:
            if key in res["out"]:
                rec["cmd"] = cmd
                rec["flavour"] = run.get("flavour", "base")
                rec["shared"] = bool(run.get("shared"))
                rec["wrap"] = bool(run.get("wrap"))
                if run.get("aux_bins"):
                    rec["aux_bins"] = run["aux_bins"]
                break
        json.dump(rec, open(rp, "w"), indent=1, default=str)
        print("VIOLATION property=%s replay=%s" % (p, rp))
        print("  key=%s n=%d :: %s" % (key, n, detail[:400]))
    for kid, kh in sorted(known_hits.items()):
        print("KNOWN-FINDING: property=%s %s [%s; %d occurrence(s), %d key(s)]" %
              (kh["e"]["property"], kh["e"]["what"], kid, kh["n"], len(kh["keys"])))

    floors = plan.get("floors", {})
    for name, minimum in floors.get(tier, floors.get("quick", {})).items():
        got = agg.counts.get(name, 0)
        if name.startswith("cov:"):
            got = len(agg.cov_hashes.get(name[4:], ()))
        if got < minimum:
            inconclusive.append("too few events: %s=%d < floor %d" % (name, got, minimum))

    write_evidence(prop, plan, tier, seed, agg, t0, sorted(known_hits), unknown=unknown,
                   inconclusive="; ".join(inconclusive) if inconclusive else None)
    dt = time.time() - t0
    if unknown:
        print("%s: %d unlisted violation key(s) [%.0fs]" % (prop, unknown, dt))
        return 1
    if inconclusive:
        print("%s: INCONCLUSIVE: %s" % (prop, "; ".join(inconclusive)[:2000]))
        return 2
    ev = json.load(open(os.path.join(OUTROOT, "evidence", "%s.json" % prop)))
    print("%s: held on %d evaluations, %d distinct non-trivial cases, variants %s [%.0fs]" %
          (prop, ev["coverage"]["evaluations"], ev["coverage"]["distinct_nontrivial"],
           ",".join(sorted(agg.variants)), dt))
    return 0


def write_evidence(prop, plan, tier, seed, agg, t0, known_ids, unknown=0, inconclusive=None):
    cls = plan.get("cov_class", prop)
    classes = cls if isinstance(cls, list) else [cls]
    distinct = sum(len(agg.cov_hashes.get(c, ())) for c in classes)
    evals = sum(agg.cov_hits.get(c, 0) for c in classes)
    samples = []
    for c in classes:
        samples.extend(agg.samples.get(c, []))
    if not samples:
        for c, s in agg.samples.items():
            samples.extend(s[:3])
    ev = {
        "property_id": prop,
        "tier": tier,
        "seed": seed,
        "level": plan["level"],
        "coverage": {
            "evaluations": int(evals),
            "distinct_nontrivial": int(distinct),
            "rule": plan["rule"],
            "samples": samples[:16],
            "exhaustive": bool(plan.get("exhaustive", False)),
            "variants_exercised": sorted(agg.variants),
            "monitor_events": agg.counts,
            "coverage_classes": {c: {"hits": agg.cov_hits.get(c, 0), "distinct": len(agg.cov_hashes.get(c, ()))}
                                 for c in sorted(set(list(agg.cov_hits) + list(agg.cov_hashes)))},
            "known_findings_seen": known_ids,
            "extra": {k: v[:8] for k, v in agg.extra.items()},
        },
        "assumptions": plan.get("assumptions", []) + [
            "AVX2 t3/t4 variants cannot be executed on this host and are not covered",
            "verdict = held on the executions observed; nothing is proved",
        ],
        "wall_s": round(time.time() - t0, 2),
        "violations": int(unknown),
    }
    if inconclusive:
        ev["coverage"]["inconclusive"] = inconclusive
    if agg.notes:
        ev["coverage"]["notes"] = agg.notes[:20]
    os.makedirs(os.path.join(OUTROOT, "evidence"), exist_ok=True)
    tmp = os.path.join(OUTROOT, "evidence", ".%s.json.tmp%d" % (prop, os.getpid()))
    json.dump(ev, open(tmp, "w"), indent=1, default=str)
    os.replace(tmp, os.path.join(OUTROOT, "evidence", "%s.json" % prop))


if __name__ == "__main__":
    sys.exit(main())
