/* Engine "reject" (C12): constraint-catalogue fault enumeration. For every suite a valid baseline
 * job is built and confirmed; then every catalogue entry violates exactly one documented constraint
 * (or a boundary value). The invalid job is submitted while all caller buffers are write-protected;
 * status, error code, untouched buffers and descriptor are checked, then the unmodified job must still
 * be accepted and produce the reference result. */
#include "imbv.h"
#include <errno.h>

#define ACC1(a) do { p->nacc = 1; p->acc[0] = (a); } while (0)
#define ACC2(a, b) do { p->nacc = 2; p->acc[0] = (a); p->acc[1] = (b); } while (0)
#define ENTRY(cond, nm) if ((cond) && n++ == idx && (snprintf(p->name, sizeof p->name, "%s", nm), 1))

static int
uses_iv(const struct item *it)
{
        /* PON without ciphering (msg_len_to_cipher = 0) needs neither key nor IV */
        if (it->cipher == IMB_CIPHER_PON_AES_CNTR && it->c_len == 0)
                return 0;
        return it->iv_len != 0;
}
static int
is_hmac(IMB_HASH_ALG h)
{
        return h == IMB_AUTH_HMAC_SHA_1 || h == IMB_AUTH_HMAC_SHA_224 || h == IMB_AUTH_HMAC_SHA_256 ||
               h == IMB_AUTH_HMAC_SHA_384 || h == IMB_AUTH_HMAC_SHA_512 || h == IMB_AUTH_MD5 ||
               h == IMB_AUTH_HMAC_SM3;
}
static int
is_cmac(IMB_HASH_ALG h)
{
        return h == IMB_AUTH_AES_CMAC || h == IMB_AUTH_AES_CMAC_BITLEN || h == IMB_AUTH_AES_CMAC_256;
}
static int
is_gmac(IMB_HASH_ALG h)
{
        return h == IMB_AUTH_AES_GMAC_128 || h == IMB_AUTH_AES_GMAC_192 || h == IMB_AUTH_AES_GMAC_256;
}
static int
tag_permitted(IMB_HASH_ALG h, int t)
{
        int l[40], n = item_permitted_tag_lens(h, l);
        for (int i = 0; i < n; i++)
                if (l[i] == t)
                        return 1;
        return 0;
}
static int
cipher_needs_len(IMB_CIPHER_MODE c)
{
        switch (c) {
        case IMB_CIPHER_GCM:
        case IMB_CIPHER_CCM:
        case IMB_CIPHER_CHACHA20_POLY1305:
        case IMB_CIPHER_SNOW_V:
        case IMB_CIPHER_SNOW_V_AEAD:
        case IMB_CIPHER_SM4_GCM:
        case IMB_CIPHER_DOCSIS_SEC_BPI:
        case IMB_CIPHER_PON_AES_CNTR:
        case IMB_CIPHER_CFB:
        case IMB_CIPHER_NULL:
        case IMB_CIPHER_CUSTOM:
                return 0;
        default:
                return 1;
        }
}
static uint64_t
cipher_len_limit(const struct item *it)
{
        switch (it->cipher) {
        case IMB_CIPHER_CBC:
        case IMB_CIPHER_CFB:
                return it->dir == IMB_DIR_ENCRYPT ? 65534 : 0;
        case IMB_CIPHER_ECB:
        case IMB_CIPHER_DES:
        case IMB_CIPHER_DES3:
        case IMB_CIPHER_DOCSIS_DES:
        case IMB_CIPHER_DOCSIS_SEC_BPI:
        case IMB_CIPHER_CCM:
        case IMB_CIPHER_SM4_CBC:
                return 65534;
        case IMB_CIPHER_ZUC_EEA3:
                return 8188;
        default:
                return 0;
        }
}

/* apply catalogue entry idx to job; 0 = end of catalogue, 1 = applied */
int
imbv_perturb(const struct item *it, int idx, IMB_JOB *job, struct pert *p, const void **des3_tmp)
{
        int n = 0;
        const IMB_CIPHER_MODE c = it->cipher;
        const IMB_HASH_ALG h = it->hash;
        const int has_c = c != IMB_CIPHER_NULL, has_h = h != IMB_AUTH_NULL;
        const int dec = it->dir == IMB_DIR_DECRYPT;
        const int pon_nocipher = c == IMB_CIPHER_PON_AES_CNTR && it->c_len == 0;
        memset(p, 0, sizeof *p);

        /* ---- pointers */
        ENTRY(has_c || (has_h && it->h_len), "src=NULL") { job->src = NULL; ACC1(IMB_ERR_JOB_NULL_SRC); return 1; }
        ENTRY(has_c && it->c_len, "dst=NULL") { job->dst = NULL; ACC1(IMB_ERR_JOB_NULL_DST); return 1; }
        ENTRY(has_c && uses_iv(it), "iv=NULL") { job->iv = NULL; ACC1(IMB_ERR_JOB_NULL_IV); return 1; }
        ENTRY(has_c && c != IMB_CIPHER_DES3 && !pon_nocipher && (!dec || c == IMB_CIPHER_PON_AES_CNTR || c == IMB_CIPHER_CNTR || c == IMB_CIPHER_CNTR_BITLEN ||
                                                c == IMB_CIPHER_DOCSIS_SEC_BPI || c == IMB_CIPHER_CCM || c == IMB_CIPHER_CHACHA20 ||
                                                c == IMB_CIPHER_CHACHA20_POLY1305 || c == IMB_CIPHER_ZUC_EEA3 ||
                                                c == IMB_CIPHER_SNOW3G_UEA2_BITLEN || c == IMB_CIPHER_KASUMI_UEA1_BITLEN ||
                                                c == IMB_CIPHER_SNOW_V || c == IMB_CIPHER_SNOW_V_AEAD || c == IMB_CIPHER_SM4_CNTR),
              "enc_keys=NULL") { job->enc_keys = NULL; ACC1(IMB_ERR_JOB_NULL_KEY); return 1; }
        ENTRY(has_c && dec && (c == IMB_CIPHER_CBC || c == IMB_CIPHER_ECB || c == IMB_CIPHER_CBCS_1_9 ||
                               c == IMB_CIPHER_DOCSIS_SEC_BPI || c == IMB_CIPHER_DES || c == IMB_CIPHER_DOCSIS_DES ||
                               c == IMB_CIPHER_GCM || c == IMB_CIPHER_SM4_ECB || c == IMB_CIPHER_SM4_CBC ||
                               c == IMB_CIPHER_CFB || c == IMB_CIPHER_SM4_GCM),
              "dec_keys=NULL") { job->dec_keys = NULL; if (c == IMB_CIPHER_SM4_GCM) job->enc_keys = NULL; ACC1(IMB_ERR_JOB_NULL_KEY); return 1; }
        for (int k3 = 0; k3 < 3; k3++)
                ENTRY(c == IMB_CIPHER_DES3, k3 == 0 ? "3des.ks[0]=NULL" : k3 == 1 ? "3des.ks[1]=NULL" : "3des.ks[2]=NULL") {
                        memcpy(des3_tmp, it->k.enc, 3 * sizeof(void *));
                        des3_tmp[k3] = NULL;
                        job->enc_keys = job->dec_keys = des3_tmp;
                        ACC1(IMB_ERR_JOB_NULL_KEY);
                        return 1;
                }
        ENTRY(c == IMB_CIPHER_DES3, "3des.keys=NULL") { job->enc_keys = job->dec_keys = NULL; ACC1(IMB_ERR_JOB_NULL_KEY); return 1; }
        ENTRY(has_h && it->tag_len, "tag=NULL") { job->auth_tag_output = NULL; ACC1(IMB_ERR_JOB_NULL_AUTH); return 1; }
        ENTRY(it->aad_len > 0, "aad=NULL") { job->u.GCM.aad = NULL; ACC1(IMB_ERR_JOB_NULL_AAD); return 1; }
        ENTRY(is_hmac(h), "ipad=NULL") { job->u.HMAC._hashed_auth_key_xor_ipad = NULL; ACC1(IMB_ERR_JOB_NULL_HMAC_IPAD); return 1; }
        ENTRY(is_hmac(h), "opad=NULL") { job->u.HMAC._hashed_auth_key_xor_opad = NULL; ACC1(IMB_ERR_JOB_NULL_HMAC_OPAD); return 1; }
        ENTRY(h == IMB_AUTH_AES_XCBC, "xcbc.k1=NULL") { job->u.XCBC._k1_expanded = NULL; ACC1(IMB_ERR_JOB_NULL_XCBC_K1_EXP); return 1; }
        ENTRY(h == IMB_AUTH_AES_XCBC, "xcbc.k2=NULL") { job->u.XCBC._k2 = NULL; ACC1(IMB_ERR_JOB_NULL_XCBC_K2); return 1; }
        ENTRY(h == IMB_AUTH_AES_XCBC, "xcbc.k3=NULL") { job->u.XCBC._k3 = NULL; ACC1(IMB_ERR_JOB_NULL_XCBC_K3); return 1; }
        ENTRY(is_cmac(h), "cmac.key=NULL") { job->u.CMAC._key_expanded = NULL; ACC2(IMB_ERR_JOB_NULL_KEY, IMB_ERR_JOB_NULL_AUTH_KEY); return 1; }
        ENTRY(is_cmac(h), "cmac.skey1=NULL") { job->u.CMAC._skey1 = NULL; ACC2(IMB_ERR_JOB_NULL_KEY, IMB_ERR_JOB_NULL_AUTH_KEY); return 1; }
        ENTRY(is_cmac(h), "cmac.skey2=NULL") { job->u.CMAC._skey2 = NULL; ACC2(IMB_ERR_JOB_NULL_KEY, IMB_ERR_JOB_NULL_AUTH_KEY); return 1; }
        ENTRY(is_gmac(h), "gmac.key=NULL") { job->u.GMAC._key = NULL; ACC2(IMB_ERR_JOB_NULL_KEY, IMB_ERR_JOB_NULL_AUTH_KEY); return 1; }
        ENTRY(is_gmac(h), "gmac.iv=NULL") { job->u.GMAC._iv = NULL; ACC1(IMB_ERR_JOB_NULL_IV); return 1; }
        ENTRY(is_gmac(h), "gmac.iv_len=0") { job->u.GMAC.iv_len_in_bytes = 0; ACC1(IMB_ERR_JOB_IV_LEN); return 1; }
        ENTRY(h == IMB_AUTH_GHASH, "ghash.key=NULL") { job->u.GHASH._key = NULL; ACC2(IMB_ERR_JOB_NULL_KEY, IMB_ERR_JOB_NULL_AUTH_KEY); return 1; }
        ENTRY(h == IMB_AUTH_GHASH, "ghash.init_tag=NULL") { job->u.GHASH._init_tag = NULL; ACC1(IMB_ERR_JOB_NULL_GHASH_INIT_TAG); return 1; }
        ENTRY(h == IMB_AUTH_POLY1305, "poly.key=NULL") { job->u.POLY1305._key = NULL; ACC2(IMB_ERR_JOB_NULL_KEY, IMB_ERR_JOB_NULL_AUTH_KEY); return 1; }
        ENTRY(h == IMB_AUTH_ZUC_EIA3_BITLEN || h == IMB_AUTH_ZUC256_EIA3_BITLEN, "zuc.key=NULL") { job->u.ZUC_EIA3._key = NULL; ACC2(IMB_ERR_JOB_NULL_KEY, IMB_ERR_JOB_NULL_AUTH_KEY); return 1; }
        ENTRY(h == IMB_AUTH_ZUC_EIA3_BITLEN || h == IMB_AUTH_ZUC256_EIA3_BITLEN, "zuc.iv=NULL") { job->u.ZUC_EIA3._iv = NULL; job->u.ZUC_EIA3._iv23 = NULL; ACC1(IMB_ERR_JOB_NULL_IV); return 1; }
        ENTRY(h == IMB_AUTH_SNOW3G_UIA2_BITLEN, "snow3g.key=NULL") { job->u.SNOW3G_UIA2._key = NULL; ACC2(IMB_ERR_JOB_NULL_KEY, IMB_ERR_JOB_NULL_AUTH_KEY); return 1; }
        ENTRY(h == IMB_AUTH_SNOW3G_UIA2_BITLEN, "snow3g.iv=NULL") { job->u.SNOW3G_UIA2._iv = NULL; ACC1(IMB_ERR_JOB_NULL_IV); return 1; }
        ENTRY(h == IMB_AUTH_KASUMI_UIA1, "kasumi.key=NULL") { job->u.KASUMI_UIA1._key = NULL; ACC2(IMB_ERR_JOB_NULL_KEY, IMB_ERR_JOB_NULL_AUTH_KEY); return 1; }
        ENTRY(c == IMB_CIPHER_CBCS_1_9, "next_iv=NULL") { job->cipher_fields.CBCS.next_iv = NULL; ACC1(IMB_ERR_JOB_NULL_NEXT_IV); return 1; }

        /* ---- valid variants: a key pointer the direction does not use may be NULL */
        ENTRY(has_c && dec && (c == IMB_CIPHER_CBC || c == IMB_CIPHER_ECB || c == IMB_CIPHER_CBCS_1_9 || c == IMB_CIPHER_DES ||
                               c == IMB_CIPHER_SM4_ECB || c == IMB_CIPHER_SM4_CBC),
              "enc_keys=NULL-on-decrypt(valid)") { job->enc_keys = NULL; p->expect_valid = 1; return 1; }
        ENTRY(has_c && !dec && (c == IMB_CIPHER_CBC || c == IMB_CIPHER_ECB || c == IMB_CIPHER_CBCS_1_9 || c == IMB_CIPHER_DES ||
                                c == IMB_CIPHER_SM4_ECB || c == IMB_CIPHER_SM4_CBC || c == IMB_CIPHER_CNTR || c == IMB_CIPHER_CFB),
              "dec_keys=NULL-on-encrypt(valid)") { job->dec_keys = NULL; p->expect_valid = 1; return 1; }
        /* ZUC-EEA3: 16-byte IV belongs to the 128-bit key, 23/25-byte IVs to the 256-bit key */
        ENTRY(c == IMB_CIPHER_ZUC_EEA3 && it->keylen == 32, "zuc256.iv_len=16") { job->iv_len_in_bytes = 16; ACC1(IMB_ERR_JOB_IV_LEN); return 1; }
        ENTRY(c == IMB_CIPHER_ZUC_EEA3 && it->keylen == 16, "zuc128.iv_len=23") { job->iv_len_in_bytes = 23; ACC1(IMB_ERR_JOB_IV_LEN); return 1; }
        ENTRY(c == IMB_CIPHER_ZUC_EEA3 && it->keylen == 16, "zuc128.iv_len=25") { job->iv_len_in_bytes = 25; ACC1(IMB_ERR_JOB_IV_LEN); return 1; }

        /* ---- enumerations out of range */
        static const int badmode[] = { 0, IMB_CIPHER_NUM, IMB_CIPHER_NUM + 1, 0x7fffffff };
        for (unsigned i = 0; i < 4; i++)
                ENTRY(1, i == 0 ? "cipher_mode=0" : i == 1 ? "cipher_mode=NUM" : i == 2 ? "cipher_mode=NUM+1" : "cipher_mode=INT_MAX") {
                        job->cipher_mode = (IMB_CIPHER_MODE) badmode[i];
                        ACC1(IMB_ERR_CIPH_MODE);
                        return 1;
                }
        static const int badhash[] = { 0, IMB_AUTH_NUM, IMB_AUTH_NUM + 1, 0x7fffffff };
        for (unsigned i = 0; i < 4; i++)
                ENTRY(1, i == 0 ? "hash_alg=0" : i == 1 ? "hash_alg=NUM" : i == 2 ? "hash_alg=NUM+1" : "hash_alg=INT_MAX") {
                        job->hash_alg = (IMB_HASH_ALG) badhash[i];
                        ACC2(IMB_ERR_HASH_ALGO, IMB_ERR_CIPH_MODE);
                        return 1;
                }
        ENTRY(has_c, "direction=0") { job->cipher_direction = (IMB_CIPHER_DIRECTION) 0; ACC1(IMB_ERR_JOB_CIPH_DIR); return 1; }
        ENTRY(has_c, "direction=3") { job->cipher_direction = (IMB_CIPHER_DIRECTION) 3; ACC1(IMB_ERR_JOB_CIPH_DIR); return 1; }

        /* ---- key length */
        static const unsigned kls[] = { 0, 8, 16, 24, 32, 33, 64 };
        for (unsigned i = 0; i < ARRAY_SZ(kls); i++) {
                int legal = 0;
                unsigned kl = kls[i];
                switch (c) {
                case IMB_CIPHER_CBC: case IMB_CIPHER_CNTR: case IMB_CIPHER_ECB: case IMB_CIPHER_CNTR_BITLEN:
                case IMB_CIPHER_CFB: case IMB_CIPHER_GCM:
                        legal = kl == 16 || kl == 24 || kl == 32;
                        break;
                case IMB_CIPHER_CBCS_1_9:
                        legal = kl == 16 || kl == 24 || kl == 32; /* 24/32: documents are silent; not used as a violation */
                        break;
                case IMB_CIPHER_DOCSIS_SEC_BPI: case IMB_CIPHER_CCM: case IMB_CIPHER_ZUC_EEA3:
                        legal = kl == 16 || kl == 32;
                        break;
                case IMB_CIPHER_DES: case IMB_CIPHER_DOCSIS_DES:
                        legal = kl == 8;
                        break;
                case IMB_CIPHER_DES3:
                        legal = kl == 24;
                        break;
                case IMB_CIPHER_CHACHA20: case IMB_CIPHER_CHACHA20_POLY1305: case IMB_CIPHER_SNOW_V: case IMB_CIPHER_SNOW_V_AEAD:
                        legal = kl == 32;
                        break;
                default:
                        legal = kl == 16;
                }
                if (!has_c || c == IMB_CIPHER_CUSTOM || pon_nocipher)
                        legal = 1;
                ENTRY(!legal, "key_len=illegal") {
                        snprintf(p->name, sizeof p->name, "key_len=%u", kl);
                        job->key_len_in_bytes = kl;
                        ACC1(IMB_ERR_JOB_KEY_LEN);
                        return 1;
                }
        }
        /* ---- IV length */
        if (has_c && uses_iv(it)) {
                int lo = (int) it->iv_len, hi = (int) it->iv_len, gcm = c == IMB_CIPHER_GCM;
                if (c == IMB_CIPHER_CCM) { lo = 7; hi = 13; }
                if (gcm) { lo = 1; hi = 1 << 20; }
                ENTRY(1, "iv_len=min-1") { job->iv_len_in_bytes = (uint64_t) (lo - 1); ACC1(IMB_ERR_JOB_IV_LEN);
                        if ((c == IMB_CIPHER_CNTR || c == IMB_CIPHER_SM4_CNTR) && lo - 1 == 12) { job->iv_len_in_bytes = 11; }
                        if (c == IMB_CIPHER_ZUC_EEA3 && it->keylen == 32 && lo - 1 == 23) job->iv_len_in_bytes = 22;
                        return 1; }
                ENTRY(!gcm, "iv_len=max+1") { job->iv_len_in_bytes = (uint64_t) (hi + 1); ACC1(IMB_ERR_JOB_IV_LEN);
                        if ((c == IMB_CIPHER_CNTR || c == IMB_CIPHER_SM4_CNTR) && hi + 1 == 13) { job->iv_len_in_bytes = 17; }
                        if (c == IMB_CIPHER_CNTR && hi == 12) job->iv_len_in_bytes = 13;
                        if (c == IMB_CIPHER_ZUC_EEA3 && it->keylen == 32) job->iv_len_in_bytes = (hi == 23) ? 24 : 26;
                        return 1; }
                ENTRY(!gcm && c != IMB_CIPHER_CCM, "iv_len=0") { job->iv_len_in_bytes = 0; ACC1(IMB_ERR_JOB_IV_LEN); return 1; }
                ENTRY(gcm, "iv_len=1(valid)") { p->expect_valid = 0; job->iv_len_in_bytes = it->iv_len; p->expect_valid = 1; return 1; }
        }
        /* ---- tag length: every value 0..65 */
        if (has_h && it->tag_len && h != IMB_AUTH_CUSTOM)
                for (int t = 0; t <= 65; t++)
                        ENTRY(!tag_permitted(h, t), "tag_len=illegal") {
                                snprintf(p->name, sizeof p->name, "tag_len=%d", t);
                                job->auth_tag_output_len_in_bytes = (uint64_t) t;
                                ACC1(IMB_ERR_JOB_AUTH_TAG_LEN);
                                return 1;
                        }
        /* ---- message length */
        ENTRY(has_c && cipher_needs_len(c), "cipher_len=0") { job->msg_len_to_cipher_in_bytes = 0; ACC1(IMB_ERR_JOB_CIPH_LEN); return 1; }
        ENTRY(has_c && (c == IMB_CIPHER_CBC || c == IMB_CIPHER_ECB || c == IMB_CIPHER_CBCS_1_9 || c == IMB_CIPHER_SM4_ECB ||
                        c == IMB_CIPHER_SM4_CBC || c == IMB_CIPHER_CFB),
              "cipher_len=misaligned16") { job->msg_len_to_cipher_in_bytes = it->c_len + 1; ACC1(IMB_ERR_JOB_CIPH_LEN); return 1; }
        ENTRY(c == IMB_CIPHER_DES || c == IMB_CIPHER_DES3, "cipher_len=misaligned8") { job->msg_len_to_cipher_in_bytes = it->c_len + 4; ACC1(IMB_ERR_JOB_CIPH_LEN); return 1; }
        ENTRY(has_c && cipher_len_limit(it), "cipher_len=max+1") {
                uint64_t lim = cipher_len_limit(it);
                unsigned blk = (c == IMB_CIPHER_DES || c == IMB_CIPHER_DES3) ? 8 : (c == IMB_CIPHER_CBC || c == IMB_CIPHER_CFB || c == IMB_CIPHER_ECB || c == IMB_CIPHER_SM4_CBC) ? 16 : 1;
                job->msg_len_to_cipher_in_bytes = (lim / blk + 1) * blk;
                if (c == IMB_CIPHER_CCM || (c == IMB_CIPHER_DOCSIS_SEC_BPI && h == IMB_AUTH_DOCSIS_CRC32))
                        job->msg_len_to_hash_in_bytes = job->msg_len_to_cipher_in_bytes + (c == IMB_CIPHER_CCM ? 0 : 8);
                ACC2(IMB_ERR_JOB_CIPH_LEN, IMB_ERR_JOB_AUTH_LEN);
                return 1;
        }
        ENTRY(c == IMB_CIPHER_SNOW3G_UEA2_BITLEN || c == IMB_CIPHER_KASUMI_UEA1_BITLEN || c == IMB_CIPHER_CNTR_BITLEN, "cipher_bits=0") { job->msg_len_to_cipher_in_bits = 0; ACC1(IMB_ERR_JOB_CIPH_LEN); return 1; }
        ENTRY(c == IMB_CIPHER_KASUMI_UEA1_BITLEN, "cipher_bits=max+1") { job->msg_len_to_cipher_in_bits = 20001; ACC1(IMB_ERR_JOB_CIPH_LEN); return 1; }
        ENTRY(is_hmac(h) && h != IMB_AUTH_HMAC_SM3, "hash_len=0") { job->msg_len_to_hash_in_bytes = 0; ACC1(IMB_ERR_JOB_AUTH_LEN); return 1; }
        ENTRY(h == IMB_AUTH_HMAC_SM3, "hash_len=0") { job->msg_len_to_hash_in_bytes = 0; ACC1(IMB_ERR_JOB_AUTH_LEN); return 1; }
        ENTRY((is_hmac(h) && h != IMB_AUTH_HMAC_SM3) || h == IMB_AUTH_AES_XCBC || (is_cmac(h) && h != IMB_AUTH_AES_CMAC_BITLEN) ||
                      h == IMB_AUTH_SHA_1 || h == IMB_AUTH_SHA_224 || h == IMB_AUTH_SHA_256 || h == IMB_AUTH_SHA_384 || h == IMB_AUTH_SHA_512,
              "hash_len=max+1") { job->msg_len_to_hash_in_bytes = 65535; ACC1(IMB_ERR_JOB_AUTH_LEN); return 1; }
        ENTRY(h == IMB_AUTH_AES_CMAC_BITLEN, "hash_bits=max+1") { job->msg_len_to_hash_in_bits = 65534 * 8 + 1; ACC1(IMB_ERR_JOB_AUTH_LEN); return 1; }
        ENTRY(h == IMB_AUTH_ZUC_EIA3_BITLEN || h == IMB_AUTH_ZUC256_EIA3_BITLEN, "hash_bits=0") { job->msg_len_to_hash_in_bits = 0; ACC1(IMB_ERR_JOB_AUTH_LEN); return 1; }
        ENTRY(h == IMB_AUTH_ZUC_EIA3_BITLEN || h == IMB_AUTH_ZUC256_EIA3_BITLEN, "hash_bits=max+1") { job->msg_len_to_hash_in_bits = 65505; ACC1(IMB_ERR_JOB_AUTH_LEN); return 1; }
        ENTRY(h == IMB_AUTH_SNOW3G_UIA2_BITLEN, "hash_bits=0") { job->msg_len_to_hash_in_bits = 0; ACC1(IMB_ERR_JOB_AUTH_LEN); return 1; }
        ENTRY(h == IMB_AUTH_KASUMI_UIA1, "hash_len=8") { job->msg_len_to_hash_in_bytes = 8; ACC1(IMB_ERR_JOB_AUTH_LEN); return 1; }
        ENTRY(h == IMB_AUTH_KASUMI_UIA1, "hash_len=max+1") { job->msg_len_to_hash_in_bytes = 2501; ACC1(IMB_ERR_JOB_AUTH_LEN); return 1; }
        /* ---- AAD / CCM / DOCSIS geometry / pairing */
        ENTRY(c == IMB_CIPHER_CCM, "ccm.aad_len=47") { job->u.CCM.aad_len_in_bytes = 47; ACC1(IMB_ERR_JOB_AAD_LEN); return 1; }
        ENTRY(c == IMB_CIPHER_CCM && it->c_len > 1, "ccm.hash_len!=cipher_len") { job->msg_len_to_hash_in_bytes = it->c_len - 1; ACC2(IMB_ERR_JOB_CIPH_LEN, IMB_ERR_JOB_AUTH_LEN); return 1; }
        ENTRY(c == IMB_CIPHER_CCM, "ccm.hash_off!=cipher_off") { job->hash_start_src_offset_in_bytes = it->c_off + 1; ACC1(IMB_ERR_JOB_SRC_OFFSET); return 1; }
        ENTRY(h == IMB_AUTH_DOCSIS_CRC32 && it->h_len && it->c_len, "docsis.cipher_off<hash_off+12") { job->cipher_start_src_offset_in_bytes = it->h_off + 11; ACC1(IMB_ERR_JOB_SRC_OFFSET); return 1; }
        ENTRY(h == IMB_AUTH_DOCSIS_CRC32 && it->h_len && it->c_len, "docsis.cipher_len>hash_len-8") { job->msg_len_to_cipher_in_bytes = it->h_len - 7; ACC1(IMB_ERR_JOB_CIPH_LEN); return 1; }
        ENTRY(h == IMB_AUTH_DOCSIS_CRC32, "docsis.wrong_chain_order") { job->chain_order = job->chain_order == IMB_ORDER_CIPHER_HASH ? IMB_ORDER_HASH_CIPHER : IMB_ORDER_CIPHER_HASH; ACC1(IMB_ERR_JOB_CHAIN_ORDER); return 1; }
        ENTRY(h == IMB_AUTH_DOCSIS_CRC32, "docsis.hash_len=max+1") { job->msg_len_to_hash_in_bytes = 65535; ACC1(IMB_ERR_JOB_AUTH_LEN); return 1; }
        {
                /* AEAD pairing mismatches in both directions */
                static const struct { int c, h; } pairs[] = {
                        { IMB_CIPHER_GCM, IMB_AUTH_AES_GMAC }, { IMB_CIPHER_CCM, IMB_AUTH_AES_CCM },
                        { IMB_CIPHER_CHACHA20_POLY1305, IMB_AUTH_CHACHA20_POLY1305 },
                        { IMB_CIPHER_SNOW_V_AEAD, IMB_AUTH_SNOW_V_AEAD }, { IMB_CIPHER_SM4_GCM, IMB_AUTH_SM4_GCM },
                };
                for (unsigned i = 0; i < ARRAY_SZ(pairs); i++) {
                        ENTRY((int) c == pairs[i].c, "aead.hash=SHA1") { job->hash_alg = IMB_AUTH_SHA_1; job->auth_tag_output_len_in_bytes = 20; ACC2(IMB_ERR_HASH_ALGO, IMB_ERR_CIPH_MODE); return 1; }
                        ENTRY((int) c == pairs[i].c, "aead.hash=NULL") { job->hash_alg = IMB_AUTH_NULL; ACC2(IMB_ERR_HASH_ALGO, IMB_ERR_CIPH_MODE); return 1; }
                        ENTRY((int) c == pairs[i].c, "aead.cipher=CNTR") { job->cipher_mode = IMB_CIPHER_CNTR; job->key_len_in_bytes = 16; job->iv_len_in_bytes = 16; ACC2(IMB_ERR_HASH_ALGO, IMB_ERR_CIPH_MODE); return 1; }
                        ENTRY((int) c == pairs[i].c, "aead.cipher=NULL") { job->cipher_mode = IMB_CIPHER_NULL; ACC2(IMB_ERR_HASH_ALGO, IMB_ERR_CIPH_MODE); return 1; }
                }
        }
        /* ---- PON (XGEM frame) geometry */
        {
                const int pon = c == IMB_CIPHER_PON_AES_CNTR;
                const uint32_t pay = pon ? it->h_len - 8 : 0;
                ENTRY(pon && it->c_len, "pon.cipher_len%4") { job->msg_len_to_cipher_in_bytes = it->c_len - 1; ACC1(IMB_ERR_JOB_CIPH_LEN); return 1; }
                ENTRY(pon, "pon.hash_len%4") { job->msg_len_to_hash_in_bytes = it->h_len + 2; ACC1(IMB_ERR_JOB_AUTH_LEN); return 1; }
                ENTRY(pon, "pon.hash_len<8") { job->msg_len_to_hash_in_bytes = 4; job->msg_len_to_cipher_in_bytes = 0; ACC2(IMB_ERR_JOB_AUTH_LEN, IMB_ERR_JOB_PON_PLI); return 1; }
                ENTRY(pon, "pon.hash_len=max+4") { job->msg_len_to_hash_in_bytes = (1 << 14) + 8 + 4; ACC2(IMB_ERR_JOB_AUTH_LEN, IMB_ERR_JOB_CIPH_LEN); return 1; }
                ENTRY(pon, "pon.dst!=src+8") { job->dst = it->src + 12; p->nacc = 1; p->acc[0] = -1; return 1; }
                ENTRY(pon && it->c_len, "pon.key_len=32") { job->key_len_in_bytes = 32; ACC1(IMB_ERR_JOB_KEY_LEN); return 1; }
                ENTRY(pon && it->c_len, "pon.iv_len=12") { job->iv_len_in_bytes = 12; ACC1(IMB_ERR_JOB_IV_LEN); return 1; }
                ENTRY(pon, "pon.hash=SHA1") { job->hash_alg = IMB_AUTH_SHA_1; job->auth_tag_output_len_in_bytes = 20; ACC2(IMB_ERR_HASH_ALGO, IMB_ERR_CIPH_MODE); return 1; }
                ENTRY(pon, "pon.cipher=CNTR") { job->cipher_mode = IMB_CIPHER_CNTR; p->nacc = 1; p->acc[0] = -1; return 1; }
                /* PLI larger than the payload the job describes: with and without ciphering */
                ENTRY(pon && it->c_len && it->pon_pli > 8 && pay >= 8, "pon.pli>cipher_len") {
                        job->msg_len_to_cipher_in_bytes = ((it->pon_pli + 3) & ~3u) - 4;
                        job->msg_len_to_hash_in_bytes = 8 + job->msg_len_to_cipher_in_bytes;
                        ACC1(IMB_ERR_JOB_PON_PLI);
                        return 1;
                }
                ENTRY(pon && it->pon_pli > 8 && pay >= 8, "pon.pli>frame(no-cipher)") {
                        job->msg_len_to_cipher_in_bytes = 0;
                        job->msg_len_to_hash_in_bytes = 8 + ((it->pon_pli + 3) & ~3u) - 4;
                        ACC1(IMB_ERR_JOB_PON_PLI);
                        return 1;
                }
        }
        ENTRY(h == IMB_AUTH_DOCSIS_CRC32, "docsis_crc.cipher=CBC") { job->cipher_mode = IMB_CIPHER_CBC; job->msg_len_to_cipher_in_bytes = 16; ACC2(IMB_ERR_HASH_ALGO, IMB_ERR_CIPH_MODE); return 1; }
        ENTRY(c == IMB_CIPHER_CUSTOM, "custom.cipher_func=NULL") { job->cipher_func = NULL; p->nacc = 1; p->acc[0] = -1; return 1; }
        ENTRY(h == IMB_AUTH_CUSTOM, "custom.hash_func=NULL") { job->hash_func = NULL; p->nacc = 1; p->acc[0] = -1; return 1; }
        return 0;
}

/* ---- boundary baselines: maximal accepted lengths must be ACCEPTED and correct */
struct bl {
        const char *suite;
        int fam; /* 0 cipher 1 hash 2 aead */
        long len;
        int dir;
};
static const struct bl max_baselines[] = {
        { "aes-cbc-128", 0, 65520, IMB_DIR_ENCRYPT }, { "aes-ecb-256", 0, 65520, IMB_DIR_DECRYPT },
        { "aes-cfb-128", 0, 65520, IMB_DIR_ENCRYPT }, { "aes-cfb-256", 0, 65520, IMB_DIR_ENCRYPT },
        { "des-cbc", 0, 65528, IMB_DIR_ENCRYPT },     { "3des-cbc", 0, 65528, IMB_DIR_DECRYPT },
        { "docsis-sec-128", 0, 65534, IMB_DIR_ENCRYPT }, { "docsis-des", 0, 65534, IMB_DIR_DECRYPT },
        { "zuc-eea3-128", 0, 8188, IMB_DIR_ENCRYPT }, { "sm4-cbc", 0, 65520, IMB_DIR_ENCRYPT },
        { "hmac-sha1", 1, 65534, 0 },   { "hmac-sha512", 1, 65534, 0 }, { "hmac-md5", 1, 65534, 0 },
        { "sha256", 1, 65534, 0 },      { "aes-xcbc", 1, 65534, 0 },    { "aes-cmac", 1, 65534, 0 },
        { "aes-cmac-256", 1, 65534, 0 }, { "zuc-eia3", 1, 8188, 0 },     { "kasumi-uia1", 1, 2500, 0 },
        { "aes-ccm-128", 2, 65534, IMB_DIR_ENCRYPT }, { "aes-ccm-256", 2, 65534, IMB_DIR_DECRYPT },
};

static const struct suite *
find_suite(const char *name, int fam)
{
        const struct suite *t = fam == 0 ? g_cipher_suites : fam == 1 ? g_hash_suites : g_aead_suites;
        int n = fam == 0 ? g_n_cipher_suites : fam == 1 ? g_n_hash_suites : g_n_aead_suites;
        for (int i = 0; i < n; i++)
                if (!strcmp(t[i].name, name))
                        return &t[i];
        return NULL;
}

static struct item *IT;
static IMB_JOB *ret_job;
static void
rej_done(struct mmgr *mm, IMB_JOB *job, void *arg)
{
        (void) mm;
        (void) arg;
        ret_job = job;
}

static uint64_t n_entries, n_baselines, n_valid_after;

/* synchronous bursts (IMB_SUBMIT_CIPHER_BURST / HASH_BURST / AEAD_BURST): which one takes this item; -1 none */
static int
sync_kind(const struct item *it)
{
        const int c = it->cipher, h = it->hash;
        if (h == IMB_AUTH_NULL && (c == IMB_CIPHER_CBC || c == IMB_CIPHER_CNTR || c == IMB_CIPHER_ECB || c == IMB_CIPHER_CFB))
                return 0;
        if (c == IMB_CIPHER_NULL &&
            (h == IMB_AUTH_HMAC_SHA_1 || h == IMB_AUTH_HMAC_SHA_224 || h == IMB_AUTH_HMAC_SHA_256 || h == IMB_AUTH_HMAC_SHA_384 ||
             h == IMB_AUTH_HMAC_SHA_512 || h == IMB_AUTH_SHA_1 || h == IMB_AUTH_SHA_224 || h == IMB_AUTH_SHA_256 ||
             h == IMB_AUTH_SHA_384 || h == IMB_AUTH_SHA_512 || h == IMB_AUTH_AES_CMAC || h == IMB_AUTH_AES_CMAC_BITLEN ||
             h == IMB_AUTH_AES_CMAC_256))
                return 1;
        if (c == IMB_CIPHER_CCM)
                return 2;
        return -1;
}
/* the synchronous calls take cipher / direction / key size / hash as PARAMETERS and validate the rest of the
 * descriptor: a catalogue entry that only touches fields the call never looks at is not a violation there */
static int
sync_entry_applies(int kind, const IMB_JOB *a, const IMB_JOB *b)
{
        int tc = a->cipher_mode != b->cipher_mode || a->cipher_direction != b->cipher_direction ||
                 a->key_len_in_bytes != b->key_len_in_bytes || a->enc_keys != b->enc_keys || a->dec_keys != b->dec_keys ||
                 a->iv != b->iv || a->iv_len_in_bytes != b->iv_len_in_bytes || a->dst != b->dst ||
                 a->msg_len_to_cipher_in_bytes != b->msg_len_to_cipher_in_bytes ||
                 a->cipher_start_src_offset_in_bytes != b->cipher_start_src_offset_in_bytes;
        int th = a->hash_alg != b->hash_alg || a->auth_tag_output != b->auth_tag_output ||
                 a->auth_tag_output_len_in_bytes != b->auth_tag_output_len_in_bytes ||
                 a->msg_len_to_hash_in_bytes != b->msg_len_to_hash_in_bytes ||
                 a->hash_start_src_offset_in_bytes != b->hash_start_src_offset_in_bytes || memcmp(&a->u, &b->u, sizeof a->u);
        int ts = a->src != b->src;
        if (kind == 0)
                return tc || ts;
        if (kind == 1)
                return th || ts;
        if (a->hash_alg != b->hash_alg)
                return 0; /* the AEAD burst implies the hash algorithm; the descriptor field is not read */
        return tc || th || ts;
}
static uint32_t
sync_submit(struct mmgr *mm, int kind, IMB_JOB *j)
{
        if (kind == 0)
                return (uint32_t) mcall("submit_cipher_burst", (void *) mm->m->submit_cipher_burst, 6, (uint64_t) mm->m, (uint64_t) j,
                                        (uint64_t) 1, (uint64_t) j->cipher_mode, (uint64_t) j->cipher_direction,
                                        (uint64_t) j->key_len_in_bytes);
        if (kind == 1)
                return (uint32_t) mcall("submit_hash_burst", (void *) mm->m->submit_hash_burst, 4, (uint64_t) mm->m, (uint64_t) j,
                                        (uint64_t) 1, (uint64_t) j->hash_alg);
        return (uint32_t) mcall("submit_aead_burst", (void *) mm->m->submit_aead_burst, 6, (uint64_t) mm->m, (uint64_t) j, (uint64_t) 1,
                                (uint64_t) j->cipher_mode, (uint64_t) j->cipher_direction, (uint64_t) j->key_len_in_bytes);
}

static struct mmgr *
one_baseline(struct mmgr *mm, int cfg, const struct suite *cs, const struct suite *hs, struct rng *r, long len, int dir,
             int burst)
{
        struct genopt g;
        const char *vn = variant_name(mm->variant);
        char key[240], det[400];
        genopt_default(&g);
        g.slot = 0;
        g.len = len;
        g.dir = dir;
        g.pl = rng_below(r, 2) ? PL_END : PL_START;
        item_gen(IT, cs, hs, r, &g, mm);
        const int skind = burst == 2 ? sync_kind(IT) : -1;
        static IMB_JOB sync_jobs[1];
        if (burst == 2 && skind < 0)
                return mm;
        item_expect(IT);
        const char *sname = IT->cipher != IMB_CIPHER_NULL ? cipher_name(IT->cipher) : hash_name(IT->hash);
        const char *apiname = burst == 2 ? "sync-burst" : burst ? "burst" : "job";
        const void *des3_tmp[3];
        IMB_JOB base, snap;
        item_fill_job(IT, &base);
        n_baselines++;
        g_job_done = rej_done;
        for (int idx = -1;; idx++) {
                struct pert p;
                IMB_JOB *j;
                IMB_JOB *bj[2];
                sigjmp_buf jb;
                memset(&p, 0, sizeof p);
                if (burst == 2)
                        j = &sync_jobs[0];
                else if (burst) {
                        if (mm_get_next_burst(mm, 1, bj) != 1)
                                harness_fail("reject: no burst slot");
                        j = bj[0];
                } else
                        j = mm_get_next_job(mm);
                *j = base;
                if (idx >= 0) {
                        if (!imbv_perturb(IT, idx, j, &p, des3_tmp))
                                break;
                        if (burst == 2 && !p.expect_valid && !sync_entry_applies(skind, j, &base))
                                continue;
                } else
                        p.expect_valid = 1; /* idx -1: the baseline itself */
                if (burst == 1)
                        mcall("imb_set_session", (void *) imb_set_session, 2, (uint64_t) mm->m, (uint64_t) j);
                snap = *j;
                ret_job = NULL;
                if (sigsetjmp(jb, 1)) {
                        guard_protect_slot(0, 0);
                        snprintf(key, sizeof key, "C12|%s|%s|%s|fault|%s", vn, sname, p.name, apiname);
                        snprintf(det, sizeof det,
                                 "%s of %s object while an invalid job (%s) was submitted (buffers write-protected): %s",
                                 g_fault.is_write ? "write" : "read", g_fault.kind, p.name, g_fault.ripsym);
                        ev_violation("C12", key, det, item_describe(IT));
                        g_job_done = NULL;
                        mm = mm_new(cfg);
                        g_job_done = rej_done;
                        continue;
                }
                g_fault_jmp = &jb;
                int exp = p.expect_valid ? 0 : (p.nacc == 1 && p.acc[0] > 0 ? p.acc[0] : -1);
                if (!p.expect_valid)
                        guard_protect_slot(0, 1);
                uint32_t nb = 0;
                int err;
                if (burst == 2) {
                        nb = sync_submit(mm, skind, j);
                        err = imb_get_errno(mm->m);
                        ret_job = j;
                        if (p.expect_valid && nb != 1)
                                ret_job = NULL;
                } else if (burst) {
                        nb = mm_submit_burst(mm, 1, bj, 0, p.expect_valid ? 0 : -2);
                        err = imb_get_errno(mm->m);
                        if (p.expect_valid) {
                                IMB_JOB *fj[2];
                                while (mm_flush_burst(mm, 2, fj))
                                        ;
                        } else
                                ret_job = j;
                } else {
                        mm_submit_job(mm, 0, p.expect_valid ? 0 : (p.nacc > 1 ? -1 : exp));
                        err = imb_get_errno(mm->m);
                        while (mm_flush_job(mm))
                                ;
                }
                g_fault_jmp = NULL;
                guard_protect_slot(0, 0);
                (void) nb;
                if (idx >= 0)
                        n_entries++;
                if (p.expect_valid) {
                        if (!ret_job || ret_job->status != IMB_STATUS_COMPLETED) {
                                snprintf(key, sizeof key, "C12|%s|%s|valid-rejected|%s", vn, sname, p.name[0] ? p.name : "baseline");
                                snprintf(det, sizeof det, "valid job (len %ld) came back with status %d errno %d (%s)", len,
                                         ret_job ? (int) ret_job->status : -1, err, imb_get_strerror(err));
                                ev_violation("C12", key, det, item_describe(IT));
                        } else {
                                item_check(IT, ret_job, "C12", mm, "reject/baseline");
                                n_valid_after++;
                        }
                        /* restore buffers for the next entry */
                        memcpy(IT->src, IT->src_orig, IT->buf_len);
                        continue;
                }
                /* rejected job expectations */
                int st = ret_job ? (int) ret_job->status : (int) j->status;
                if (burst && nb != 0)
                        st = -2;
                if (burst == 2 && nb == 0 && err != 0)
                        st = IMB_STATUS_INVALID_ARGS; /* rejected through the call parameters: no per-job status */
                if (st != IMB_STATUS_INVALID_ARGS) {
                        snprintf(key, sizeof key, "C12|%s|%s|not-rejected|%s|%s", vn, sname, p.name, apiname);
                        snprintf(det, sizeof det, "job violating '%s' came back with status %d (errno %d)", p.name, st, err);
                        ev_violation("C12", key, det, item_describe(IT));
                        if (burst == 1) {
                                IMB_JOB *fj[2];
                                mcall("flush_burst", (void *) mm->m->flush_burst, 3, (uint64_t) mm->m, (uint64_t) 2, (uint64_t) fj);
                                mm = mm_new(cfg);
                        }
                        if (burst == 2)
                                memcpy(IT->src, IT->src_orig, IT->buf_len);
                } else {
                        int ok = 0;
                        for (int a = 0; a < p.nacc; a++)
                                if (p.acc[a] == err || (p.acc[a] == -1 && err != 0))
                                        ok = 1;
                        if (!ok) {
                                snprintf(key, sizeof key, "C12|%s|%s|wrong-errno|%s|got%d", vn, sname, p.name, err);
                                snprintf(det, sizeof det, "job violating '%s' rejected with error %d (%s), expected %d%s", p.name,
                                         err, imb_get_strerror(err), p.acc[0], p.nacc > 1 ? " or alternative" : "");
                                ev_violation("C12", key, det, NULL);
                        }
                        /* descriptor untouched apart from status */
                        IMB_JOB now = *(ret_job ? ret_job : j);
                        now.status = snap.status;
                        if (memcmp(&now, &snap, sizeof now)) {
                                snprintf(key, sizeof key, "C12|%s|%s|descriptor-changed|%s", vn, sname, p.name);
                                ev_violation("C12", key, "descriptor of a rejected job was modified", NULL);
                        }
                        /* buffers untouched */
                        if (memcmp(IT->src, IT->src_orig, IT->buf_len)) {
                                snprintf(key, sizeof key, "C12|%s|%s|src-changed|%s", vn, sname, p.name);
                                ev_violation("C12", key, "source buffer of a rejected job was modified", NULL);
                                memcpy(IT->src, IT->src_orig, IT->buf_len);
                        }
                }
                cov_hit("C12", "%s|%s|%s|%s|err%d", vn, sname, p.name, apiname, err);
                if ((idx & 15) == 15) {
                        /* a following valid job must be unaffected */
                        IMB_JOB *v;
                        if (burst == 2) {
                                v = &sync_jobs[0];
                                *v = base;
                                ret_job = sync_submit(mm, skind, v) == 1 ? v : NULL;
                        } else if (burst) {
                                if (mm_get_next_burst(mm, 1, bj) != 1)
                                        continue;
                                v = bj[0];
                                *v = base;
                                mcall("imb_set_session", (void *) imb_set_session, 2, (uint64_t) mm->m, (uint64_t) v);
                                ret_job = NULL;
                                mm_submit_burst(mm, 1, bj, 0, 0);
                                IMB_JOB *fj[2];
                                while (mm_flush_burst(mm, 2, fj))
                                        ;
                        } else {
                                v = mm_get_next_job(mm);
                                *v = base;
                                ret_job = NULL;
                                mm_submit_job(mm, 0, 0);
                                while (mm_flush_job(mm))
                                        ;
                        }
                        if (ret_job && ret_job->status == IMB_STATUS_COMPLETED) {
                                item_check(IT, ret_job, "C12", mm, "reject/valid-after-invalid");
                                n_valid_after++;
                        } else {
                                snprintf(key, sizeof key, "C12|%s|%s|valid-after-invalid-rejected", vn, sname);
                                ev_violation("C12", key, "valid job after an invalid one was not completed", item_describe(IT));
                        }
                        memcpy(IT->src, IT->src_orig, IT->buf_len);
                }
        }
        g_job_done = NULL;
        return mm;
}

int
eng_reject(void)
{
        guard_init(2);
        IT = item_new();
        long unit = 0;
        for (int vi = 0; vi < g_nvariants; vi++) {
                int cfg = g_variant_cfg[vi];
                if (g_opt.cfg_only >= 0 && cfg != g_opt.cfg_only)
                        continue;
                for (int burst = 0; burst < 3; burst++) { /* 0 job API, 1 asynchronous burst, 2 synchronous cipher/hash/AEAD bursts */
                        struct mmgr *mm = mm_new(cfg);
                        if (!mm)
                                continue;
                        for (int fam = 0; fam < 4; fam++) {
                                const struct suite *t = fam == 0 ? g_cipher_suites : fam == 1 ? g_hash_suites : g_aead_suites;
                                int n = fam == 0 ? g_n_cipher_suites : fam == 1 ? g_n_hash_suites : g_n_aead_suites;
                                if (fam == 3)
                                        n = (int) ARRAY_SZ(max_baselines);
                                for (int si = 0; si < n; si++, unit++) {
                                        if (unit % g_opt.nshards != g_opt.shard)
                                                continue;
                                        struct rng r;
                                        rng_seed(&r, g_opt.seed * 4241 + (uint64_t) unit);
                                        g_case_no = unit;
                                        if (fam == 3) {
                                                const struct bl *b = &max_baselines[si];
                                                const struct suite *s = find_suite(b->suite, b->fam);
                                                if (!s)
                                                        continue;
                                                mm = one_baseline(mm, cfg, b->fam == 1 ? NULL : s, b->fam == 1 ? s : NULL, &r, b->len,
                                                                  b->dir ? b->dir : IMB_DIR_ENCRYPT, burst);
                                                continue;
                                        }
                                        /* several baselines per suite: tiny, typical; both directions */
                                        static const long lens[] = { 16, 96, 333 };
                                        for (unsigned li = 0; li < ARRAY_SZ(lens); li++)
                                                for (int d = 1; d <= (fam == 1 ? 1 : 2); d++) {
                                                        if (!g_opt.tier && li == 2 && d == 2)
                                                                continue;
                                                        mm = one_baseline(mm, cfg, fam == 1 ? NULL : &t[si], fam == 1 ? &t[si] : NULL, &r,
                                                                          lens[li], d, burst);
                                                }
                                }
                        }
                        mm_free(mm);
                }
        }
        cov_count("catalogue_entries_run", n_entries);
        cov_count("baselines", n_baselines);
        cov_count("valid_jobs_confirmed", n_valid_after);
        return 0;
}
