/* Engine "abi": direct-API sweep. Every directly callable function pointer of IMB_MGR (and the exported
 * helper functions) is called on every manager variant through the monitored-call trampoline (C18) in
 * three modes:
 *   valid  every pointer argument is an exactly sized object flush against an inaccessible page; outputs
 *          are compared with the independent reference models (C09) or, where there is none, with the
 *          first variant's output (N-version); inputs must stay unchanged and no fault may occur (C07)
 *   null   the same call with one pointer argument (or one element of a pointer array) NULL: no fault,
 *          nothing written, error code set (C12)
 *   limit  the same call with one documented length limit violated: same requirements (C12)
 */
#include "imbv.h"
#include <stdarg.h>
#include <stddef.h>
#include <openssl/sha.h>
#include <openssl/md5.h>

#define NSLOT 8
#define MAXO 128
#define MAXA 40
#define MAXLIM 16
#define MAXB 17

enum { M_VALID = 0, M_NULL = 1, M_LIMIT = 2 };
static const char *const mode_name[] = { "valid", "null", "limit" };
enum role { R_IN, R_OUT, R_INOUT };

struct obj {
        uint8_t *p;
        size_t n;
        char kind[16];
        enum role role;
        uint8_t *snap; /* private copy taken just before the call */
        uint8_t *exp;  /* expected content after a valid call (NULL: not checked by the generic code) */
        uint8_t *mask; /* optional: only these bits of exp are defined */
        int nver;      /* no reference: fold into the N-version hash */
};
struct arg {
        uint64_t v;
        int obj;   /* >=0 guard object, -1 scalar, -2 pointer to something that is not a guard object */
        int nelem; /* >0: the object is an array of nelem pointers */
        int null_ok; /* NULL is documented / implemented as permitted */
};
struct argv {
        int n;
        struct arg a[MAXA];
};
struct lim {
        const char *name;
        int arg;
        int elem;     /* <0 replace the scalar argument, else element of the uint32_t array passed as arg */
        uint64_t val;
        int force_n;  /* build the call with this many buffers */
        int out0_arg; /* >0: documented failure signal is "first element of this pointer array = NULL" */
};
struct actx;
struct call;
typedef void (*post_fn)(struct actx *x, struct call *c);
struct call {
        const char *name;
        void *fn;
        struct argv v;
        struct obj o[MAXO];
        int nobj;
        int ret_kind; /* 0 ignore, 1 compare with ret_exp under ret_mask, 2 N-version */
        uint64_t ret_exp, ret_mask;
        int ret_err; /* a rejected call must return non-zero */
        struct lim lim[MAXLIM];
        int nlim;
        uint32_t lenclass;
        post_fn post;
        void *pd;
        int have_ref;
        char note[200];
};
struct fdesc {
        const char *name;
        size_t off; /* offset of the function pointer inside IMB_MGR */
        void *ext;  /* or exported function */
        int (*build)(struct actx *x, struct call *c, const struct fdesc *f);
        int p1, p2;
};
struct actx {
        struct mmgr *mm;
        IMB_MGR *m;
        int cfg;
        char vn[24];
        int mode;
        int null_arg, null_elem; /* null_elem: -1 whole argument, else element index */
        const struct lim *curlim;
        int force_n;
        long round;
        int fi;
        struct rng r;
        unsigned lenidx;
        enum place pl;
        int nalloc;
        int faulted;
        struct call *cur;
        size_t kas_sz, snow_sz;
};

static uint64_t n_valid, n_null, n_limit, n_ref, n_nver;
static int g_mutate; /* IMBV_ABI_MUTATE=1: corrupt results on purpose (engine self-check) */
static uint64_t *nver_tab; /* [fn][round] hash of the first variant (0 = none yet) */
static long nver_rounds;

/* ------------------------------------------------------------------ small helpers */
static uint8_t *pool;
static size_t pool_used;
#define POOL_SZ ((size_t) 48 << 20)
static void *
palloc(size_t n)
{
        n = (n + 31) & ~(size_t) 15;
        if (pool_used + n > POOL_SZ)
                harness_fail("abi: scratch pool exhausted");
        void *p = pool + pool_used;
        pool_used += n;
        memset(p, 0, n);
        return p;
}
static uint64_t
fnv64(uint64_t h, const void *p, size_t n)
{
        const uint8_t *b = p;
        for (size_t i = 0; i < n; i++)
                h = (h ^ b[i]) * 0x100000001b3ULL;
        return h;
}
static void *
fnptr(struct actx *x, const struct fdesc *f)
{
        if (f->ext)
                return f->ext;
        return *(void **) ((uint8_t *) x->m + f->off);
}
#define MFN(x, field) ((void *) (x)->m->field)

static void __attribute__((format(printf, 5, 6)))
viol(struct actx *x, const char *prop, const char *fname, const char *what, const char *fmt, ...)
{
        char key[240], det[900], rep[240];
        va_list ap;
        size_t o;
        snprintf(key, sizeof key, "%s|%s|direct|%s|%s", prop, x->vn, fname, what);
        va_start(ap, fmt);
        vsnprintf(det, sizeof det - 260, fmt, ap);
        va_end(ap);
        o = strlen(det);
        if (x->cur && x->cur->note[0])
                snprintf(det + o, sizeof det - o, " [%s; round %ld, %s mode, objects %s]", x->cur->note, x->round,
                         mode_name[x->mode], x->pl == PL_END ? "end-flush" : "start-flush");
        snprintf(rep, sizeof rep, "{\"fn\":\"%s\",\"round\":%ld,\"cfg\":%d,\"mode\":\"%s\",\"arg\":%d,\"elem\":%d}",
                 x->cur ? x->cur->name : fname, x->round, x->cfg, mode_name[x->mode], x->null_arg, x->null_elem);
        ev_violation(prop, key, det, rep);
}

/* "The corresponding error code" (C12) by the role of the perturbed argument; -1: role not classified */
static int
null_code_ok(const char *kind, int err)
{
        static const struct {
                const char *prefix;
                int a, b;
        } t[] = {
                { "src", IMB_ERR_NULL_SRC, IMB_ERR_NULL_SRC },      { "dst", IMB_ERR_NULL_DST, IMB_ERR_NULL_DST },
                { "iv", IMB_ERR_NULL_IV, IMB_ERR_NULL_IV },         { "aad", IMB_ERR_NULL_AAD, IMB_ERR_NULL_AAD },
                { "ctx", IMB_ERR_NULL_CTX, IMB_ERR_NULL_CTX },      { "tag", IMB_ERR_NULL_AUTH, IMB_ERR_NULL_AUTH },
                { "lenarr", IMB_ERR_CIPH_LEN, IMB_ERR_AUTH_LEN },   { "key", IMB_ERR_NULL_KEY, IMB_ERR_NULL_EXP_KEY },
                { "enckeys", IMB_ERR_NULL_KEY, IMB_ERR_NULL_EXP_KEY }, { "deckeys", IMB_ERR_NULL_KEY, IMB_ERR_NULL_EXP_KEY },
                { "deskeys", IMB_ERR_NULL_KEY, IMB_ERR_NULL_EXP_KEY }, { "kasumikeys", IMB_ERR_NULL_KEY, IMB_ERR_NULL_EXP_KEY },
                { "snow3gkeys", IMB_ERR_NULL_KEY, IMB_ERR_NULL_EXP_KEY }, { "subkey", IMB_ERR_NULL_KEY, IMB_ERR_NULL_EXP_KEY },
                { "k1exp", IMB_ERR_NULL_KEY, IMB_ERR_NULL_EXP_KEY }, { "k2", IMB_ERR_NULL_KEY, IMB_ERR_NULL_EXP_KEY },
                { "k3", IMB_ERR_NULL_KEY, IMB_ERR_NULL_EXP_KEY },
        };
        if (!strcmp(kind, "?"))
                return -1;
        for (unsigned i = 0; i < ARRAY_SZ(t); i++)
                if (!strncmp(kind, t[i].prefix, strlen(t[i].prefix)))
                        return err == t[i].a || err == t[i].b;
        return -1;
}
static int
limit_code_ok(const char *lname, int err)
{
        if (!strncmp(lname, "len", 3) || !strncmp(lname, "bitlen", 6) || !strncmp(lname, "msglen", 6))
                return err == IMB_ERR_CIPH_LEN || err == IMB_ERR_AUTH_LEN;
        if (!strncmp(lname, "ivlen", 5))
                return err == IMB_ERR_IV_LEN;
        if (!strncmp(lname, "keysize", 7))
                return err == IMB_ERR_KEY_LEN;
        if (!strncmp(lname, "taglen", 6))
                return err == IMB_ERR_AUTH_TAG_LEN;
        return -1;
}
/* C08: the error code of the same perturbed direct call is the same on every variant (each process runs a given
 * function and round on all variants) */
static struct agr {
        uint64_t h;
        int err;
        char vn[12];
} g_agr[8192];
static uint64_t n_code_judged, n_code_agree;
static void
code_agreement(struct actx *x, const struct fdesc *f, const char *pert, int err)
{
        uint64_t h = 1469598103934665603ull;
        for (const char *s = f->name; *s; s++)
                h = (h ^ (uint8_t) *s) * 1099511628211ull;
        for (const char *s = pert; *s; s++)
                h = (h ^ (uint8_t) *s) * 1099511628211ull;
        h |= 1;
        for (unsigned i = (unsigned) (h % ARRAY_SZ(g_agr)), k = 0; k < ARRAY_SZ(g_agr); k++, i = (i + 1) % ARRAY_SZ(g_agr)) {
                if (g_agr[i].h == 0) {
                        g_agr[i].h = h;
                        g_agr[i].err = err;
                        snprintf(g_agr[i].vn, sizeof g_agr[i].vn, "%s", x->vn);
                        return;
                }
                if (g_agr[i].h == h) {
                        n_code_agree++;
                        if (g_agr[i].err != err) {
                                char what[120];
                                snprintf(what, sizeof what, "%s-code-differs-between-variants", pert);
                                viol(x, "C08", f->name, what, "error code %d here, %d on %s for the same perturbed call", err, g_agr[i].err,
                                     g_agr[i].vn);
                        }
                        return;
                }
        }
}

/* name of the perturbation currently applied (modes null / limit) */
static const char *
pert_name(struct actx *x)
{
        static char b[64];
        if (x->mode == M_NULL)
                snprintf(b, sizeof b, "null-arg%d%s", x->null_arg, x->null_elem >= 0 ? "elem" : "");
        else if (x->mode == M_LIMIT && x->curlim)
                snprintf(b, sizeof b, "limit-%s", x->curlim->name);
        else
                b[0] = 0;
        return b;
}

static void
report_fault(struct actx *x, const char *name, int target)
{
        char what[96];
        const char *kind = g_fault.kind[0] ? g_fault.kind : ((uintptr_t) g_fault.addr < 65536 ? "null" : "wild");
        if (target && x->mode != M_VALID) {
                snprintf(what, sizeof what, "%s-fault", pert_name(x));
                viol(x, "C12", name, what, "fault in %s: %s of %s memory at %p while the call had to be rejected", g_fault.ripsym,
                     g_fault.is_write ? "write" : "read", kind, g_fault.addr);
        } else {
                snprintf(what, sizeof what, "fault-%s-%s", g_fault.is_write ? "write" : "read", kind);
                viol(x, "C07", name, what,
                     "fault in %s during a valid call of %s: %s at %p, %s object of %zu bytes, %ld bytes from its end, %ld from its start",
                     g_fault.ripsym, name, g_fault.is_write ? "write" : "read", g_fault.addr, kind, g_fault.obj_len,
                     g_fault.off_from_obj_end, g_fault.off_from_obj_start);
        }
}

/* protected monitored call; returns 1 when the call faulted (violation already reported, manager re-created) */
static int
pcall(struct actx *x, const char *name, void *fn, int n, const uint64_t *a, uint64_t *ret, int target)
{
        sigjmp_buf jb;
        g_cm->cur_variant = x->mm->variant;
        if (sigsetjmp(jb, 1)) {
                g_fault_jmp = NULL;
                report_fault(x, name, target);
                mm_free(x->mm);
                x->mm = mm_new(x->cfg);
                if (!x->mm)
                        harness_fail("abi: cannot re-create manager after a fault");
                x->m = x->mm->m;
                x->faulted = 1;
                return 1;
        }
        g_fault_jmp = &jb;
        uint64_t r = mcall(name, fn, n, a[0], a[1], a[2], a[3], a[4], a[5], a[6], a[7], a[8], a[9], a[10], a[11], a[12], a[13],
                           a[14], a[15], a[16], a[17], a[18], a[19], a[20], a[21], a[22], a[23], a[24], a[25], a[26], a[27],
                           a[28], a[29], a[30], a[31], a[32], a[33], a[34], a[35], a[36], a[37], a[38], a[39]);
        g_fault_jmp = NULL;
        if (ret)
                *ret = r;
        return 0;
}
/* auxiliary (set-up / follow-up) call: arguments already cast to uint64_t */
static int
sc(struct actx *x, const char *name, void *fn, uint64_t *ret, int n, ...)
{
        uint64_t a[MAXA] = { 0 };
        va_list ap;
        va_start(ap, n);
        for (int i = 0; i < n && i < MAXA; i++)
                a[i] = va_arg(ap, uint64_t);
        va_end(ap);
        return pcall(x, name, fn, n, a, ret, 0);
}
#define U(p) ((uint64_t) (uintptr_t) (p))

static void
errno_reset(struct actx *x)
{
        sc(x, "get_next_job", MFN(x, get_next_job), NULL, 1, U(x->m));
}
static int
errno_get(struct actx *x)
{
        uint64_t r = 0;
        sc(x, "imb_get_errno", (void *) imb_get_errno, &r, 1, U(x->m));
        return (int) r;
}

/* ------------------------------------------------------------------ object / argument construction */
static int
mk(struct actx *x, struct call *c, const char *kind, size_t n, size_t align, enum role role)
{
        if (c->nobj >= MAXO)
                harness_fail("abi: too many objects for %s", c->name);
        struct obj *o = &c->o[c->nobj];
        memset(o, 0, sizeof *o);
        o->p = guard_alloc(x->nalloc++ % NSLOT, kind, n, align, x->pl);
        o->n = n;
        snprintf(o->kind, sizeof o->kind, "%s", kind);
        o->role = role;
        rng_bytes(&x->r, o->p, n);
        return c->nobj++;
}
/* object with given content */
static int
mkc(struct actx *x, struct call *c, const char *kind, const void *src, size_t n, size_t align, enum role role)
{
        int i = mk(x, c, kind, n, align, role);
        memcpy(c->o[i].p, src, n);
        return i;
}
#define OP(c, i) ((c)->o[i].p)
/* expected image of an object, initialised with its current content */
static uint8_t *
expbuf(struct call *c, int oi)
{
        struct obj *o = &c->o[oi];
        o->exp = palloc(o->n);
        memcpy(o->exp, o->p, o->n);
        c->have_ref = 1;
        return o->exp;
}
static struct arg *
anew(struct argv *v)
{
        if (v->n >= MAXA)
                harness_fail("abi: too many arguments");
        struct arg *a = &v->a[v->n++];
        memset(a, 0, sizeof *a);
        a->obj = -1;
        return a;
}
static void
P(struct argv *v, struct call *c, int oi)
{
        struct arg *a = anew(v);
        a->v = U(c->o[oi].p);
        a->obj = oi;
}
static void
PA(struct argv *v, struct call *c, int oi, int nelem)
{
        P(v, c, oi);
        v->a[v->n - 1].nelem = nelem;
}
static void
V(struct argv *v, uint64_t val)
{
        anew(v)->v = val;
}
static void
PX(struct argv *v, const void *p)
{
        struct arg *a = anew(v);
        a->v = U(p);
        a->obj = -2;
}
static void
LIM(struct call *c, const char *name, int arg, int elem, uint64_t val)
{
        if (c->nlim >= MAXLIM)
                harness_fail("abi: too many limits");
        struct lim *l = &c->lim[c->nlim++];
        memset(l, 0, sizeof *l);
        l->name = name;
        l->arg = arg;
        l->elem = elem;
        l->val = val;
}
/* array of n pointers to the given objects */
static int
mkpa(struct actx *x, struct call *c, const char *kind, const int *oi, int n)
{
        int a = mk(x, c, kind, (size_t) n * 8, 8, R_IN);
        for (int i = 0; i < n; i++)
                ((uint64_t *) OP(c, a))[i] = U(OP(c, oi[i]));
        return a;
}
static int
mku32(struct actx *x, struct call *c, const char *kind, const uint32_t *v, int n)
{
        return mkc(x, c, kind, v, (size_t) n * 4, 4, R_IN);
}

/* ------------------------------------------------------------------ lengths */
static const uint32_t lens_std[] = { 1,   15,  16,  17,  31,  32,   33,   63,   64,   65,   127,  128, 129,
                                     255, 256, 257, 1023, 1024, 1025, 2,  3,    4,    7,    8,    9,   47,
                                     48,  49,  95,  96,  97,  511,  512,  513,  2047, 2048, 2049, 4095, 4096 };
static uint32_t
pick_len(struct actx *x, uint32_t lo, uint32_t hi)
{
        uint32_t v;
        unsigned k = rng_below(&x->r, 100);
        if (x->mode != M_VALID && lo == 0)
                lo = 1;
        if (k < 70)
                v = lens_std[(x->lenidx++ * 7 + (k & 1) * 19) % ARRAY_SZ(lens_std)];
        else if (k < 76)
                v = lo;
        else if (k < 84)
                v = hi - rng_below(&x->r, 3);
        else if (k < 88)
                v = hi > 8 ? hi - rng_below(&x->r, 8) * (hi / 8) : hi;
        else
                v = lo + rng_below(&x->r, (hi > 4200 ? 4200 : hi) - lo + 1);
        if (v > hi)
                v = hi - (v % 3 < hi ? v % 3 : 0);
        if (v < lo)
                v = lo;
        return v;
}
static int
pick_n(struct actx *x, int maxn)
{
        static const int ns[] = { 1, 2, 3, 4, 5, 7, 8, 9, 15, 16, 17 };
        if (x->force_n)
                return x->force_n > maxn ? maxn : x->force_n;
        int n = ns[(x->lenidx++ * 3 + rng_below(&x->r, 2)) % ARRAY_SZ(ns)];
        if (n > maxn)
                n = maxn - (int) rng_below(&x->r, 2);
        return n;
}
/* unequal lengths around a base length */
static void
pick_lens(struct actx *x, uint32_t *len, int n, uint32_t lo, uint32_t hi)
{
        uint32_t cap = n > 2 && hi > 2100 ? 2100 : hi;
        uint32_t base = pick_len(x, lo, cap);
        if (x->mode != M_VALID && lo == 0)
                lo = 1;
        for (int i = 0; i < n; i++) {
                unsigned k = rng_below(&x->r, 4);
                int64_t v;
                if (i == 0)
                        v = base;
                else if (k == 0)
                        v = pick_len(x, lo, cap);
                else
                        v = (int64_t) base + (int64_t) rng_below(&x->r, 41) - 20;
                if (v < (int64_t) lo)
                        v = lo;
                if (v > (int64_t) hi)
                        v = hi;
                len[i] = (uint32_t) v;
        }
        if (n > 1 && len[0] == len[1])
                len[1] = len[1] > lo ? len[1] - 1 : len[1] + 1;
}
static uint32_t
len_class(uint32_t len)
{
        if (len <= 33)
                return len;
        for (unsigned k = 5; k < 32; k++) {
                uint32_t p = 1u << k;
                if (len + 1 >= p && len <= p + 1)
                        return len;
        }
        uint32_t p = 1;
        while (p * 2 <= len)
                p *= 2;
        return 0x80000000u | p;
}
static void
note(struct call *c, const char *fmt, ...) __attribute__((format(printf, 2, 3)));
static void
note(struct call *c, const char *fmt, ...)
{
        va_list ap;
        size_t o = strlen(c->note);
        va_start(ap, fmt);
        vsnprintf(c->note + o, sizeof c->note - o, fmt, ap);
        va_end(ap);
}

/* ================================================================== key preparation */
static size_t
aes_sched_sz(int ks)
{
        return 16 * ((size_t) ks / 4 + 7);
}
static int
b_keyexp(struct actx *x, struct call *c, const struct fdesc *f)
{
        const int ks = f->p1;
        const size_t sz = aes_sched_sz(ks);
        int k = mk(x, c, "key", (size_t) ks, 1, R_IN);
        int e = mk(x, c, "enckeys", sz, 16, R_OUT);
        int d = mk(x, c, "deckeys", sz, 16, R_OUT);
        P(&c->v, c, k);
        P(&c->v, c, e);
        P(&c->v, c, d);
        if (x->mode == M_VALID) {
                ref_aes_expand_enc(OP(c, k), ks, expbuf(c, e));
                ref_aes_expand_dec(OP(c, k), ks, expbuf(c, d));
        }
        c->lenclass = (uint32_t) ks;
        note(c, "key %s", hexs(OP(c, k), (size_t) ks));
        return 0;
}
static int
b_cmac(struct actx *x, struct call *c, const struct fdesc *f)
{
        const int ks = f->p1;
        struct ref_aes_key ak;
        uint8_t sched[240];
        ak.keylen = ks;
        rng_bytes(&x->r, ak.key, 32);
        ref_aes_expand_enc(ak.key, ks, sched);
        int e = mkc(x, c, "enckeys", sched, aes_sched_sz(ks), 16, R_IN);
        int k1 = mk(x, c, "subkey1", 16, 16, R_OUT);
        int k2 = mk(x, c, "subkey2", 16, 16, R_OUT);
        P(&c->v, c, e);
        P(&c->v, c, k1);
        P(&c->v, c, k2);
        if (x->mode == M_VALID)
                ref_cmac_subkeys(ref_aes_enc, &ak, expbuf(c, k1), expbuf(c, k2));
        c->lenclass = (uint32_t) ks;
        note(c, "key %s", hexs(ak.key, (size_t) ks));
        return 0;
}
static int
b_xcbc(struct actx *x, struct call *c, const struct fdesc *f)
{
        (void) f;
        int k = mk(x, c, "key", 16, 1, R_IN);
        int k1 = mk(x, c, "k1exp", 176, 16, R_OUT);
        int k2 = mk(x, c, "k2", 16, 16, R_OUT);
        int k3 = mk(x, c, "k3", 16, 16, R_OUT);
        P(&c->v, c, k);
        P(&c->v, c, k1);
        P(&c->v, c, k2);
        P(&c->v, c, k3);
        if (x->mode == M_VALID) {
                uint8_t r1[16];
                ref_xcbc_keys(OP(c, k), r1, expbuf(c, k2), expbuf(c, k3));
                ref_aes_expand_enc(r1, 16, expbuf(c, k1));
        }
        c->lenclass = 16;
        note(c, "key %s", hexs(OP(c, k), 16));
        return 0;
}
/* DES: the schedule layout is private; it is verified through des_cfb_one() against the DES model */
struct des_pd {
        int o_ks, o_key, o_in, o_out, o_iv;
        uint32_t len;
};
static void
post_des(struct actx *x, struct call *c)
{
        struct des_pd *d = c->pd;
        uint8_t t[8];
        if (sc(x, "des_cfb_one", (void *) des_cfb_one, NULL, 5, U(OP(c, d->o_out)), U(OP(c, d->o_in)), U(OP(c, d->o_iv)),
               U(OP(c, d->o_ks)), (uint64_t) d->len))
                return;
        ref_des_enc(OP(c, d->o_key), OP(c, d->o_iv), t);
        for (uint32_t i = 0; i < d->len; i++)
                t[i] ^= OP(c, d->o_in)[i];
        n_ref++;
        if (memcmp(t, OP(c, d->o_out), d->len))
                viol(x, "C09", c->name, "followup-mismatch", "DES-CFB block computed with the schedule is %s, DES model gives %s",
                     hexs(OP(c, d->o_out), d->len), hexs(t, d->len));
}
static int
b_des(struct actx *x, struct call *c, const struct fdesc *f)
{
        (void) f;
        struct des_pd *d = palloc(sizeof *d);
        d->o_ks = mk(x, c, "deskeys", IMB_DES_KEY_SCHED_SIZE, 8, R_OUT);
        d->o_key = mk(x, c, "key", 8, 1, R_IN);
        P(&c->v, c, d->o_ks);
        P(&c->v, c, d->o_key);
        c->ret_kind = 1;
        c->ret_exp = 0;
        c->ret_mask = 0xffffffffu;
        c->ret_err = 1;
        c->o[d->o_ks].nver = 1;
        if (x->mode == M_VALID) {
                d->len = 1 + rng_below(&x->r, 7); /* des_cfb_one() writes nothing for a full block of 8 */
                d->o_in = mk(x, c, "src", d->len, 1, R_IN);
                d->o_out = mk(x, c, "dst", d->len, 1, R_OUT);
                d->o_iv = mk(x, c, "iv", 8, 8, R_IN);
                c->pd = d;
                c->post = post_des;
        }
        c->lenclass = 8;
        note(c, "key %s", hexs(OP(c, d->o_key), 8));
        return 0;
}
static int
b_sm4(struct actx *x, struct call *c, const struct fdesc *f)
{
        (void) f;
        int k = mk(x, c, "key", 16, 1, R_IN);
        int e = mk(x, c, "enckeys", 128, 16, R_OUT);
        int d = mk(x, c, "deckeys", 128, 16, R_OUT);
        P(&c->v, c, k);
        P(&c->v, c, e);
        P(&c->v, c, d);
        if (x->mode == M_VALID) {
                uint32_t rk[32], *ee = (uint32_t *) expbuf(c, e), *dd = (uint32_t *) expbuf(c, d);
                ref_sm4_expand(OP(c, k), rk);
                for (int i = 0; i < 32; i++) {
                        ee[i] = rk[i];
                        dd[i] = rk[31 - i];
                }
        }
        c->lenclass = 16;
        note(c, "key %s", hexs(OP(c, k), 16));
        return 0;
}

/* ================================================================== hashes */
enum { H_SHA1, H_SHA224, H_SHA256, H_SHA384, H_SHA512, H_MD5 };
static size_t
hash_block(int h)
{
        return (h == H_SHA384 || h == H_SHA512) ? 128 : 64;
}
static size_t
ref_one_block(int h, const uint8_t *blk, uint8_t *out)
{
        switch (h) {
        case H_SHA1: {
                SHA_CTX s;
                SHA1_Init(&s);
                SHA1_Transform(&s, blk);
                uint32_t w[5] = { s.h0, s.h1, s.h2, s.h3, s.h4 };
                memcpy(out, w, 20);
                return 20;
        }
        case H_SHA224:
        case H_SHA256: {
                SHA256_CTX s;
                if (h == H_SHA224)
                        SHA224_Init(&s);
                else
                        SHA256_Init(&s);
                SHA256_Transform(&s, blk);
                memcpy(out, s.h, 32);
                return 32;
        }
        case H_SHA384:
        case H_SHA512: {
                SHA512_CTX s;
                if (h == H_SHA384)
                        SHA384_Init(&s);
                else
                        SHA512_Init(&s);
                SHA512_Transform(&s, blk);
                memcpy(out, s.h, 64);
                return 64;
        }
        default: {
                MD5_CTX s;
                MD5_Init(&s);
                MD5_Transform(&s, blk);
                uint32_t w[4] = { s.A, s.B, s.C, s.D };
                memcpy(out, w, 16);
                return 16;
        }
        }
}
static int
b_hash1(struct actx *x, struct call *c, const struct fdesc *f)
{
        static const size_t osz[] = { 20, 32, 32, 64, 64, 16 };
        const int h = f->p1;
        int s = mk(x, c, "src", hash_block(h), 1, R_IN);
        int o = mk(x, c, "tag", osz[h], h >= H_SHA384 && h != H_MD5 ? 8 : 4, R_OUT);
        P(&c->v, c, s);
        P(&c->v, c, o);
        if (x->mode == M_VALID)
                ref_one_block(h, OP(c, s), expbuf(c, o));
        c->lenclass = (uint32_t) hash_block(h);
        return 0;
}
static size_t
ref_sha(int h, const uint8_t *msg, size_t len, uint8_t *out)
{
        switch (h) {
        case H_SHA1:
                SHA1(msg, len, out);
                return 20;
        case H_SHA224:
                SHA224(msg, len, out);
                return 28;
        case H_SHA256:
                SHA256(msg, len, out);
                return 32;
        case H_SHA384:
                SHA384(msg, len, out);
                return 48;
        default:
                SHA512(msg, len, out);
                return 64;
        }
}
static int
b_sha(struct actx *x, struct call *c, const struct fdesc *f)
{
        static const size_t osz[] = { 20, 28, 32, 48, 64 };
        const int h = f->p1;
        uint32_t len = pick_len(x, 0, 4200);
        int s = mk(x, c, "src", len, 1, R_IN);
        int o = mk(x, c, "tag", osz[h], 1, R_OUT);
        P(&c->v, c, s);
        V(&c->v, len);
        P(&c->v, c, o);
        if (x->mode == M_VALID) {
                uint8_t t[64];
                ref_sha(h, OP(c, s), len, t);
                memcpy(expbuf(c, o), t, osz[h]);
        }
        c->lenclass = len_class(len);
        note(c, "len %u", len);
        return 0;
}

/* ================================================================== AES-CFB one block */
static int
b_cfb(struct actx *x, struct call *c, const struct fdesc *f)
{
        const int ks = f->p1;
        struct ref_aes_key ak;
        uint8_t sched[240];
        uint32_t len = 1 + rng_below(&x->r, 16);
        if (rng_below(&x->r, 3) == 0)
                len = 16 - rng_below(&x->r, 2);
        ak.keylen = ks;
        rng_bytes(&x->r, ak.key, 32);
        ref_aes_expand_enc(ak.key, ks, sched);
        int d = mk(x, c, "dst", len, 1, R_OUT);
        int s = mk(x, c, "src", len, 1, R_IN);
        int iv = mk(x, c, "iv", 16, 1, R_IN);
        int k = mkc(x, c, "enckeys", sched, aes_sched_sz(ks), 16, R_IN);
        P(&c->v, c, d);
        P(&c->v, c, s);
        P(&c->v, c, iv);
        P(&c->v, c, k);
        V(&c->v, len);
        if (x->mode == M_VALID) {
                uint8_t t[16], *e = expbuf(c, d);
                ref_aes_enc(&ak, OP(c, iv), t);
                for (uint32_t i = 0; i < len; i++)
                        e[i] = OP(c, s)[i] ^ t[i];
        }
        c->lenclass = len;
        note(c, "len %u key %s", len, hexs(ak.key, (size_t) ks));
        return 0;
}

/* ================================================================== HEC / CRC */
static int
b_hec(struct actx *x, struct call *c, const struct fdesc *f)
{
        int s = mk(x, c, "src", (size_t) f->p1 / 8, 1, R_IN);
        P(&c->v, c, s);
        c->ret_kind = 2;
        c->ret_mask = f->p1 == 32 ? 0xffffffffu : ~0ULL;
        c->lenclass = (uint32_t) f->p1 / 8;
        note(c, "header %s", hexs(OP(c, s), (size_t) f->p1 / 8));
        return 0;
}
static const struct ref_crc_params crc_tab[] = {
        { "crc32_ethernet_fcs", 32, 0x04c11db7, 0xffffffff, 1, 1, 0xffffffff },
        { "crc16_x25", 16, 0x1021, 0xffff, 1, 1, 0xffff },
        { "crc32_sctp", 32, 0x1edc6f41, 0, 0, 0, 0 },
        { "crc24_lte_a", 24, 0x864cfb, 0, 0, 0, 0 },
        { "crc24_lte_b", 24, 0x800063, 0, 0, 0, 0 },
        { "crc16_fp_data", 16, 0x8005, 0, 0, 0, 0 },
        { "crc11_fp_header", 11, 0x307, 0, 0, 0, 0 },
        { "crc7_fp_header", 7, 0x45, 0, 0, 0, 0 },
        { "crc10_iuup_data", 10, 0x233, 0, 0, 0, 0 },
        { "crc6_iuup_header", 6, 0x2f, 0, 0, 0, 0 },
        { "crc32_wimax_ofdma_data", 32, 0x04c11db7, 0xffffffff, 0, 0, 0xffffffff },
        { "crc8_wimax_ofdma_hcs", 8, 0x07, 0, 0, 0, 0 },
};
static int
b_crc(struct actx *x, struct call *c, const struct fdesc *f)
{
        uint32_t len = pick_len(x, 0, 4200);
        int s = mk(x, c, "src", len, 1, R_IN);
        P(&c->v, c, s);
        V(&c->v, len);
        c->ret_kind = 1;
        c->ret_mask = 0xffffffffu;
        if (x->mode == M_VALID) {
                c->ret_exp = ref_crc(&crc_tab[f->p1], OP(c, s), len);
                c->have_ref = 1;
        }
        c->lenclass = len_class(len);
        note(c, "len %u", len);
        return 0;
}

/* ================================================================== GCM / GMAC / GHASH / ChaCha20-Poly1305 */
enum {
        G_ENC, G_DEC, G_INIT, G_INITIV, G_ENCUPD, G_DECUPD, G_ENCFIN, G_DECFIN, G_PRECOMP, G_PRE,
        GM_INIT, GM_UPD, GM_FIN, C_INIT, C_ENCUPD, C_DECUPD, C_FIN
};
static void *
gcm_fn(struct actx *x, int ks, int which, const char **name)
{
        static const char *const nm[13][3] = {
                { "gcm128_enc", "gcm192_enc", "gcm256_enc" },
                { "gcm128_dec", "gcm192_dec", "gcm256_dec" },
                { "gcm128_init", "gcm192_init", "gcm256_init" },
                { "gcm128_init_var_iv", "gcm192_init_var_iv", "gcm256_init_var_iv" },
                { "gcm128_enc_update", "gcm192_enc_update", "gcm256_enc_update" },
                { "gcm128_dec_update", "gcm192_dec_update", "gcm256_dec_update" },
                { "gcm128_enc_finalize", "gcm192_enc_finalize", "gcm256_enc_finalize" },
                { "gcm128_dec_finalize", "gcm192_dec_finalize", "gcm256_dec_finalize" },
                { "gcm128_precomp", "gcm192_precomp", "gcm256_precomp" },
                { "gcm128_pre", "gcm192_pre", "gcm256_pre" },
                { "gmac128_init", "gmac192_init", "gmac256_init" },
                { "gmac128_update", "gmac192_update", "gmac256_update" },
                { "gmac128_finalize", "gmac192_finalize", "gmac256_finalize" },
        };
        const int k = ks == 16 ? 0 : ks == 24 ? 1 : 2;
        IMB_MGR *m = x->m;
#define G3(a, b, d) (k == 0 ? (void *) m->a : k == 1 ? (void *) m->b : (void *) m->d)
        if (name)
                *name = nm[which][k];
        switch (which) {
        case G_ENC: return G3(gcm128_enc, gcm192_enc, gcm256_enc);
        case G_DEC: return G3(gcm128_dec, gcm192_dec, gcm256_dec);
        case G_INIT: return G3(gcm128_init, gcm192_init, gcm256_init);
        case G_INITIV: return G3(gcm128_init_var_iv, gcm192_init_var_iv, gcm256_init_var_iv);
        case G_ENCUPD: return G3(gcm128_enc_update, gcm192_enc_update, gcm256_enc_update);
        case G_DECUPD: return G3(gcm128_dec_update, gcm192_dec_update, gcm256_dec_update);
        case G_ENCFIN: return G3(gcm128_enc_finalize, gcm192_enc_finalize, gcm256_enc_finalize);
        case G_DECFIN: return G3(gcm128_dec_finalize, gcm192_dec_finalize, gcm256_dec_finalize);
        case G_PRECOMP: return G3(gcm128_precomp, gcm192_precomp, gcm256_precomp);
        case G_PRE: return G3(gcm128_pre, gcm192_pre, gcm256_pre);
        case GM_INIT: return G3(gmac128_init, gmac192_init, gmac256_init);
        case GM_UPD: return G3(gmac128_update, gmac192_update, gmac256_update);
        default: return G3(gmac128_finalize, gmac192_finalize, gmac256_finalize);
        }
#undef G3
}
static uint32_t
pick_tagl(struct actx *x)
{
        static const uint32_t t[] = { 16, 16, 12, 8 };
        return t[rng_below(&x->r, 4)];
}
static uint32_t
pick_aadl(struct actx *x)
{
        static const uint32_t t[] = { 0, 1, 8, 12, 16, 17, 20, 32, 33, 48, 64, 65 };
        uint32_t v = t[rng_below(&x->r, ARRAY_SZ(t))];
        if (rng_below(&x->r, 8) == 0)
                v = rng_below(&x->r, 300);
        if (x->mode != M_VALID && v == 0)
                v = 1;
        return v;
}
/* key_data object prepared by the library's own gcmNNN_pre (set-up call) */
static int
gcm_keydata(struct actx *x, struct call *c, struct ref_aes_key *ak, int ks)
{
        const char *nm;
        ak->keylen = ks;
        rng_bytes(&x->r, ak->key, 32);
        int k = mkc(x, c, "key", ak->key, (size_t) ks, 1, R_IN);
        int kd = mk(x, c, "keydata", sizeof(struct gcm_key_data), 64, R_IN);
        void *fn = gcm_fn(x, ks, G_PRE, &nm);
        if (sc(x, nm, fn, NULL, 2, U(OP(c, k)), U(OP(c, kd))))
                return -1;
        return kd;
}

/* ---- one-shot */
static int
b_gcm(struct actx *x, struct call *c, const struct fdesc *f)
{
        const int ks = f->p1, dec = f->p2;
        struct ref_aes_key ak;
        int kd = gcm_keydata(x, c, &ak, ks);
        if (kd < 0)
                return -1;
        uint32_t len = pick_len(x, 0, 4200), aadl = pick_aadl(x), tagl = pick_tagl(x);
        int ctx = mk(x, c, "ctx", sizeof(struct gcm_context_data), 8, R_INOUT);
        int out = mk(x, c, "dst", len, 1, R_OUT);
        int in = mk(x, c, "src", len, 1, R_IN);
        int iv = mk(x, c, "iv", 12, 1, R_IN);
        int aad = mk(x, c, "aad", aadl, 1, R_IN);
        int tag = mk(x, c, "tag", tagl, 1, R_OUT);
        P(&c->v, c, kd);
        P(&c->v, c, ctx);
        P(&c->v, c, out);
        P(&c->v, c, in);
        V(&c->v, len);
        P(&c->v, c, iv);
        P(&c->v, c, aad);
        V(&c->v, aadl);
        P(&c->v, c, tag);
        V(&c->v, tagl);
        if (x->mode == M_VALID)
                ref_gcm(ref_aes_enc, &ak, dec, OP(c, iv), 12, OP(c, aad), aadl, OP(c, in), expbuf(c, out), len, expbuf(c, tag), tagl);
        LIM(c, "taglen-0", 9, -1, 0);
        LIM(c, "taglen-17", 9, -1, 17);
        LIM(c, "msglen-max", 4, -1, IMB_GCM_MAX_LEN + 1);
        c->lenclass = len_class(len);
        note(c, "len %u aad %u tag %u key %s", len, aadl, tagl, hexs(ak.key, (size_t) ks));
        return 0;
}

/* ---- follow-up one-shot encryption used to validate prepared key data */
struct fup {
        int ks, o_kd, o_ctx, o_in, o_out, o_iv, o_aad, o_tag;
        struct ref_aes_key ak;
        int o_hin, o_htag; /* ghash */
        uint8_t hkey[16];
};
static void
fup_alloc(struct actx *x, struct call *c, struct fup *u)
{
        u->o_ctx = mk(x, c, "ctx", sizeof(struct gcm_context_data), 8, R_INOUT);
        u->o_in = mk(x, c, "src", 45, 1, R_IN);
        u->o_out = mk(x, c, "dst", 45, 1, R_OUT);
        u->o_iv = mk(x, c, "iv", 12, 1, R_IN);
        u->o_aad = mk(x, c, "aad", 13, 1, R_IN);
        u->o_tag = mk(x, c, "tag", 16, 1, R_OUT);
}
static void
fup_run(struct actx *x, struct call *c, struct fup *u)
{
        const char *nm;
        uint8_t eo[45], et[16];
        void *fn = gcm_fn(x, u->ks, G_ENC, &nm);
        if (sc(x, nm, fn, NULL, 10, U(OP(c, u->o_kd)), U(OP(c, u->o_ctx)), U(OP(c, u->o_out)), U(OP(c, u->o_in)), (uint64_t) 45,
               U(OP(c, u->o_iv)), U(OP(c, u->o_aad)), (uint64_t) 13, U(OP(c, u->o_tag)), (uint64_t) 16))
                return;
        ref_gcm(ref_aes_enc, &u->ak, 0, OP(c, u->o_iv), 12, OP(c, u->o_aad), 13, OP(c, u->o_in), eo, 45, et, 16);
        n_ref++;
        if (memcmp(eo, OP(c, u->o_out), 45) || memcmp(et, OP(c, u->o_tag), 16))
                viol(x, "C09", c->name, "followup-mismatch",
                     "GCM encryption with the prepared key data differs from the model: tag %s expected %s", hexs(OP(c, u->o_tag), 16),
                     hexs(et, 16));
}
static void
post_gcmpre(struct actx *x, struct call *c)
{
        struct fup *u = c->pd;
        uint8_t sched[240];
        ref_aes_expand_enc(u->ak.key, u->ks, sched);
        if (memcmp(sched, OP(c, u->o_kd), aes_sched_sz(u->ks)))
                viol(x, "C09", c->name, "output-mismatch", "expanded_keys inside gcm_key_data differ from the FIPS-197 expansion");
        fup_run(x, c, u);
}
static int
b_gcmpre(struct actx *x, struct call *c, const struct fdesc *f)
{
        struct fup *u = palloc(sizeof *u);
        u->ks = f->p1;
        u->ak.keylen = u->ks;
        rng_bytes(&x->r, u->ak.key, 32);
        if (f->p2 == G_PRE) {
                int k = mkc(x, c, "key", u->ak.key, (size_t) u->ks, 1, R_IN);
                u->o_kd = mk(x, c, "keydata", sizeof(struct gcm_key_data), 64, R_OUT);
                P(&c->v, c, k);
                P(&c->v, c, u->o_kd);
        } else {
                u->o_kd = mk(x, c, "keydata", sizeof(struct gcm_key_data), 64, R_INOUT);
                ref_aes_expand_enc(u->ak.key, u->ks, OP(c, u->o_kd));
                P(&c->v, c, u->o_kd);
        }
        if (x->mode == M_VALID) {
                fup_alloc(x, c, u);
                c->pd = u;
                c->post = post_gcmpre;
        }
        c->lenclass = (uint32_t) u->ks;
        note(c, "key %s", hexs(u->ak.key, (size_t) u->ks));
        return 0;
}

/* ---- GHASH */
static void
post_ghashpre(struct actx *x, struct call *c)
{
        struct fup *u = c->pd;
        uint8_t init[16], e[16];
        memcpy(init, OP(c, u->o_htag), 16);
        if (sc(x, "ghash", MFN(x, ghash), NULL, 5, U(OP(c, u->o_kd)), U(OP(c, u->o_hin)), (uint64_t) 37, U(OP(c, u->o_htag)),
               (uint64_t) 16))
                return;
        ref_ghash_raw(u->hkey, init, OP(c, u->o_hin), 37, e);
        n_ref++;
        if (memcmp(e, OP(c, u->o_htag), 16))
                viol(x, "C09", c->name, "followup-mismatch", "GHASH with the prepared key data gives %s, model %s",
                     hexs(OP(c, u->o_htag), 16), hexs(e, 16));
}
static int
b_ghashpre(struct actx *x, struct call *c, const struct fdesc *f)
{
        (void) f;
        struct fup *u = palloc(sizeof *u);
        rng_bytes(&x->r, u->hkey, 16);
        int k = mkc(x, c, "key", u->hkey, 16, 1, R_IN);
        u->o_kd = mk(x, c, "keydata", sizeof(struct gcm_key_data), 64, R_OUT);
        P(&c->v, c, k);
        P(&c->v, c, u->o_kd);
        if (x->mode == M_VALID) {
                u->o_hin = mk(x, c, "src", 37, 1, R_IN);
                u->o_htag = mk(x, c, "tag", 16, 1, R_INOUT);
                c->pd = u;
                c->post = post_ghashpre;
        }
        c->lenclass = 16;
        note(c, "hash key %s", hexs(u->hkey, 16));
        return 0;
}
static int
b_ghash(struct actx *x, struct call *c, const struct fdesc *f)
{
        (void) f;
        static const uint32_t tl[] = { 16, 16, 16, 8, 12, 4 };
        uint8_t hkey[16];
        rng_bytes(&x->r, hkey, 16);
        int k = mkc(x, c, "key", hkey, 16, 1, R_IN);
        int kd = mk(x, c, "keydata", sizeof(struct gcm_key_data), 64, R_IN);
        if (sc(x, "ghash_pre", MFN(x, ghash_pre), NULL, 2, U(OP(c, k)), U(OP(c, kd))))
                return -1;
        uint32_t len = pick_len(x, 1, 4200), tagl = tl[rng_below(&x->r, ARRAY_SZ(tl))];
        int in = mk(x, c, "src", len, 1, R_IN);
        int tag = mk(x, c, "tag", tagl, 1, R_OUT);
        P(&c->v, c, kd);
        P(&c->v, c, in);
        V(&c->v, len);
        P(&c->v, c, tag);
        V(&c->v, tagl);
        if (x->mode == M_VALID) {
                uint8_t init[16] = { 0 }, e[16];
                memcpy(init, OP(c, tag), tagl);
                ref_ghash_raw(hkey, init, OP(c, in), len, e);
                memcpy(expbuf(c, tag), e, tagl);
        }
        LIM(c, "msglen-0", 2, -1, 0);
        LIM(c, "taglen-0", 4, -1, 0);
        c->lenclass = len_class(len);
        note(c, "len %u tag %u hash key %s", len, tagl, hexs(hkey, 16));
        return 0;
}

/* ---- init / update / update / finalize sequences */
enum { A_GCM, A_GMAC, A_CHP };
enum { S_INIT, S_UPD1, S_UPD2, S_FIN };
struct seq {
        int algo, ks, dec, var_iv, tested;
        struct ref_aes_key ak;
        int o_kd, o_ctx, o_iv, o_aad, o_in[2], o_out[2], o_tag;
        uint32_t ivlen, aadlen, len[2], taglen;
        uint8_t *exp_out;
        uint8_t exp_tag[16];
};
static void
seq_push(struct actx *x, struct call *c, struct seq *s, int stage, struct argv *v, const char **name, void **fn)
{
        const int u = stage == S_UPD2;
        if (s->algo == A_CHP) {
                switch (stage) {
                case S_INIT:
                        *name = "chacha20_poly1305_init";
                        *fn = MFN(x, chacha20_poly1305_init);
                        P(v, c, s->o_kd);
                        P(v, c, s->o_ctx);
                        P(v, c, s->o_iv);
                        P(v, c, s->o_aad);
                        V(v, s->aadlen);
                        break;
                case S_FIN:
                        *name = "chacha20_poly1305_finalize";
                        *fn = MFN(x, chacha20_poly1305_finalize);
                        P(v, c, s->o_ctx);
                        P(v, c, s->o_tag);
                        V(v, s->taglen);
                        break;
                default:
                        *name = s->dec ? "chacha20_poly1305_dec_update" : "chacha20_poly1305_enc_update";
                        *fn = s->dec ? MFN(x, chacha20_poly1305_dec_update) : MFN(x, chacha20_poly1305_enc_update);
                        P(v, c, s->o_kd);
                        P(v, c, s->o_ctx);
                        P(v, c, s->o_out[u]);
                        P(v, c, s->o_in[u]);
                        V(v, s->len[u]);
                }
                return;
        }
        P(v, c, s->o_kd);
        P(v, c, s->o_ctx);
        if (s->algo == A_GMAC) {
                switch (stage) {
                case S_INIT:
                        *fn = gcm_fn(x, s->ks, GM_INIT, name);
                        P(v, c, s->o_iv);
                        V(v, s->ivlen);
                        break;
                case S_FIN:
                        *fn = gcm_fn(x, s->ks, GM_FIN, name);
                        P(v, c, s->o_tag);
                        V(v, s->taglen);
                        break;
                default:
                        *fn = gcm_fn(x, s->ks, GM_UPD, name);
                        P(v, c, s->o_in[u]);
                        V(v, s->len[u]);
                }
                return;
        }
        switch (stage) {
        case S_INIT:
                *fn = gcm_fn(x, s->ks, s->var_iv ? G_INITIV : G_INIT, name);
                P(v, c, s->o_iv);
                if (s->var_iv)
                        V(v, s->ivlen);
                P(v, c, s->o_aad);
                V(v, s->aadlen);
                break;
        case S_FIN:
                *fn = gcm_fn(x, s->ks, s->dec ? G_DECFIN : G_ENCFIN, name);
                P(v, c, s->o_tag);
                V(v, s->taglen);
                break;
        default:
                *fn = gcm_fn(x, s->ks, s->dec ? G_DECUPD : G_ENCUPD, name);
                P(v, c, s->o_out[u]);
                P(v, c, s->o_in[u]);
                V(v, s->len[u]);
        }
}
static int
seq_run(struct actx *x, struct call *c, struct seq *s, int stage)
{
        struct argv v;
        uint64_t a[MAXA] = { 0 };
        const char *nm = NULL;
        void *fn = NULL;
        memset(&v, 0, sizeof v);
        seq_push(x, c, s, stage, &v, &nm, &fn);
        for (int i = 0; i < v.n; i++)
                a[i] = v.a[i].v;
        return pcall(x, nm, fn, v.n, a, NULL, 0);
}
static void
post_seq(struct actx *x, struct call *c)
{
        struct seq *s = c->pd;
        for (int st = s->tested + 1; st <= S_FIN; st++)
                if (seq_run(x, c, s, st))
                        return;
        n_ref++;
        if (s->algo != A_GMAC)
                for (int u = 0; u < 2; u++) {
                        if (s->tested == S_UPD1 + u)
                                continue; /* checked by the generic comparison */
                        const uint8_t *e = s->exp_out + (u ? s->len[0] : 0);
                        if (memcmp(e, OP(c, s->o_out[u]), s->len[u]))
                                viol(x, "C09", c->name, "followup-mismatch",
                                     "output of update segment %d (%u bytes) of the sequence containing this call differs from the model", u + 1,
                                     s->len[u]);
                }
        if (s->tested != S_FIN && memcmp(s->exp_tag, OP(c, s->o_tag), s->taglen))
                viol(x, "C09", c->name, "followup-mismatch", "tag after completing the sequence is %s, model %s",
                     hexs(OP(c, s->o_tag), s->taglen), hexs(s->exp_tag, s->taglen));
}
static int
b_seq(struct actx *x, struct call *c, const struct fdesc *f)
{
        static const uint32_t ivls[] = { 12, 1, 8, 12, 13, 16, 17, 32, 60, 12 };
        struct seq *s = palloc(sizeof *s);
        const int code = f->p2;
        const char *nm = NULL;
        void *fn = NULL;
        s->ks = f->p1;
        s->algo = code >= C_INIT ? A_CHP : code >= GM_INIT ? A_GMAC : A_GCM;
        s->dec = (code == G_DECUPD || code == G_DECFIN || code == C_DECUPD) ? 1
                 : (code == G_ENCUPD || code == G_ENCFIN || code == C_ENCUPD) ? 0
                                                                              : (int) rng_below(&x->r, 2);
        s->var_iv = code == G_INITIV ? 1 : code == G_INIT ? 0 : (int) rng_below(&x->r, 2);
        switch (code) {
        case G_INIT:
        case G_INITIV:
        case GM_INIT:
        case C_INIT:
                s->tested = S_INIT;
                break;
        case G_ENCFIN:
        case G_DECFIN:
        case GM_FIN:
        case C_FIN:
                s->tested = S_FIN;
                break;
        default:
                s->tested = S_UPD1 + (int) rng_below(&x->r, 2);
        }
        /* geometry */
        uint32_t total = pick_len(x, 0, 4200);
        unsigned k = rng_below(&x->r, 4);
        s->len[0] = k == 0 ? total : k == 1 ? (total / 16) * 16 / 2 : rng_below(&x->r, total + 1);
        if (s->len[0] > total)
                s->len[0] = total;
        s->len[1] = total - s->len[0];
        if (x->mode != M_VALID && s->tested >= S_UPD1 && s->tested <= S_UPD2 && s->len[s->tested - S_UPD1] == 0)
                s->len[s->tested - S_UPD1] = 1;
        total = s->len[0] + s->len[1];
        s->aadlen = s->algo == A_GMAC ? 0 : pick_aadl(x);
        s->ivlen = (s->algo == A_CHP || (s->algo == A_GCM && !s->var_iv)) ? 12 : ivls[rng_below(&x->r, ARRAY_SZ(ivls))];
        s->taglen = pick_tagl(x);
        /* objects */
        if (s->algo == A_CHP) {
                s->ak.keylen = 32;
                rng_bytes(&x->r, s->ak.key, 32);
                s->o_kd = mkc(x, c, "key", s->ak.key, 32, 1, R_IN);
                s->o_ctx = mk(x, c, "ctx", sizeof(struct chacha20_poly1305_context_data), 8, R_INOUT);
        } else {
                s->o_kd = gcm_keydata(x, c, &s->ak, s->ks);
                if (s->o_kd < 0)
                        return -1;
                s->o_ctx = mk(x, c, "ctx", sizeof(struct gcm_context_data), 8, R_INOUT);
        }
        s->o_iv = mk(x, c, "iv", s->ivlen, 1, R_IN);
        s->o_aad = s->algo == A_GMAC ? -1 : mk(x, c, "aad", s->aadlen, 1, R_IN);
        for (int u = 0; u < 2; u++) {
                s->o_in[u] = mk(x, c, "src", s->len[u], 1, R_IN);
                s->o_out[u] = s->algo == A_GMAC ? -1 : mk(x, c, "dst", s->len[u], 1, R_OUT);
        }
        s->o_tag = mk(x, c, "tag", s->taglen, 1, R_OUT);
        /* expected results */
        if (x->mode == M_VALID) {
                uint8_t *in = palloc(total + 1), t16[16];
                memcpy(in, OP(c, s->o_in[0]), s->len[0]);
                memcpy(in + s->len[0], OP(c, s->o_in[1]), s->len[1]);
                s->exp_out = palloc(total + 1);
                if (s->algo == A_GCM)
                        ref_gcm(ref_aes_enc, &s->ak, s->dec, OP(c, s->o_iv), s->ivlen, OP(c, s->o_aad), s->aadlen, in, s->exp_out,
                                total, s->exp_tag, s->taglen);
                else if (s->algo == A_GMAC)
                        ref_gcm(ref_aes_enc, &s->ak, 0, OP(c, s->o_iv), s->ivlen, in, total, NULL, NULL, 0, s->exp_tag, s->taglen);
                else {
                        ref_chacha20_poly1305(s->dec, s->ak.key, OP(c, s->o_iv), OP(c, s->o_aad), s->aadlen, in, s->exp_out, total,
                                              t16);
                        memcpy(s->exp_tag, t16, s->taglen);
                }
        }
        /* stages before the tested one are set-up calls */
        for (int st = S_INIT; st < s->tested; st++)
                if (seq_run(x, c, s, st))
                        return -1;
        seq_push(x, c, s, s->tested, &c->v, &nm, &fn);
        if (x->mode == M_VALID) {
                if (s->tested == S_FIN)
                        memcpy(expbuf(c, s->o_tag), s->exp_tag, s->taglen);
                else if (s->tested != S_INIT && s->algo != A_GMAC) {
                        const int u = s->tested - S_UPD1;
                        memcpy(expbuf(c, s->o_out[u]), s->exp_out + (u ? s->len[0] : 0), s->len[u]);
                }
                c->have_ref = 1;
                c->pd = s;
                c->post = post_seq;
        }
        if (code == G_INITIV || code == GM_INIT)
                LIM(c, "ivlen-0", 3, -1, 0);
        if (code == G_ENCUPD || code == G_DECUPD)
                LIM(c, "msglen-max", 4, -1, IMB_GCM_MAX_LEN + 1);
        if (s->tested == S_FIN) {
                LIM(c, "taglen-0", s->algo == A_CHP ? 2 : 3, -1, 0);
                LIM(c, "taglen-17", s->algo == A_CHP ? 2 : 3, -1, 17);
        }
        c->lenclass = len_class(s->tested == S_UPD2 ? s->len[1] : s->tested == S_UPD1 ? s->len[0] : total);
        note(c, "%s segments %u+%u aad %u iv %u tag %u stage %d key %s", s->dec ? "decrypt" : "encrypt", s->len[0], s->len[1],
             s->aadlen, s->ivlen, s->taglen, s->tested, hexs(s->ak.key, s->algo == A_CHP ? 32 : (size_t) s->ks));
        return 0;
}

/* ================================================================== wireless: common helpers */
struct mb {
        int n;
        int o_key[MAXB], o_iv[MAXB], o_in[MAXB], o_out[MAXB];
        uint32_t len[MAXB];
        uint8_t key[MAXB][16];
};
static void
bits_extract(const uint8_t *in, uint32_t off, uint32_t nb, uint8_t *t)
{
        for (uint32_t i = 0; i < nb; i++) {
                uint32_t sb = off + i;
                if (in[sb >> 3] & (0x80 >> (sb & 7)))
                        t[i >> 3] |= (uint8_t) (0x80 >> (i & 7));
        }
}
static void
bits_insert(uint8_t *out, uint32_t off, uint32_t nb, const uint8_t *o, uint8_t *mask)
{
        for (uint32_t i = 0; i < nb; i++) {
                uint32_t db = off + i;
                uint8_t m = (uint8_t) (0x80 >> (db & 7));
                if (o[i >> 3] & (0x80 >> (i & 7)))
                        out[db >> 3] |= m;
                else
                        out[db >> 3] &= (uint8_t) ~m;
                if (mask)
                        mask[db >> 3] |= m;
        }
}
static uint32_t
pick_bits(struct actx *x, uint32_t maxbits)
{
        uint32_t bytes = pick_len(x, 1, (maxbits + 7) / 8);
        uint32_t bits = bytes * 8 - (rng_below(&x->r, 3) ? rng_below(&x->r, 8) : 0);
        if (bits > maxbits)
                bits = maxbits;
        if (bits == 0)
                bits = 1;
        return bits;
}

/* ================================================================== ZUC */
#define ZUC_MAXB 8188u
static int
b_zuc_eea3(struct actx *x, struct call *c, const struct fdesc *f)
{
        struct mb *b = palloc(sizeof *b);
        b->n = f->p1 == 1 ? 1 : f->p1 == 4 ? 4 : pick_n(x, MAXB);
        pick_lens(x, b->len, b->n, 1, ZUC_MAXB);
        for (int i = 0; i < b->n; i++) {
                b->o_key[i] = mk(x, c, "key", 16, 1, R_IN);
                b->o_iv[i] = mk(x, c, "iv", 16, 1, R_IN);
                b->o_in[i] = mk(x, c, "src", b->len[i], 1, R_IN);
                b->o_out[i] = mk(x, c, "dst", b->len[i], 1, R_OUT);
                if (x->mode == M_VALID)
                        ref_zuc128_eea3(OP(c, b->o_key[i]), OP(c, b->o_iv[i]), OP(c, b->o_in[i]), expbuf(c, b->o_out[i]), b->len[i]);
        }
        if (f->p1 == 1) {
                P(&c->v, c, b->o_key[0]);
                P(&c->v, c, b->o_iv[0]);
                P(&c->v, c, b->o_in[0]);
                P(&c->v, c, b->o_out[0]);
                V(&c->v, b->len[0]);
                LIM(c, "len-0", 4, -1, 0);
                LIM(c, "len-max", 4, -1, ZUC_MAXB + 1);
        } else {
                const int k = (int) rng_below(&x->r, (uint32_t) b->n);
                PA(&c->v, c, mkpa(x, c, "keyarr", b->o_key, b->n), b->n);
                PA(&c->v, c, mkpa(x, c, "ivarr", b->o_iv, b->n), b->n);
                PA(&c->v, c, mkpa(x, c, "srcarr", b->o_in, b->n), b->n);
                PA(&c->v, c, mkpa(x, c, "dstarr", b->o_out, b->n), b->n);
                P(&c->v, c, mku32(x, c, "lenarr", b->len, b->n));
                if (f->p1 == 0)
                        V(&c->v, (uint64_t) b->n);
                LIM(c, "len-0", 4, k, 0);
                LIM(c, "len-max", 4, k, ZUC_MAXB + 1);
        }
        c->lenclass = len_class(b->len[0]);
        note(c, "%d buffers, lengths %u %u %u..", b->n, b->len[0], b->n > 1 ? b->len[1] : 0, b->n > 2 ? b->len[2] : 0);
        return 0;
}
static int
b_zuc_eia3(struct actx *x, struct call *c, const struct fdesc *f)
{
        struct mb *b = palloc(sizeof *b);
        int o_mac[MAXB];
        b->n = f->p1 == 1 ? 1 : pick_n(x, MAXB);
        for (int i = 0; i < b->n; i++) {
                b->len[i] = pick_bits(x, b->n > 2 && i ? 16000 : 65504);
                b->o_key[i] = mk(x, c, "key", 16, 1, R_IN);
                b->o_iv[i] = mk(x, c, "iv", 16, 1, R_IN);
                b->o_in[i] = mk(x, c, "src", (b->len[i] + 7) / 8, 1, R_IN);
                o_mac[i] = mk(x, c, "tag", 4, 4, R_OUT);
                if (x->mode == M_VALID)
                        ref_zuc128_eia3(OP(c, b->o_key[i]), OP(c, b->o_iv[i]), OP(c, b->o_in[i]), b->len[i], expbuf(c, o_mac[i]));
        }
        if (f->p1 == 1) {
                P(&c->v, c, b->o_key[0]);
                P(&c->v, c, b->o_iv[0]);
                P(&c->v, c, b->o_in[0]);
                V(&c->v, b->len[0]);
                P(&c->v, c, o_mac[0]);
                LIM(c, "bitlen-0", 3, -1, 0);
                LIM(c, "bitlen-max", 3, -1, 65505);
        } else {
                const int k = (int) rng_below(&x->r, (uint32_t) b->n);
                PA(&c->v, c, mkpa(x, c, "keyarr", b->o_key, b->n), b->n);
                PA(&c->v, c, mkpa(x, c, "ivarr", b->o_iv, b->n), b->n);
                PA(&c->v, c, mkpa(x, c, "srcarr", b->o_in, b->n), b->n);
                P(&c->v, c, mku32(x, c, "lenarr", b->len, b->n));
                PA(&c->v, c, mkpa(x, c, "tagarr", o_mac, b->n), b->n);
                V(&c->v, (uint64_t) b->n);
                LIM(c, "bitlen-0", 3, k, 0);
                LIM(c, "bitlen-max", 3, k, 65505);
        }
        c->lenclass = len_class((b->len[0] + 7) / 8);
        note(c, "%d buffers, bit lengths %u %u %u..", b->n, b->len[0], b->n > 1 ? b->len[1] : 0, b->n > 2 ? b->len[2] : 0);
        return 0;
}

/* ================================================================== KASUMI */
#define KAS_MAXB 2500u
static int
kas_sched(struct actx *x, struct call *c, const uint8_t key[16], int f9)
{
        int k = mkc(x, c, "key", key, 16, 1, R_IN);
        int s = mk(x, c, "kasumikeys", x->kas_sz, 16, R_IN);
        uint64_t r = 0;
        if (sc(x, f9 ? "kasumi_init_f9_key_sched" : "kasumi_init_f8_key_sched",
               f9 ? MFN(x, kasumi_init_f9_key_sched) : MFN(x, kasumi_init_f8_key_sched), &r, 2, U(OP(c, k)), U(OP(c, s))))
                return -1;
        return s;
}
static int
b_kas_f8(struct actx *x, struct call *c, const struct fdesc *f)
{
        struct mb *b = palloc(sizeof *b);
        uint8_t key[16];
        uint64_t iv[MAXB];
        rng_bytes(&x->r, key, 16);
        rng_bytes(&x->r, iv, sizeof iv);
        int ks = kas_sched(x, c, key, 0);
        if (ks < 0)
                return -1;
        b->n = f->p1 ? f->p1 : pick_n(x, MAXB);
        pick_lens(x, b->len, b->n, 1, KAS_MAXB);
        if (f->p1 == 3 || f->p1 == 4)
                for (int i = 1; i < b->n; i++)
                        b->len[i] = b->len[0];
        for (int i = 0; i < b->n; i++) {
                b->o_in[i] = mk(x, c, "src", b->len[i], 1, R_IN);
                b->o_out[i] = mk(x, c, "dst", b->len[i], 1, R_OUT);
                if (x->mode == M_VALID)
                        ref_kasumi_f8(key, (const uint8_t *) &iv[i], OP(c, b->o_in[i]), expbuf(c, b->o_out[i]), (uint64_t) b->len[i] * 8);
        }
        struct argv *v = &c->v;
        P(v, c, ks);
        if (f->p1 == 0) {
                const int k = (int) rng_below(&x->r, (uint32_t) b->n);
                P(v, c, mkc(x, c, "ivarr", iv, (size_t) b->n * 8, 8, R_IN));
                PA(v, c, mkpa(x, c, "srcarr", b->o_in, b->n), b->n);
                PA(v, c, mkpa(x, c, "dstarr", b->o_out, b->n), b->n);
                P(v, c, mku32(x, c, "lenarr", b->len, b->n));
                V(v, (uint64_t) b->n);
                LIM(c, "len-0", 4, k, 0);
                LIM(c, "len-max", 4, k, KAS_MAXB + 1);
        } else {
                for (int i = 0; i < b->n; i++)
                        V(v, iv[i]);
                for (int i = 0; i < b->n; i++) {
                        P(v, c, b->o_in[i]);
                        P(v, c, b->o_out[i]);
                        if (f->p1 <= 2) {
                                V(v, b->len[i]);
                                if (i == 0 || f->p1 == 2)
                                        LIM(c, i ? "len2-0" : "len-0", v->n - 1, -1, 0);
                                if (i == b->n - 1)
                                        LIM(c, "len-max", v->n - 1, -1, KAS_MAXB + 1);
                        }
                }
                if (f->p1 > 2) {
                        V(v, b->len[0]);
                        LIM(c, "len-0", v->n - 1, -1, 0);
                        LIM(c, "len-max", v->n - 1, -1, KAS_MAXB + 1);
                }
        }
        c->lenclass = len_class(b->len[0]);
        note(c, "%d buffers, lengths %u %u.. key %s iv0 %s", b->n, b->len[0], b->n > 1 ? b->len[1] : 0, hexs(key, 16), hexs(&iv[0], 8));
        return 0;
}
static int
b_kas_f8bit(struct actx *x, struct call *c, const struct fdesc *f)
{
        (void) f;
        uint8_t key[16];
        uint64_t iv;
        rng_bytes(&x->r, key, 16);
        rng_bytes(&x->r, &iv, 8);
        int ks = kas_sched(x, c, key, 0);
        if (ks < 0)
                return -1;
        uint32_t bits = pick_bits(x, 20000), off = rng_below(&x->r, 3) ? rng_below(&x->r, 8) : rng_below(&x->r, 40);
        size_t sz = ((size_t) off + bits + 7) / 8;
        int in = mk(x, c, "src", sz, 1, R_IN);
        int out = mk(x, c, "dst", sz, 1, R_OUT);
        P(&c->v, c, ks);
        V(&c->v, iv);
        P(&c->v, c, in);
        P(&c->v, c, out);
        V(&c->v, bits);
        V(&c->v, off);
        if (x->mode == M_VALID) {
                uint8_t *t = palloc(sz + 2), *o = palloc(sz + 2);
                bits_extract(OP(c, in), off, bits, t);
                ref_kasumi_f8(key, (const uint8_t *) &iv, t, o, bits);
                bits_insert(expbuf(c, out), off, bits, o, NULL);
        }
        LIM(c, "bitlen-0", 4, -1, 0);
        LIM(c, "bitlen-max", 4, -1, 20001);
        c->lenclass = len_class((bits + 7) / 8);
        note(c, "bits %u offset %u key %s iv %s", bits, off, hexs(key, 16), hexs(&iv, 8));
        return 0;
}
static int
b_kas_f9(struct actx *x, struct call *c, const struct fdesc *f)
{
        uint8_t key[16];
        rng_bytes(&x->r, key, 16);
        int ks = kas_sched(x, c, key, 1);
        if (ks < 0)
                return -1;
        P(&c->v, c, ks);
        if (f->p1 == 0) {
                uint32_t len = pick_len(x, 1, KAS_MAXB);
                int in = mk(x, c, "src", len, 1, R_IN);
                int tag = mk(x, c, "tag", 4, 4, R_OUT);
                P(&c->v, c, in);
                V(&c->v, len);
                P(&c->v, c, tag);
                if (x->mode == M_VALID)
                        ref_kasumi_f9(key, OP(c, in), len, expbuf(c, tag));
                LIM(c, "len-0", 2, -1, 0);
                LIM(c, "len-max", 2, -1, KAS_MAXB + 1);
                c->lenclass = len_class(len);
                note(c, "len %u key %s", len, hexs(key, 16));
        } else {
                uint64_t iv;
                uint32_t bits = pick_bits(x, 20000), dir = rng_below(&x->r, 2);
                size_t sz = (bits + 7) / 8;
                rng_bytes(&x->r, &iv, 8);
                int in = mk(x, c, "src", sz, 1, R_IN);
                int tag = mk(x, c, "tag", 4, 4, R_OUT);
                V(&c->v, iv);
                P(&c->v, c, in);
                V(&c->v, bits);
                P(&c->v, c, tag);
                V(&c->v, dir);
                if (x->mode == M_VALID) {
                        /* COUNT|FRESH|MESSAGE|DIRECTION|1|0* up to a multiple of 64 bits */
                        size_t tot = ((64 + (size_t) bits + 2 + 63) / 64) * 8;
                        uint8_t *s = palloc(tot + 8), two[1];
                        memcpy(s, &iv, 8);
                        bits_insert(s + 8, 0, bits, OP(c, in), NULL);
                        two[0] = (uint8_t) ((dir << 7) | 0x40);
                        bits_insert(s + 8, bits, 2, two, NULL);
                        ref_kasumi_f9(key, s, tot, expbuf(c, tag));
                }
                LIM(c, "bitlen-0", 3, -1, 0);
                LIM(c, "bitlen-max", 3, -1, 20001);
                c->lenclass = len_class((bits + 7) / 8);
                note(c, "bits %u dir %u key %s iv %s", bits, dir, hexs(key, 16), hexs(&iv, 8));
        }
        return 0;
}
struct kas_pd {
        int f9, o_ks, o_in, o_out, o_tag;
        uint8_t key[16];
        uint64_t iv;
};
static void
post_kas_init(struct actx *x, struct call *c)
{
        struct kas_pd *d = c->pd;
        uint8_t e[24];
        n_ref++;
        if (d->f9) {
                if (sc(x, "f9_1_buffer", MFN(x, f9_1_buffer), NULL, 4, U(OP(c, d->o_ks)), U(OP(c, d->o_in)), (uint64_t) 24,
                       U(OP(c, d->o_tag))))
                        return;
                ref_kasumi_f9(d->key, OP(c, d->o_in), 24, e);
                if (memcmp(e, OP(c, d->o_tag), 4))
                        viol(x, "C09", c->name, "followup-mismatch", "F9 with the prepared schedule gives %s, model %s",
                             hexs(OP(c, d->o_tag), 4), hexs(e, 4));
        } else {
                if (sc(x, "f8_1_buffer", MFN(x, f8_1_buffer), NULL, 5, U(OP(c, d->o_ks)), d->iv, U(OP(c, d->o_in)), U(OP(c, d->o_out)),
                       (uint64_t) 24))
                        return;
                ref_kasumi_f8(d->key, (const uint8_t *) &d->iv, OP(c, d->o_in), e, 24 * 8);
                if (memcmp(e, OP(c, d->o_out), 24))
                        viol(x, "C09", c->name, "followup-mismatch", "F8 with the prepared schedule gives %s, model %s",
                             hexs(OP(c, d->o_out), 24), hexs(e, 24));
        }
}
static int
b_kas_init(struct actx *x, struct call *c, const struct fdesc *f)
{
        struct kas_pd *d = palloc(sizeof *d);
        d->f9 = f->p1 == 9;
        rng_bytes(&x->r, d->key, 16);
        rng_bytes(&x->r, &d->iv, 8);
        int k = mkc(x, c, "key", d->key, 16, 1, R_IN);
        d->o_ks = mk(x, c, "kasumikeys", x->kas_sz, 16, R_OUT);
        P(&c->v, c, k);
        P(&c->v, c, d->o_ks);
        c->o[d->o_ks].nver = 1;
        c->ret_kind = 1;
        c->ret_mask = 0xffffffffu;
        c->ret_err = 1;
        if (x->mode == M_VALID) {
                d->o_in = mk(x, c, "src", 24, 1, R_IN);
                d->o_out = mk(x, c, "dst", 24, 1, R_OUT);
                d->o_tag = mk(x, c, "tag", 4, 4, R_OUT);
                c->pd = d;
                c->post = post_kas_init;
        }
        c->lenclass = 16;
        note(c, "key %s", hexs(d->key, 16));
        return 0;
}
static int
b_size(struct actx *x, struct call *c, const struct fdesc *f)
{
        (void) x;
        c->ret_kind = 1;
        c->ret_mask = ~0ULL;
        c->ret_exp = f->p1 ? sizeof(snow3g_key_schedule_t) : sizeof(kasumi_key_sched_t);
        c->have_ref = 1;
        return 0;
}

/* ================================================================== SNOW3G */
#define SNOW_OVER ((uint64_t) (UINT32_MAX / 8) + 1)
static int
snow_sched(struct actx *x, struct call *c, const uint8_t key[16])
{
        int k = mkc(x, c, "key", key, 16, 4, R_IN);
        int s = mk(x, c, "snow3gkeys", x->snow_sz, 4, R_IN);
        if (sc(x, "snow3g_init_key_sched", MFN(x, snow3g_init_key_sched), NULL, 2, U(OP(c, k)), U(OP(c, s))))
                return -1;
        return s;
}
static int
b_snow_f8(struct actx *x, struct call *c, const struct fdesc *f)
{
        struct mb *b = palloc(sizeof *b);
        const int multikey = f->p1 == 80 || f->p1 == 100;
        const int arrays = multikey || f->p1 == 0;
        b->n = f->p1 == 80 ? 8 : (f->p1 == 0 || f->p1 == 100) ? pick_n(x, x->force_n && x->mode == M_LIMIT ? MAXB : 16) : f->p1;
        pick_lens(x, b->len, b->n, 1, 4200);
        for (int i = 0; i < b->n; i++) {
                if (i == 0 || multikey) {
                        rng_bytes(&x->r, b->key[i], 16);
                        b->o_key[i] = snow_sched(x, c, b->key[i]);
                        if (b->o_key[i] < 0)
                                return -1;
                } else {
                        memcpy(b->key[i], b->key[0], 16);
                        b->o_key[i] = b->o_key[0];
                }
                b->o_iv[i] = mk(x, c, "iv", 16, 4, R_IN);
                b->o_in[i] = mk(x, c, "src", b->len[i], 1, R_IN);
                b->o_out[i] = mk(x, c, "dst", b->len[i], 1, R_OUT);
                if (x->mode == M_VALID && b->n <= 16)
                        ref_snow3g_f8(b->key[i], OP(c, b->o_iv[i]), OP(c, b->o_in[i]), expbuf(c, b->o_out[i]), (uint64_t) b->len[i] * 8);
        }
        struct argv *v = &c->v;
        if (arrays) {
                const int k = (int) rng_below(&x->r, (uint32_t) b->n);
                if (multikey)
                        PA(v, c, mkpa(x, c, "keyarr", b->o_key, b->n), b->n);
                else
                        P(v, c, b->o_key[0]);
                PA(v, c, mkpa(x, c, "ivarr", b->o_iv, b->n), b->n);
                PA(v, c, mkpa(x, c, "srcarr", b->o_in, b->n), b->n);
                PA(v, c, mkpa(x, c, "dstarr", b->o_out, b->n), b->n);
                P(v, c, mku32(x, c, "lenarr", b->len, b->n));
                if (f->p1 != 80)
                        V(v, (uint64_t) b->n);
                LIM(c, "len-0", 4, k, 0);
                LIM(c, "len-max", 4, k, SNOW_OVER);
                if (f->p1 != 80) {
                        LIM(c, "count-17", 5, -1, 17);
                        c->lim[c->nlim - 1].force_n = 17;
                        c->lim[c->nlim - 1].out0_arg = 3;
                }
        } else {
                P(v, c, b->o_key[0]);
                for (int i = 0; i < b->n; i++)
                        P(v, c, b->o_iv[i]);
                for (int i = 0; i < b->n; i++) {
                        P(v, c, b->o_in[i]);
                        P(v, c, b->o_out[i]);
                        V(v, b->len[i]);
                        if (i == 0)
                                LIM(c, "len-0", v->n - 1, -1, 0);
                        if (i == b->n - 1) {
                                if (i)
                                        LIM(c, "lenlast-0", v->n - 1, -1, 0);
                                LIM(c, "len-max", v->n - 1, -1, SNOW_OVER);
                        }
                }
        }
        c->lenclass = len_class(b->len[0]);
        note(c, "%d buffers, lengths %u %u %u.. key0 %s", b->n, b->len[0], b->n > 1 ? b->len[1] : 0, b->n > 2 ? b->len[2] : 0,
             hexs(b->key[0], 16));
        return 0;
}
static int
b_snow_f8bit(struct actx *x, struct call *c, const struct fdesc *f)
{
        (void) f;
        uint8_t key[16];
        rng_bytes(&x->r, key, 16);
        int ks = snow_sched(x, c, key);
        if (ks < 0)
                return -1;
        uint32_t bits = pick_bits(x, 4200 * 8), off = rng_below(&x->r, 3) ? rng_below(&x->r, 8) : rng_below(&x->r, 40);
        size_t sz = ((size_t) off + bits + 7) / 8;
        int iv = mk(x, c, "iv", 16, 4, R_IN);
        int in = mk(x, c, "src", sz, 1, R_IN);
        int out = mk(x, c, "dst", sz, 1, R_OUT);
        P(&c->v, c, ks);
        P(&c->v, c, iv);
        P(&c->v, c, in);
        P(&c->v, c, out);
        V(&c->v, bits);
        V(&c->v, off);
        if (x->mode == M_VALID) {
                uint8_t *t = palloc(sz + 2), *o = palloc(sz + 2);
                bits_extract(OP(c, in), off, bits, t);
                ref_snow3g_f8(key, OP(c, iv), t, o, bits);
                uint8_t *e = expbuf(c, out);
                /* the header does not promise that the other bits of partially covered bytes are kept:
                 * only the message bits and the bytes entirely before the offset are judged */
                c->o[out].mask = palloc(sz);
                memset(c->o[out].mask, 0xff, off / 8);
                bits_insert(e, off, bits, o, c->o[out].mask);
        }
        LIM(c, "bitlen-0", 4, -1, 0);
        c->lenclass = len_class((bits + 7) / 8);
        note(c, "bits %u offset %u key %s", bits, off, hexs(key, 16));
        return 0;
}
static int
b_snow_f9(struct actx *x, struct call *c, const struct fdesc *f)
{
        (void) f;
        uint8_t key[16];
        rng_bytes(&x->r, key, 16);
        int ks = snow_sched(x, c, key);
        if (ks < 0)
                return -1;
        uint32_t bits = pick_bits(x, 4200 * 8);
        int iv = mk(x, c, "iv", 16, 4, R_IN);
        int in = mk(x, c, "src", (bits + 7) / 8, 1, R_IN);
        int tag = mk(x, c, "tag", 4, 4, R_OUT);
        P(&c->v, c, ks);
        P(&c->v, c, iv);
        P(&c->v, c, in);
        V(&c->v, bits);
        P(&c->v, c, tag);
        if (x->mode == M_VALID)
                ref_snow3g_f9(key, OP(c, iv), OP(c, in), bits, expbuf(c, tag));
        LIM(c, "bitlen-0", 3, -1, 0);
        LIM(c, "bitlen-max", 3, -1, (uint64_t) UINT32_MAX + 1);
        c->lenclass = len_class((bits + 7) / 8);
        note(c, "bits %u key %s", bits, hexs(key, 16));
        return 0;
}
static int
b_snow_init(struct actx *x, struct call *c, const struct fdesc *f)
{
        (void) f;
        int k = mk(x, c, "key", 16, 4, R_IN);
        int s = mk(x, c, "snow3gkeys", x->snow_sz, 4, R_OUT);
        P(&c->v, c, k);
        P(&c->v, c, s);
        c->ret_kind = 1;
        c->ret_mask = 0xffffffffu;
        c->ret_err = 1;
        if (x->mode == M_VALID && x->snow_sz == 16) {
                uint32_t *e = (uint32_t *) expbuf(c, s), w[4];
                memcpy(w, OP(c, k), 16);
                for (int i = 0; i < 4; i++)
                        e[3 - i] = __builtin_bswap32(w[i]);
        }
        c->lenclass = 16;
        note(c, "key %s", hexs(OP(c, k), 16));
        return 0;
}

/* ================================================================== QUIC helpers */
static uint8_t zero5[5];
static void
hp_chacha_ref(const uint8_t key[32], const uint8_t sample[16], uint8_t out[5])
{
        uint32_t ctr;
        memcpy(&ctr, sample, 4);
        ref_chacha20(key, ctr, sample + 4, zero5, out, 5);
}
/* header-protection masks: mgr fields (p2 == 0) and exported wrappers (p2 == 1); p1 = AES key size or 0 = ChaCha20 */
static int
b_quic_hp(struct actx *x, struct call *c, const struct fdesc *f)
{
        const int ks = f->p1, n = pick_n(x, MAXB);
        struct ref_aes_key ak;
        uint8_t sched[240];
        int o_src[MAXB], o_dst[MAXB], o_key;
        ak.keylen = ks ? ks : 32;
        rng_bytes(&x->r, ak.key, 32);
        if (ks) {
                ref_aes_expand_enc(ak.key, ks, sched);
                o_key = mkc(x, c, "enckeys", sched, aes_sched_sz(ks), 16, R_IN);
        } else
                o_key = mkc(x, c, "key", ak.key, 32, 1, R_IN);
        for (int i = 0; i < n; i++) {
                o_src[i] = mk(x, c, "src", 16, 1, R_IN);
                o_dst[i] = mk(x, c, "dst", 5, 1, R_OUT);
                if (x->mode == M_VALID) {
                        uint8_t t[16];
                        if (ks)
                                ref_aes_enc(&ak, OP(c, o_src[i]), t);
                        else
                                hp_chacha_ref(ak.key, OP(c, o_src[i]), t);
                        memcpy(expbuf(c, o_dst[i]), t, 5);
                }
        }
        int a_src = mkpa(x, c, "srcarr", o_src, n), a_dst = mkpa(x, c, "dstarr", o_dst, n);
        struct argv *v = &c->v;
        if (f->p2) {
                PX(v, x->m);
                P(v, c, o_key);
                PA(v, c, a_dst, n);
                PA(v, c, a_src, n);
                V(v, (uint64_t) n);
                if (ks) {
                        V(v, (uint64_t) ks);
                        LIM(c, "keysize-24", 5, -1, 24);
                }
        } else if (ks) {
                PA(v, c, a_src, n);
                P(v, c, o_key);
                PA(v, c, a_dst, n);
                V(v, (uint64_t) n);
        } else {
                P(v, c, o_key);
                PA(v, c, a_src, n);
                PA(v, c, a_dst, n);
                V(v, (uint64_t) n);
        }
        c->lenclass = (uint32_t) n;
        note(c, "%d packets key %s", n, hexs(ak.key, (size_t) ak.keylen));
        return 0;
}
/* imb_quic_aes_gcm (p1 = key size) and imb_quic_chacha20_poly1305 (p1 = 0) */
static int
b_quic_aead(struct actx *x, struct call *c, const struct fdesc *f)
{
        const int ks = f->p1, n = pick_n(x, MAXB), dec = (int) rng_below(&x->r, 2);
        struct ref_aes_key ak;
        uint32_t len32[MAXB], aadl = pick_aadl(x), tagl = ks ? pick_tagl(x) : 16;
        uint64_t len64[MAXB];
        int o_src[MAXB], o_dst[MAXB], o_iv[MAXB], o_aad[MAXB], o_tag[MAXB], o_key;
        if (ks) {
                o_key = gcm_keydata(x, c, &ak, ks);
                if (o_key < 0)
                        return -1;
        } else {
                ak.keylen = 32;
                rng_bytes(&x->r, ak.key, 32);
                o_key = mkc(x, c, "key", ak.key, 32, 1, R_IN);
        }
        pick_lens(x, len32, n, 0, n > 4 ? 1500 : 4200);
        for (int i = 0; i < n; i++) {
                len64[i] = len32[i];
                o_dst[i] = mk(x, c, "dst", len32[i], 1, R_OUT);
                o_src[i] = mk(x, c, "src", len32[i], 1, R_IN);
                o_iv[i] = mk(x, c, "iv", 12, 1, R_IN);
                o_aad[i] = mk(x, c, "aad", aadl, 1, R_IN);
                o_tag[i] = mk(x, c, "tag", tagl, 1, R_OUT);
                if (x->mode != M_VALID)
                        continue;
                if (ks)
                        ref_gcm(ref_aes_enc, &ak, dec, OP(c, o_iv[i]), 12, OP(c, o_aad[i]), aadl, OP(c, o_src[i]), expbuf(c, o_dst[i]),
                                len32[i], expbuf(c, o_tag[i]), tagl);
                else
                        ref_chacha20_poly1305(dec, ak.key, OP(c, o_iv[i]), OP(c, o_aad[i]), aadl, OP(c, o_src[i]), expbuf(c, o_dst[i]),
                                              len32[i], expbuf(c, o_tag[i]));
        }
        struct argv *v = &c->v;
        PX(v, x->m);
        P(v, c, o_key);
        if (ks) {
                V(v, (uint64_t) ks);
                LIM(c, "keysize-24", 2, -1, 24);
        }
        V(v, dec ? IMB_DIR_DECRYPT : IMB_DIR_ENCRYPT);
        PA(v, c, mkpa(x, c, "dstarr", o_dst, n), n);
        PA(v, c, mkpa(x, c, "srcarr", o_src, n), n);
        P(v, c, mkc(x, c, "lenarr", len64, (size_t) n * 8, 8, R_IN));
        PA(v, c, mkpa(x, c, "ivarr", o_iv, n), n);
        PA(v, c, mkpa(x, c, "aadarr", o_aad, n), n);
        V(v, aadl);
        PA(v, c, mkpa(x, c, "tagarr", o_tag, n), n);
        if (ks) {
                V(v, tagl);
                LIM(c, "taglen-0", v->n - 1, -1, 0);
                LIM(c, "taglen-17", v->n - 1, -1, 17);
        }
        V(v, (uint64_t) n);
        c->lenclass = len_class(len32[0]);
        note(c, "%d packets %s lengths %u %u.. aad %u tag %u key %s", n, dec ? "decrypt" : "encrypt", len32[0], n > 1 ? len32[1] : 0,
             aadl, tagl, hexs(ak.key, (size_t) ak.keylen));
        return 0;
}

/* ================================================================== imb_hmac_ipad_opad */
static size_t
hmac_ref(IMB_HASH_ALG h, const uint8_t *key, size_t klen, uint8_t *ipad, uint8_t *opad)
{
        uint8_t k0[128] = { 0 }, blk[128];
        const size_t bs = (h == IMB_AUTH_HMAC_SHA_384 || h == IMB_AUTH_HMAC_SHA_512) ? 128 : 64;
        size_t ss = 0;
        if (klen > bs) {
                switch (h) {
                case IMB_AUTH_HMAC_SHA_1: SHA1(key, klen, k0); break;
                case IMB_AUTH_HMAC_SHA_224: SHA224(key, klen, k0); break;
                case IMB_AUTH_HMAC_SHA_256: SHA256(key, klen, k0); break;
                case IMB_AUTH_HMAC_SHA_384: SHA384(key, klen, k0); break;
                case IMB_AUTH_HMAC_SHA_512: SHA512(key, klen, k0); break;
                default: ref_sm3(key, klen, k0);
                }
        } else
                memcpy(k0, key, klen);
        for (int pass = 0; pass < 2; pass++) {
                uint8_t *out = pass ? opad : ipad;
                for (size_t i = 0; i < bs; i++)
                        blk[i] = k0[i] ^ (pass ? 0x5c : 0x36);
                switch (h) {
                case IMB_AUTH_HMAC_SHA_1: ss = ref_one_block(H_SHA1, blk, out); break;
                case IMB_AUTH_HMAC_SHA_224: ss = ref_one_block(H_SHA224, blk, out); break;
                case IMB_AUTH_HMAC_SHA_256: ss = ref_one_block(H_SHA256, blk, out); break;
                case IMB_AUTH_HMAC_SHA_384: ss = ref_one_block(H_SHA384, blk, out); break;
                case IMB_AUTH_HMAC_SHA_512: ss = ref_one_block(H_SHA512, blk, out); break;
                case IMB_AUTH_MD5: ss = ref_one_block(H_MD5, blk, out); break;
                default: {
                        uint32_t st[8];
                        ref_sm3_init(st);
                        ref_sm3_compress(st, blk);
                        memcpy(out, st, 32);
                        ss = 32;
                }
                }
        }
        return ss;
}
static int
b_hmac(struct actx *x, struct call *c, const struct fdesc *f)
{
        (void) f;
        static const IMB_HASH_ALG hs[] = { IMB_AUTH_HMAC_SHA_1,   IMB_AUTH_HMAC_SHA_224, IMB_AUTH_HMAC_SHA_256, IMB_AUTH_HMAC_SHA_384,
                                           IMB_AUTH_HMAC_SHA_512, IMB_AUTH_MD5,          IMB_AUTH_HMAC_SM3 };
        const IMB_HASH_ALG h = hs[(unsigned long) x->round % ARRAY_SZ(hs)];
        const size_t bs = (h == IMB_AUTH_HMAC_SHA_384 || h == IMB_AUTH_HMAC_SHA_512) ? 128 : 64;
        uint8_t ip[64], op[64];
        uint32_t klen = rng_below(&x->r, 2) ? (uint32_t) bs - 1 + rng_below(&x->r, 3) : 1 + rng_below(&x->r, 3 * (uint32_t) bs);
        if (h == IMB_AUTH_MD5 && klen > 64)
                klen = 64;
        int k = mk(x, c, "key", klen, 1, R_IN);
        const size_t ss = hmac_ref(h, OP(c, k), klen, ip, op);
        int oi = mk(x, c, "ipad", ss, 8, R_OUT), oo = mk(x, c, "opad", ss, 8, R_OUT);
        PX(&c->v, x->m);
        V(&c->v, (uint64_t) h);
        P(&c->v, c, k);
        V(&c->v, klen);
        P(&c->v, c, oi);
        P(&c->v, c, oo);
        c->v.a[4].null_ok = c->v.a[5].null_ok = 1; /* implemented as "skip this output" */
        if (x->mode == M_VALID) {
                memcpy(expbuf(c, oi), ip, ss);
                memcpy(expbuf(c, oo), op, ss);
        }
        c->lenclass = len_class(klen);
        note(c, "hash %s key length %u", hash_name((int) h), klen);
        return 0;
}

/* ================================================================== informational exports */
static uint64_t g_extra_hash;
static void
post_info(struct actx *x, struct call *c)
{
        const char *s = (const char *) c->pd; /* returned pointer stored by the runner */
        if (!s) {
                viol(x, "C09", c->name, "output-mismatch", "returned a NULL string");
                return;
        }
        g_extra_hash = fnv64(0xcbf29ce484222325ULL, s, strnlen(s, 256));
        if (!strcmp(c->name, "imb_get_version_str") && strcmp(s, IMB_VERSION_STR))
                viol(x, "C09", c->name, "output-mismatch", "version string \"%.40s\" differs from IMB_VERSION_STR \"%s\"", s, IMB_VERSION_STR);
}
static int
b_info(struct actx *x, struct call *c, const struct fdesc *f)
{
        static const int errs[] = { 0, IMB_ERR_MIN, IMB_ERR_NULL_MBMGR, IMB_ERR_NULL_SRC, IMB_ERR_AUTH_TAG_LEN, IMB_ERR_MAX - 1,
                                    IMB_ERR_MAX, IMB_ERR_MAX + 1, -1, 1, 0x7fffffff };
        switch (f->p1) {
        case 0:
                V(&c->v, (uint64_t) (int64_t) errs[(unsigned long) x->round % ARRAY_SZ(errs)]);
                note(c, "errnum %d", errs[(unsigned long) x->round % ARRAY_SZ(errs)]);
                c->post = post_info;
                c->ret_kind = 3; /* string pointer */
                break;
        case 1:
                c->ret_kind = 1;
                c->ret_mask = 0xffffffffu;
                c->ret_exp = IMB_VERSION_NUM;
                c->have_ref = 1;
                break;
        case 2:
                c->post = post_info;
                c->ret_kind = 3;
                c->have_ref = 1;
                break;
        case 3:
                c->ret_kind = 2;
                c->ret_mask = ~0ULL;
                break;
        default:
                c->ret_kind = 2;
                c->ret_mask = ~0ULL;
        }
        return 0;
}

/* ================================================================== function table */
#define MF(field, b, p1, p2) { #field, offsetof(IMB_MGR, field), NULL, b, p1, p2 }
#define XF(sym, b, p1, p2) { #sym, 0, (void *) sym, b, p1, p2 }
#define GCM3(suffix, b, code)                                                                                                  \
        MF(gcm128_##suffix, b, 16, code), MF(gcm192_##suffix, b, 24, code), MF(gcm256_##suffix, b, 32, code)
#define GMAC3(suffix, code)                                                                                                    \
        MF(gmac128_##suffix, b_seq, 16, code), MF(gmac192_##suffix, b_seq, 24, code), MF(gmac256_##suffix, b_seq, 32, code)
static const struct fdesc g_fn[] = {
        MF(keyexp_128, b_keyexp, 16, 0),
        MF(keyexp_192, b_keyexp, 24, 0),
        MF(keyexp_256, b_keyexp, 32, 0),
        MF(cmac_subkey_gen_128, b_cmac, 16, 0),
        MF(cmac_subkey_gen_256, b_cmac, 32, 0),
        MF(xcbc_keyexp, b_xcbc, 0, 0),
        MF(des_key_sched, b_des, 0, 0),
        MF(sm4_keyexp, b_sm4, 0, 0),
        MF(sha1_one_block, b_hash1, H_SHA1, 0),
        MF(sha224_one_block, b_hash1, H_SHA224, 0),
        MF(sha256_one_block, b_hash1, H_SHA256, 0),
        MF(sha384_one_block, b_hash1, H_SHA384, 0),
        MF(sha512_one_block, b_hash1, H_SHA512, 0),
        MF(md5_one_block, b_hash1, H_MD5, 0),
        MF(sha1, b_sha, H_SHA1, 0),
        MF(sha224, b_sha, H_SHA224, 0),
        MF(sha256, b_sha, H_SHA256, 0),
        MF(sha384, b_sha, H_SHA384, 0),
        MF(sha512, b_sha, H_SHA512, 0),
        MF(aes128_cfb_one, b_cfb, 16, 0),
        MF(aes256_cfb_one, b_cfb, 32, 0),
        GCM3(enc, b_gcm, 0),
        GCM3(dec, b_gcm, 1),
        GCM3(init, b_seq, G_INIT),
        GCM3(init_var_iv, b_seq, G_INITIV),
        GCM3(enc_update, b_seq, G_ENCUPD),
        GCM3(dec_update, b_seq, G_DECUPD),
        GCM3(enc_finalize, b_seq, G_ENCFIN),
        GCM3(dec_finalize, b_seq, G_DECFIN),
        GCM3(precomp, b_gcmpre, G_PRECOMP),
        GCM3(pre, b_gcmpre, G_PRE),
        MF(ghash_pre, b_ghashpre, 0, 0),
        MF(ghash, b_ghash, 0, 0),
        GMAC3(init, GM_INIT),
        GMAC3(update, GM_UPD),
        GMAC3(finalize, GM_FIN),
        MF(eea3_1_buffer, b_zuc_eea3, 1, 0),
        MF(eea3_4_buffer, b_zuc_eea3, 4, 0),
        MF(eea3_n_buffer, b_zuc_eea3, 0, 0),
        MF(eia3_1_buffer, b_zuc_eia3, 1, 0),
        MF(eia3_n_buffer, b_zuc_eia3, 0, 0),
        MF(f8_1_buffer, b_kas_f8, 1, 0),
        MF(f8_1_buffer_bit, b_kas_f8bit, 0, 0),
        MF(f8_2_buffer, b_kas_f8, 2, 0),
        MF(f8_3_buffer, b_kas_f8, 3, 0),
        MF(f8_4_buffer, b_kas_f8, 4, 0),
        MF(f8_n_buffer, b_kas_f8, 0, 0),
        MF(f9_1_buffer, b_kas_f9, 0, 0),
        MF(f9_1_buffer_user, b_kas_f9, 1, 0),
        MF(kasumi_init_f8_key_sched, b_kas_init, 8, 0),
        MF(kasumi_init_f9_key_sched, b_kas_init, 9, 0),
        MF(kasumi_key_sched_size, b_size, 0, 0),
        MF(snow3g_f8_1_buffer_bit, b_snow_f8bit, 0, 0),
        MF(snow3g_f8_1_buffer, b_snow_f8, 1, 0),
        MF(snow3g_f8_2_buffer, b_snow_f8, 2, 0),
        MF(snow3g_f8_4_buffer, b_snow_f8, 4, 0),
        MF(snow3g_f8_8_buffer, b_snow_f8, 8, 0),
        MF(snow3g_f8_n_buffer, b_snow_f8, 0, 0),
        MF(snow3g_f8_8_buffer_multikey, b_snow_f8, 80, 0),
        MF(snow3g_f8_n_buffer_multikey, b_snow_f8, 100, 0),
        MF(snow3g_f9_1_buffer, b_snow_f9, 0, 0),
        MF(snow3g_init_key_sched, b_snow_init, 0, 0),
        MF(snow3g_key_sched_size, b_size, 1, 0),
        MF(hec_32, b_hec, 32, 0),
        MF(hec_64, b_hec, 64, 0),
        MF(crc32_ethernet_fcs, b_crc, 0, 0),
        MF(crc16_x25, b_crc, 1, 0),
        MF(crc32_sctp, b_crc, 2, 0),
        MF(crc24_lte_a, b_crc, 3, 0),
        MF(crc24_lte_b, b_crc, 4, 0),
        MF(crc16_fp_data, b_crc, 5, 0),
        MF(crc11_fp_header, b_crc, 6, 0),
        MF(crc7_fp_header, b_crc, 7, 0),
        MF(crc10_iuup_data, b_crc, 8, 0),
        MF(crc6_iuup_header, b_crc, 9, 0),
        MF(crc32_wimax_ofdma_data, b_crc, 10, 0),
        MF(crc8_wimax_ofdma_hcs, b_crc, 11, 0),
        MF(chacha20_poly1305_init, b_seq, 0, C_INIT),
        MF(chacha20_poly1305_enc_update, b_seq, 0, C_ENCUPD),
        MF(chacha20_poly1305_dec_update, b_seq, 0, C_DECUPD),
        MF(chacha20_poly1305_finalize, b_seq, 0, C_FIN),
        MF(aes_ecb_128_quic, b_quic_hp, 16, 0),
        MF(aes_ecb_256_quic, b_quic_hp, 32, 0),
        MF(chacha20_hp_quic, b_quic_hp, 0, 0),
        XF(imb_quic_aes_gcm, b_quic_aead, 16, 0),
        { "imb_quic_aes_gcm", 0, (void *) imb_quic_aes_gcm, b_quic_aead, 32, 1 },
        XF(imb_quic_chacha20_poly1305, b_quic_aead, 0, 0),
        XF(imb_quic_hp_aes_ecb, b_quic_hp, 16, 1),
        { "imb_quic_hp_aes_ecb", 0, (void *) imb_quic_hp_aes_ecb, b_quic_hp, 32, 1 },
        XF(imb_quic_hp_chacha20, b_quic_hp, 0, 1),
        XF(imb_hmac_ipad_opad, b_hmac, 0, 0),
        XF(imb_get_strerror, b_info, 0, 0),
        XF(imb_get_version, b_info, 1, 0),
        XF(imb_get_version_str, b_info, 2, 0),
        XF(imb_get_mb_mgr_size, b_info, 3, 0),
        XF(imb_get_feature_flags, b_info, 4, 0),
};
#define NFN ((int) ARRAY_SZ(g_fn))

/* ================================================================== runner */
static int
build_call(struct actx *x, struct call *c, const struct fdesc *f)
{
        for (int s = 0; s < NSLOT; s++)
                guard_reset_slot(s);
        x->nalloc = 0;
        pool_used = 0;
        x->faulted = 0;
        rng_seed(&x->r, g_opt.seed * 0x9E3779B97F4A7C15ULL + (uint64_t) x->round * 1000003ULL + (uint64_t) x->fi * 7919ULL);
        x->lenidx = (unsigned) (x->round * 3 + x->fi);
        x->pl = (x->round & 1) ? PL_START : PL_END;
        memset(c, 0, sizeof *c);
        c->name = f->name;
        x->cur = c;
        int rc = f->build(x, c, f);
        if (rc || x->faulted)
                return -1;
        c->fn = fnptr(x, f);
        return 0;
}
static void
snapshot(struct call *c)
{
        for (int i = 0; i < c->nobj; i++) {
                struct obj *o = &c->o[i];
                o->snap = palloc(o->n);
                memcpy(o->snap, o->p, o->n);
        }
}
static void
guards(struct actx *x, struct call *c)
{
        char what[120];
        snprintf(what, sizeof what, "%s|direct|%s", x->vn, c->name);
        for (int s = 0; s < NSLOT; s++)
                guard_check_slot(s, what);
}
static int
exec_target(struct actx *x, struct call *c, uint64_t *ret)
{
        uint64_t a[MAXA] = { 0 };
        for (int i = 0; i < c->v.n; i++)
                a[i] = c->v.a[i].v;
        errno_reset(x);
        if (x->faulted)
                return 1;
        return pcall(x, c->name, c->fn, c->v.n, a, ret, 1);
}
static size_t
first_diff(const uint8_t *a, const uint8_t *b, const uint8_t *mask, size_t n)
{
        for (size_t i = 0; i < n; i++)
                if ((a[i] ^ b[i]) & (mask ? mask[i] : 0xff))
                        return i;
        return n;
}
/* all objects must still equal their snapshot; returns number of touched objects */
static int
untouched(struct actx *x, struct call *c, const char *pert, int skip_obj)
{
        int bad = 0;
        char what[96];
        for (int i = 0; i < c->nobj; i++) {
                struct obj *o = &c->o[i];
                if (i == skip_obj)
                        continue;
                size_t d = first_diff(o->p, o->snap, NULL, o->n);
                if (d == o->n)
                        continue;
                snprintf(what, sizeof what, "%s-output-touched", pert);
                viol(x, "C12", c->name, what, "%s object (%s, %zu bytes) modified at offset %zu by a call that had to be rejected: %s -> %s",
                     o->kind, o->role == R_IN ? "input" : "output", o->n, d, hexs(o->snap + d, o->n - d > 16 ? 16 : o->n - d),
                     hexs(o->p + d, o->n - d > 16 ? 16 : o->n - d));
                bad++;
        }
        return bad;
}

static void
run_valid(struct actx *x, const struct fdesc *f, struct call *c)
{
        uint64_t ret = 0, h = 0xcbf29ce484222325ULL;
        int have_nver = 0;
        x->mode = M_VALID;
        x->null_arg = x->null_elem = -1;
        x->curlim = NULL;
        x->force_n = 0;
        if (build_call(x, c, f)) {
                c->v.n = 0;
                c->nlim = 0;
                return;
        }
        snapshot(c);
        n_valid++;
        cov_hit("abi_fn", "%s|%s|valid", x->vn, f->name);
        cov_hit("abi_len", "%s|%s|%u", x->vn, f->name, c->lenclass);
        if (exec_target(x, c, &ret))
                return;
        const int err = errno_get(x);
        guards(x, c);
        if (g_mutate) { /* sensitivity self-check: every reference-checked output must then be reported */
                for (int i = 0; i < c->nobj; i++)
                        if (c->o[i].exp && c->o[i].n)
                                c->o[i].p[c->o[i].n - 1] ^= 0x10;
                ret ^= 1;
        }
        for (int i = 0; i < c->nobj; i++) {
                struct obj *o = &c->o[i];
                if (o->role == R_IN) {
                        size_t d = first_diff(o->p, o->snap, NULL, o->n);
                        if (d != o->n)
                                viol(x, "C07", f->name, "input-modified", "input object %s (%zu bytes) modified at offset %zu: %s -> %s", o->kind,
                                     o->n, d, hexs(o->snap + d, o->n - d > 16 ? 16 : o->n - d), hexs(o->p + d, o->n - d > 16 ? 16 : o->n - d));
                        continue;
                }
                if (o->exp) {
                        size_t d = first_diff(o->p, o->exp, o->mask, o->n);
                        if (d != o->n)
                                viol(x, "C09", f->name, "output-mismatch",
                                     "%s object (%zu bytes) differs from the reference at offset %zu: got %s expected %s (untouched value %s), errno %d",
                                     o->kind, o->n, d, hexs(o->p + d, o->n - d > 16 ? 16 : o->n - d),
                                     hexs(o->exp + d, o->n - d > 16 ? 16 : o->n - d), hexs(o->snap + d, o->n - d > 16 ? 16 : o->n - d), err);
                } else if (o->nver) {
                        h = fnv64(h, o->p, o->n);
                        have_nver = 1;
                }
        }
        if (c->ret_kind == 1) {
                if ((ret ^ c->ret_exp) & c->ret_mask)
                        viol(x, "C09", f->name, "return-mismatch", "returned %#llx, expected %#llx (errno %d)",
                             (unsigned long long) (ret & c->ret_mask), (unsigned long long) (c->ret_exp & c->ret_mask), err);
        } else if (c->ret_kind == 2) {
                uint64_t r = ret & c->ret_mask;
                h = fnv64(h, &r, 8);
                have_nver = 1;
        } else if (c->ret_kind == 3)
                c->pd = (void *) (uintptr_t) ret;
        g_extra_hash = 0;
        if (c->post) {
                c->post(x, c);
                if (x->faulted)
                        return;
                guards(x, c);
        }
        if (g_extra_hash) {
                h = fnv64(h, &g_extra_hash, 8);
                have_nver = 1;
        }
        if (c->have_ref)
                n_ref++;
        if (have_nver && x->round < nver_rounds) {
                uint64_t *slot = &nver_tab[(size_t) x->fi * (size_t) nver_rounds + (size_t) x->round];
                h |= 1;
                n_nver++;
                if (*slot == 0)
                        *slot = h;
                else if (*slot != h)
                        viol(x, "C09", f->name, "nversion-mismatch",
                             "result (hash %#llx, return value %#llx) differs from the result of the first variant (hash %#llx) for the same input",
                             (unsigned long long) h, (unsigned long long) ret, (unsigned long long) *slot);
        }
}

static void
run_null(struct actx *x, const struct fdesc *f, struct call *c, int argi, int elem, int force_n)
{
        uint64_t ret = 1;
        char what[96];
        x->mode = M_NULL;
        x->null_arg = argi;
        x->null_elem = elem;
        x->curlim = NULL;
        x->force_n = force_n;
        if (build_call(x, c, f))
                return;
        if (argi >= c->v.n || c->v.a[argi].obj == -1)
                harness_fail("abi: %s argument %d is not a pointer on rebuild", f->name, argi);
        if (elem < 0)
                c->v.a[argi].v = 0;
        else {
                if (elem >= c->v.a[argi].nelem)
                        elem = c->v.a[argi].nelem - 1;
                ((uint64_t *) OP(c, c->v.a[argi].obj))[elem] = 0;
        }
        const char *pert = pert_name(x);
        snapshot(c);
        n_null++;
        cov_hit("abi_fn", "%s|%s|null", x->vn, f->name);
        if (exec_target(x, c, &ret))
                return;
        const int err = errno_get(x);
        guards(x, c);
        untouched(x, c, pert, -1);
        if (err == 0) {
                snprintf(what, sizeof what, "%s-no-errno", pert);
                viol(x, "C12", f->name, what, "argument %d%s NULL: the call returned without setting an error code", argi,
                     elem >= 0 ? " (one array element)" : "");
        }
        if (c->ret_err && (int) ret == 0) {
                snprintf(what, sizeof what, "%s-return-ok", pert);
                viol(x, "C12", f->name, what, "argument %d NULL: the function returned 0 (success), errno %d", argi, err);
        }
        const char *kind = c->v.a[argi].obj >= 0 ? c->o[c->v.a[argi].obj].kind : "?";
        if (err != 0) {
                const int ok = null_code_ok(kind, err);
                if (ok >= 0)
                        n_code_judged++;
                if (ok == 0) {
                        snprintf(what, sizeof what, "%s-wrong-code", pert);
                        viol(x, "C12", f->name, what, "NULL %s argument (%d%s): error code %d (%s) does not name that argument", kind, argi,
                             elem >= 0 ? ", one array element" : "", err, imb_get_strerror(err));
                }
        }
        code_agreement(x, f, pert, err);
        cov_hit("abi_null_code", "%s|arg%d%s|%d", f->name, argi, elem >= 0 ? "elem" : "", err);
        if (g_opt.verbose)
                ev_printf("{\"ev\":\"abi_code\",\"v\":\"%s\",\"fn\":\"%s\",\"pert\":\"%s\",\"errno\":%d,\"kind\":\"%s\",\"role\":%d}", x->vn,
                          f->name, pert, err, kind, c->v.a[argi].obj >= 0 ? (int) c->o[c->v.a[argi].obj].role : -1);
}

static void
run_limit(struct actx *x, const struct fdesc *f, struct call *c, int li, const struct lim *recorded)
{
        uint64_t ret = 1;
        char what[96];
        struct lim l = *recorded;
        int signalled = 0, skip = -1;
        x->mode = M_LIMIT;
        x->null_arg = x->null_elem = -1;
        x->curlim = &l;
        x->force_n = l.force_n;
        if (build_call(x, c, f))
                return;
        if (li >= c->nlim || strcmp(c->lim[li].name, l.name))
                harness_fail("abi: %s limit table differs on rebuild", f->name);
        l = c->lim[li];
        x->curlim = &l;
        if (l.elem < 0)
                c->v.a[l.arg].v = l.val;
        else {
                struct obj *o = &c->o[c->v.a[l.arg].obj];
                if ((size_t) l.elem * 4 + 4 > o->n)
                        harness_fail("abi: %s limit element out of range", f->name);
                ((uint32_t *) o->p)[l.elem] = (uint32_t) l.val;
        }
        const char *pert = pert_name(x);
        snapshot(c);
        n_limit++;
        cov_hit("abi_fn", "%s|%s|limit", x->vn, f->name);
        if (exec_target(x, c, &ret))
                return;
        const int err = errno_get(x);
        guards(x, c);
        if (l.out0_arg > 0) {
                /* documented failure signal of the SNOW3G n-buffer functions: out[0] = NULL */
                skip = c->v.a[l.out0_arg].obj;
                struct obj *o = &c->o[skip];
                if (((uint64_t *) o->p)[0] == 0)
                        signalled = 1;
                if (first_diff(o->p + 8, o->snap + 8, NULL, o->n - 8) != o->n - 8 || (!signalled && memcmp(o->p, o->snap, 8))) {
                        snprintf(what, sizeof what, "%s-output-touched", pert);
                        viol(x, "C12", f->name, what, "pointer array modified beyond the documented out[0] = NULL signal");
                }
        }
        untouched(x, c, pert, skip);
        if (err == 0 && !signalled) {
                snprintf(what, sizeof what, "%s-no-errno", pert);
                viol(x, "C12", f->name, what, "limit violated (%s: argument %d%s = %#llx) but no error code was set", l.name, l.arg,
                     l.elem >= 0 ? " element" : "", (unsigned long long) l.val);
        }
        if (err != 0) {
                const int ok = limit_code_ok(l.name, err);
                if (ok >= 0)
                        n_code_judged++;
                if (ok == 0) {
                        snprintf(what, sizeof what, "%s-wrong-code", pert);
                        viol(x, "C12", f->name, what, "limit violated (%s = %#llx): error code %d (%s) does not name that constraint", l.name,
                             (unsigned long long) l.val, err, imb_get_strerror(err));
                }
        }
        code_agreement(x, f, pert, signalled && err == 0 ? -1 : err);
        cov_hit("abi_limit_code", "%s|%s|%d", f->name, l.name, signalled && err == 0 ? -1 : err);
        if (g_opt.verbose)
                ev_printf("{\"ev\":\"abi_code\",\"v\":\"%s\",\"fn\":\"%s\",\"pert\":\"%s\",\"errno\":%d,\"signalled\":%d}", x->vn, f->name, pert,
                          err, signalled);
}

/* Exported functions that are not reached through a manager field: the per-architecture legacy entry points
 * (submit_job_sse() ... dispatch to the type the manager was initialised with) and a few utility exports. A short
 * verified history is driven through them (C18 via the trampoline, C09 via the reference comparison). */
static uint64_t n_legacy_jobs;
static void
legacy_done(struct mmgr *mm, IMB_JOB *job, void *arg)
{
        (void) arg;
        item_check(job->user_data, job, "C09", mm, "legacy arch entry points");
        n_legacy_jobs++;
}
static void
legacy_sweep(void)
{
        static const struct {
                int arch;
                void *get_next, *submit, *submit_nc, *flush, *get_completed, *qsize;
                const char *sfx;
        } L[] = {
                { 0, (void *) get_next_job_sse, (void *) submit_job_sse, (void *) submit_job_nocheck_sse, (void *) flush_job_sse,
                  (void *) get_completed_job_sse, (void *) queue_size_sse, "sse" },
                { 1, (void *) get_next_job_avx2, (void *) submit_job_avx2, (void *) submit_job_nocheck_avx2, (void *) flush_job_avx2,
                  (void *) get_completed_job_avx2, (void *) queue_size_avx2, "avx2" },
                { 2, (void *) get_next_job_avx512, (void *) submit_job_avx512, (void *) submit_job_nocheck_avx512, (void *) flush_job_avx512,
                  (void *) get_completed_job_avx512, (void *) queue_size_avx512, "avx512" },
        };
        static struct item *it[24];
        char nm[6][40];
        for (int c = 0; c < NCFG; c++) {
                if (g_cfgs[c].arch > 2 || g_cfg_variant[c] < 0 || (c % g_opt.nshards) != g_opt.shard % NCFG)
                        continue;
                struct mmgr *mm = mm_new(c);
                if (!mm)
                        continue;
                const int a = g_cfgs[c].arch;
                struct rng r;
                rng_seed(&r, g_opt.seed * 31 + (uint64_t) c);
                snprintf(nm[0], 40, "get_next_job_%s", L[a].sfx);
                snprintf(nm[1], 40, "submit_job_%s", L[a].sfx);
                snprintf(nm[2], 40, "submit_job_nocheck_%s", L[a].sfx);
                snprintf(nm[3], 40, "flush_job_%s", L[a].sfx);
                snprintf(nm[4], 40, "get_completed_job_%s", L[a].sfx);
                snprintf(nm[5], 40, "queue_size_%s", L[a].sfx);
                g_job_done = legacy_done;
                uint64_t before = n_legacy_jobs;
                int n = 24;
                for (int i = 0; i < n; i++) {
                        struct genopt g;
                        const struct suite *cs, *hs;
                        int dir;
                        genopt_default(&g);
                        g.slot = i % 8;
                        g.pl = PL_PLAIN;
                        item_pick_ooo(&r, &cs, &hs, &dir);
                        g.dir = dir;
                        if (!it[i])
                                it[i] = item_new();
                        /* slots are recycled: only 8 jobs in flight at a time */
                        if (i >= 8) {
                                IMB_JOB *fj;
                                while ((fj = (IMB_JOB *) mcall(nm[3], L[a].flush, 1, (uint64_t) mm->m)) != NULL)
                                        legacy_done(mm, fj, NULL);
                        }
                        item_gen(it[i], cs, hs, &r, &g, mm);
                        item_expect(it[i]);
                        IMB_JOB *j = (IMB_JOB *) mcall(nm[0], L[a].get_next, 1, (uint64_t) mm->m);
                        item_fill_job(it[i], j);
                        IMB_JOB *rj = (IMB_JOB *) mcall(nm[(i & 1) ? 2 : 1], (i & 1) ? L[a].submit_nc : L[a].submit, 1, (uint64_t) mm->m);
                        while (rj) {
                                legacy_done(mm, rj, NULL);
                                rj = (IMB_JOB *) mcall(nm[4], L[a].get_completed, 1, (uint64_t) mm->m);
                        }
                        mcall(nm[5], L[a].qsize, 1, (uint64_t) mm->m);
                }
                IMB_JOB *fj;
                while ((fj = (IMB_JOB *) mcall(nm[3], L[a].flush, 1, (uint64_t) mm->m)) != NULL)
                        legacy_done(mm, fj, NULL);
                if (n_legacy_jobs - before != (uint64_t) n) {
                        char key[160];
                        snprintf(key, sizeof key, "C05|%s|legacy-api|lost-or-duplicate", variant_name(mm->variant));
                        ev_violation("C05", key, "legacy per-architecture entry points did not hand back every job exactly once", NULL);
                }
                g_job_done = NULL;
                /* utility exports */
                const char *s1 = NULL, *s2 = NULL;
                unsigned bs = 0;
                imb_self_test_cb_t cb = NULL;
                void *cba = NULL;
                uint8_t tmp[100];
                memset(tmp, 0x5a, sizeof tmp);
                mcall("imb_get_arch_type_string", (void *) imb_get_arch_type_string, 3, (uint64_t) mm->m, (uint64_t) &s1, (uint64_t) &s2);
                mcall("imb_hash_burst_get_size", (void *) imb_hash_burst_get_size, 3, (uint64_t) mm->m, (uint64_t) IMB_AUTH_HMAC_SHA_1, (uint64_t) &bs);
                mcall("imb_cipher_burst_get_size", (void *) imb_cipher_burst_get_size, 3, (uint64_t) mm->m, (uint64_t) IMB_CIPHER_CBC, (uint64_t) &bs);
                mcall("imb_aead_burst_get_size", (void *) imb_aead_burst_get_size, 3, (uint64_t) mm->m, (uint64_t) IMB_CIPHER_CCM, (uint64_t) &bs);
                mcall("imb_self_test_get_cb", (void *) imb_self_test_get_cb, 3, (uint64_t) mm->m, (uint64_t) &cb, (uint64_t) &cba);
                mcall("imb_self_test_set_cb", (void *) imb_self_test_set_cb, 3, (uint64_t) mm->m, (uint64_t) cb, (uint64_t) cba);
                mcall("imb_clear_mem", (void *) imb_clear_mem, 2, (uint64_t) (tmp + 3), (uint64_t) 77);
                for (int i = 0; i < 100; i++)
                        if (tmp[i] != ((i >= 3 && i < 80) ? 0 : 0x5a)) {
                                ev_violation("C07", "C07|direct|imb_clear_mem|range", "imb_clear_mem did not clear exactly the given range", NULL);
                                break;
                        }
                /* imb_set_pointers_mb_mgr + init_mb_mgr_auto on caller memory */
                void *blk = NULL;
                if (posix_memalign(&blk, 64, imb_get_mb_mgr_size()) == 0) {
                        IMB_ARCH ar;
                        IMB_MGR *m2 = (IMB_MGR *) mcall("imb_set_pointers_mb_mgr", (void *) imb_set_pointers_mb_mgr, 3, (uint64_t) blk,
                                                        g_cfgs[c].flags, (uint64_t) 1);
                        if (m2)
                                mcall("init_mb_mgr_auto", (void *) init_mb_mgr_auto, 2, (uint64_t) m2, (uint64_t) &ar);
                        free(blk);
                }
                mm_free(mm);
        }
        cov_count("legacy_api_jobs", n_legacy_jobs);
        /* encrypt-only key expansion exports (not reachable through IMB_MGR) and the AVX XCBC key expansion */
        if (g_opt.shard == 0) {
                static const struct {
                        const char *name;
                        void *fn;
                        int kl;
                } K[] = {
                        { "aes_keyexp_128_enc_sse", (void *) aes_keyexp_128_enc_sse, 16 },       { "aes_keyexp_192_enc_sse", (void *) aes_keyexp_192_enc_sse, 24 },
                        { "aes_keyexp_256_enc_sse", (void *) aes_keyexp_256_enc_sse, 32 },       { "aes_keyexp_128_enc_avx", (void *) aes_keyexp_128_enc_avx, 16 },
                        { "aes_keyexp_192_enc_avx", (void *) aes_keyexp_192_enc_avx, 24 },       { "aes_keyexp_256_enc_avx", (void *) aes_keyexp_256_enc_avx, 32 },
                        { "aes_keyexp_128_enc_avx2", (void *) aes_keyexp_128_enc_avx2, 16 },     { "aes_keyexp_192_enc_avx2", (void *) aes_keyexp_192_enc_avx2, 24 },
                        { "aes_keyexp_256_enc_avx2", (void *) aes_keyexp_256_enc_avx2, 32 },     { "aes_keyexp_128_enc_avx512", (void *) aes_keyexp_128_enc_avx512, 16 },
                        { "aes_keyexp_192_enc_avx512", (void *) aes_keyexp_192_enc_avx512, 24 }, { "aes_keyexp_256_enc_avx512", (void *) aes_keyexp_256_enc_avx512, 32 },
                };
                struct rng r;
                rng_seed(&r, g_opt.seed + 555);
                for (unsigned i = 0; i < ARRAY_SZ(K); i++)
                        for (int rep = 0; rep < 8; rep++) {
                                size_t sz = 16 * (size_t) (K[i].kl / 4 + 7);
                                uint8_t exp[240];
                                guard_reset_slot(0);
                                uint8_t *key = guard_alloc(0, "key", (size_t) K[i].kl, 1, (rep & 1) ? PL_START : PL_END);
                                uint8_t *out = guard_alloc(0, "enckey", sz, 16, (rep & 1) ? PL_START : PL_END);
                                rng_bytes(&r, key, (size_t) K[i].kl);
                                ref_aes_expand_enc(key, K[i].kl, exp);
                                mcall(K[i].name, K[i].fn, 2, (uint64_t) key, (uint64_t) out);
                                if (memcmp(out, exp, sz)) {
                                        char key_[160];
                                        snprintf(key_, sizeof key_, "C11|direct|%s|output-mismatch", K[i].name);
                                        ev_violation("C11", key_, "encrypt-only key expansion differs from the reference schedule", NULL);
                                }
                                guard_check_slot(0, K[i].name);
                                cov_hit("abi_fn", "export|%s|valid", K[i].name);
                        }
                for (int rep = 0; rep < 8; rep++) {
                        uint8_t e1[16], e2[16], e3[16], k1exp[176];
                        guard_reset_slot(0);
                        uint8_t *key = guard_alloc(0, "key", 16, 1, (rep & 1) ? PL_START : PL_END);
                        uint8_t *o1 = guard_alloc(0, "k1exp", 176, 16, PL_END);
                        uint8_t *o2 = guard_alloc(0, "k2", 16, 1, PL_END);
                        uint8_t *o3 = guard_alloc(0, "k3", 16, 1, PL_END);
                        rng_bytes(&r, key, 16);
                        ref_xcbc_keys(key, e1, e2, e3);
                        ref_aes_expand_enc(e1, 16, k1exp);
                        mcall("aes_xcbc_expand_key_avx", (void *) aes_xcbc_expand_key_avx, 4, (uint64_t) key, (uint64_t) o1, (uint64_t) o2, (uint64_t) o3);
                        if (memcmp(o1, k1exp, 176) || memcmp(o2, e2, 16) || memcmp(o3, e3, 16))
                                ev_violation("C11", "C11|direct|aes_xcbc_expand_key_avx|output-mismatch", "XCBC key expansion differs from the reference", NULL);
                        guard_check_slot(0, "aes_xcbc_expand_key_avx");
                }
        }
}

int
eng_abi(void)
{
        static struct call c;
        static struct actx X;
        struct actx *x = &X;
        long rounds = g_opt.cases;
        if (g_opt.tier == 0)
                rounds = rounds > 64 ? 64 : rounds;
        if (rounds < 2)
                rounds = 2;
        if (g_opt.under_valgrind && rounds > 2)
                rounds = 2;
        g_mutate = getenv("IMBV_ABI_MUTATE") != NULL;
        guard_init(NSLOT);
        pool = malloc(POOL_SZ);
        if (!pool)
                harness_fail("abi: out of memory");
        nver_rounds = rounds;
        nver_tab = calloc((size_t) NFN * (size_t) rounds, sizeof *nver_tab);
        for (int vi = 0; vi < g_nvariants; vi++) {
                const int cfg = g_variant_cfg[vi];
                uint64_t r = 0;
                if (g_opt.cfg_only >= 0 && cfg != g_opt.cfg_only)
                        continue;
                memset(x, 0, sizeof *x);
                x->mm = mm_new(cfg);
                if (!x->mm)
                        continue;
                x->m = x->mm->m;
                x->cfg = cfg;
                snprintf(x->vn, sizeof x->vn, "%s", variant_name(x->mm->variant));
                sc(x, "kasumi_key_sched_size", MFN(x, kasumi_key_sched_size), &r, 0);
                x->kas_sz = (size_t) r;
                sc(x, "snow3g_key_sched_size", MFN(x, snow3g_key_sched_size), &r, 0);
                x->snow_sz = (size_t) r;
                if (x->kas_sz == 0 || x->kas_sz > 4096 || x->snow_sz == 0 || x->snow_sz > 4096)
                        harness_fail("abi: implausible key schedule sizes %zu %zu", x->kas_sz, x->snow_sz);
                /* pass 0: all valid calls; pass 1: NULL and limit sweeps (a sanitizer build may abort in
                 * pass 1 when the library dereferences a NULL pointer; the valid calls are done by then) */
                for (int pass = 0; pass < 2; pass++)
                        for (long round = g_opt.from_case; round < rounds; round++)
                                for (int fi = 0; fi < NFN; fi++) {
                                        const struct fdesc *f = &g_fn[fi];
                                        struct argv av;
                                        struct lim lims[MAXLIM];
                                        int nlim;
                                        if ((round + fi) % g_opt.nshards != g_opt.shard)
                                                continue;
                                        if (g_opt.arg1 && strcmp(g_opt.arg1, f->name))
                                                continue;
                                        x->round = round;
                                        x->fi = fi;
                                        g_case_no = round * NFN + fi;
                                        if (pass == 0) {
                                                run_valid(x, f, &c);
                                                continue;
                                        }
                                        /* dry build to learn the argument structure and the limit table */
                                        x->mode = M_NULL;
                                        x->null_arg = x->null_elem = -1;
                                        x->curlim = NULL;
                                        x->force_n = 0;
                                        if (build_call(x, &c, f))
                                                continue;
                                        av = c.v;
                                        nlim = c.nlim;
                                        memcpy(lims, c.lim, sizeof lims);
                                        /* aes_ecb_*_quic / chacha20_hp_quic are internal kernels behind the checked public
                                         * wrappers imb_quic_hp_aes_ecb / imb_quic_hp_chacha20 (the header defines no IMB_ macro
                                         * for these fields): C12's "direct-API functions" contract does not extend to them */
                                        const int internal_kernel = f->off && (!strcmp(f->name, "aes_ecb_128_quic") ||
                                                                               !strcmp(f->name, "aes_ecb_256_quic") ||
                                                                               !strcmp(f->name, "chacha20_hp_quic"));
                                        for (int i = 0; i < av.n && !internal_kernel; i++) {
                                                if (av.a[i].obj == -1 || av.a[i].null_ok)
                                                        continue;
                                                run_null(x, f, &c, i, -1, 0);
                                                if (av.a[i].nelem > 0) {
                                                        run_null(x, f, &c, i, (int) ((round + i) % av.a[i].nelem), 0);
                                                        /* systematically: the largest buffer count, NULL in the last element
                                                         * (run_null clamps the index) and, every other round, in the first or
                                                         * in the element just before the last */
                                                        run_null(x, f, &c, i, 1 << 20, MAXB);
                                                        run_null(x, f, &c, i, (round & 1) ? 0 : MAXB - 2, MAXB);
                                                }
                                        }
                                        for (int li = 0; li < nlim; li++)
                                                run_limit(x, f, &c, li, &lims[li]);
                                }
                mm_free(x->mm);
        }
        cov_count("direct_calls_valid", n_valid);
        cov_count("direct_calls_null", n_null);
        cov_count("direct_calls_limit", n_limit);
        cov_count("direct_outputs_verified_by_reference", n_ref);
        cov_count("direct_outputs_verified_by_nversion", n_nver);
        cov_count("direct_functions", (uint64_t) NFN);
        cov_count("direct_error_codes_judged_by_role", n_code_judged);
        cov_count("direct_error_codes_compared_between_variants", n_code_agree);
        if (!g_opt.arg1)
                legacy_sweep();
        free(nver_tab);
        free(pool);
        return 0;
}
