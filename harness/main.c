/* imbmon entry point */
#include "imbv.h"
#include <unistd.h>
#include <sys/resource.h>

static const struct {
        const char *name;
        engine_fn fn;
} engines[] = {
        { "probe", eng_probe },     { "conf", eng_conf },     { "mix", eng_mix },
        { "ring", eng_ring },       { "suite", eng_suite },   { "bounds", eng_bounds },
        { "nver", eng_nver },       { "entry", eng_entry },   { "sgl", eng_sgl },
        { "keys", eng_keys },       { "reject", eng_reject }, { "residue", eng_residue },
        { "desc", eng_desc },       { "reinit", eng_reinit }, { "crash", eng_crash },
        { "threads", eng_threads }, { "abi", eng_abi },       { "ct", eng_ct },
        { "selftest", eng_selftest },
};

static void
pretouch_stack(void)
{
        volatile char big[TRAMP_STACK_WINDOW * 3];
        for (size_t i = 0; i < sizeof big; i += 1024)
                big[i] = 0;
}

int
main(int argc, char **argv)
{
        static struct callmon cm;
        memset(&g_opt, 0, sizeof g_opt);
        g_opt.nshards = 1;
        g_opt.cases = 1000;
        g_opt.cfg_only = -1;
        g_opt.seed = 1;
        if (argc < 2) {
                fprintf(stderr, "usage: imbmon <engine> [--seed S] [--shard i/n] [--cases N] [--tier T] "
                                "[--cfg K] [--arg X] [--replay file] [--no-selfcheck]\n");
                return 2;
        }
        g_opt.engine = argv[1];
        int selfcheck = 1;
        for (int i = 2; i < argc; i++) {
                if (!strcmp(argv[i], "--seed") && i + 1 < argc)
                        g_opt.seed = strtoull(argv[++i], NULL, 0);
                else if (!strcmp(argv[i], "--shard") && i + 1 < argc)
                        sscanf(argv[++i], "%d/%d", &g_opt.shard, &g_opt.nshards);
                else if (!strcmp(argv[i], "--cases") && i + 1 < argc)
                        g_opt.cases = atol(argv[++i]);
                else if (!strcmp(argv[i], "--tier") && i + 1 < argc)
                        g_opt.tier = !strcmp(argv[++i], "thorough");
                else if (!strcmp(argv[i], "--cfg") && i + 1 < argc)
                        g_opt.cfg_only = atoi(argv[++i]);
                else if (!strcmp(argv[i], "--arg") && i + 1 < argc)
                        g_opt.arg1 = argv[++i];
                else if (!strcmp(argv[i], "--replay") && i + 1 < argc)
                        g_opt.replay = argv[++i];
                else if (!strcmp(argv[i], "--from") && i + 1 < argc)
                        g_opt.from_case = atol(argv[++i]);
                else if (!strcmp(argv[i], "--valgrind"))
                        g_opt.under_valgrind = 1;
                else if (!strcmp(argv[i], "--abi"))
                        g_abi_cov = 1;
                else if (!strcmp(argv[i], "--no-selfcheck"))
                        selfcheck = 0;
                else if (!strcmp(argv[i], "-v"))
                        g_opt.verbose = 1;
                else {
                        fprintf(stderr, "unknown option %s\n", argv[i]);
                        return 2;
                }
        }
        setvbuf(stdout, NULL, _IOFBF, 1 << 16);
        pretouch_stack();
        callmon_init(&cm, g_opt.seed * 1000003ULL + (uint64_t) g_opt.shard);
        cm.stackcopy = malloc(TRAMP_STACK_WINDOW);
        fault_install();
        if (selfcheck)
                refs_selftest_or_die();
        ev_printf("{\"ev\":\"start\",\"engine\":\"%s\",\"seed\":%llu,\"shard\":%d,\"nshards\":%d,\"tier\":%d,"
                  "\"features\":{\"safe_data\":%d,\"safe_param\":%d,\"safe_lookup\":%d}}",
                  g_opt.engine, (unsigned long long) g_opt.seed, g_opt.shard, g_opt.nshards, g_opt.tier,
                  1, 1, 1);
        cfgs_discover();
        for (unsigned i = 0; i < ARRAY_SZ(engines); i++)
                if (!strcmp(engines[i].name, g_opt.engine)) {
                        int rc = engines[i].fn();
                        cov_count("tramp_calls", g_cm->ncalls);
                        cov_flush();
                        if (g_abi_cov)
                                abi_flush();
                        ev_printf("{\"ev\":\"end\",\"rc\":%d,\"violations\":%llu}", rc,
                                  (unsigned long long) g_violations);
                        fflush(stdout);
                        return rc ? rc : (g_violations ? 1 : 0);
                }
        fprintf(stderr, "unknown engine %s\n", g_opt.engine);
        return 2;
}
