/* Engine "crash" (C16): re-attachment to a manager whose owner died between two API calls.
 *
 * A shared arena (memfd, mapped MAP_FIXED at one fixed address in every process) holds a header,
 * the IMB_MGR block, every buffer/key/IV/tag the jobs reference and the expected outputs.  For a
 * random parking-heavy history and EVERY crash point c (= number of completed scheduler calls) a
 * primary process runs the history up to call c, records which jobs are in flight (taken from the
 * M-RING model) and kills itself with SIGKILL.  A secondary then maps the arena, re-attaches with
 * imb_set_pointers_mb_mgr(ptr, flags, 0), flushes, and a checker decides:
 *   - every in-flight job is handed back exactly once, in submission order, status COMPLETED
 *   - outputs/tags equal the reference-model expectation recorded by the primary
 *   - jobs the primary had already received are not handed back again
 *   - the manager is usable afterwards (a follow-up episode verified against the models)
 * Secondary kinds: 0 = same process (control, no kill), 1 = forked child of the driver,
 * 2 = fork+exec of the PIE/shared-library build of this harness (ASLR => different load address of
 * the library; the load addresses of both sides are recorded and compared).
 */

#include "imbv.h"
#include <dlfcn.h>
#include <stdarg.h>
#include <errno.h>
#include <signal.h>
#include <sys/mman.h>
#include <sys/wait.h>
#include <unistd.h>

#define ARENA_ADDR ((void *) 0x6a0000000000ULL)
#define ARENA_SZ (24UL << 20)
#define HDR_SZ (1UL << 20)
#define MGR_OFF HDR_SZ
#define MGR_MAX (2UL << 20)
#define SLOTS_OFF (MGR_OFF + MGR_MAX)
#define CSLOTS 48
#define SLOT_BYTES (384UL * 1024)
#define NMAX CSLOTS
#define EXP_MAX 1024

struct crec {
        uint8_t *out;
        uint32_t out_len;
        uint8_t *tag;
        uint32_t tag_len;
        uint8_t exp_out[EXP_MAX];
        uint8_t exp_tag[MAX_TAG];
        int submitted, returned; /* by the primary */
        int sec_returned;        /* by the secondary */
        char suite[48];
        char key_out[160], key_tag[160]; /* identities of an output / tag mismatch (same as item_check would use) */
};

struct chdr {
        uint64_t magic;
        int cfg;
        uint64_t flags;
        int arch;
        int variant;
        uint64_t seed;
        int focus; /* -1 mixed history; else index of the out-of-order manager most jobs go to */
        long crash_at;
        /* primary -> */
        long total_calls;     /* dry run: number of scheduler calls of the whole history */
        long calls_done;
        int last_call_kind;   /* 0 submit 1 get_completed 2 flush */
        int n_items;
        int n_inflight;
        struct {
                IMB_JOB *slot;
                int item;
        } inflight[300];
        uint64_t lib_base_primary;
        uint64_t init_fn_primary;
        int primary_state; /* 1 = reached crash point / end */
        /* secondary -> */
        uint64_t lib_base_secondary;
        int sec_done;
        int sec_returned_n;
        int sec_followup_jobs;
        int sec_viol;
        struct crec rec[NMAX];
};

static struct chdr *H;
static int arena_fd = -1;

static uint64_t
lib_base(void)
{
        Dl_info di;
        if (dladdr((void *) init_mb_mgr_sse, &di) && di.dli_fbase)
                return (uint64_t) di.dli_fbase;
        return 0;
}

static void
arena_map(int fd)
{
        void *p = mmap(ARENA_ADDR, ARENA_SZ, PROT_READ | PROT_WRITE, MAP_SHARED | MAP_FIXED_NOREPLACE, fd, 0);
        if (p != ARENA_ADDR)
                harness_fail("crash: cannot map arena at fixed address: %s", strerror(errno));
        H = p;
}

static IMB_MGR *
arena_mgr(void)
{
        return (IMB_MGR *) ((uint8_t *) ARENA_ADDR + MGR_OFF);
}

static void
arena_bind_slots(void)
{
        for (int s = 0; s < CSLOTS; s++) {
                guard_reset_slot(s);
                guard_set_plain(s, (uint8_t *) ARENA_ADDR + SLOTS_OFF + (size_t) s * SLOT_BYTES, SLOT_BYTES);
        }
}

static const struct suite *
find_suite(const struct suite *t, int n, const char *name)
{
        for (int i = 0; i < n; i++)
                if (!strcmp(t[i].name, name))
                        return &t[i];
        harness_fail("crash: suite %s missing", name);
}

static void
pick(struct rng *r, const struct suite **cs, const struct suite **hs)
{
        static const char *cn[] = { "aes-cbc-128", "aes-cbc-192", "aes-cbc-256", "aes-cfb-128", "aes-cbcs-128",
                                    "docsis-sec-128", "docsis-sec-256", "des-cbc",     "3des-cbc",     "docsis-des",
                                    "zuc-eea3-128",   "zuc-eea3-256",   "snow3g-uea2", "aes-ctr-128",  "chacha20",
                                    "aes-ecb-128",    "sm4-cbc",        "kasumi-uea1",   "aes-ctr-256" };
        static const char *hn[] = { "hmac-sha1", "hmac-sha224", "hmac-sha256", "hmac-sha384", "hmac-sha512", "hmac-md5",
                                    "sha1",      "sha256",      "sha512",      "aes-xcbc",    "aes-cmac",    "aes-cmac-256",
                                    "zuc-eia3",  "zuc256-eia3", "snow3g-uia2", "sha224",      "sha384",      "hmac-sm3" };
        static const char *an[] = { "aes-gcm-128", "aes-ccm-128", "chacha20-poly1305", "aes-gcm-256" };
        *cs = *hs = NULL;
        int k = (int) rng_below(r, 14);
        if (k >= 10) {
                /* one suite per out-of-order manager (direction chosen at the call site stays random) */
                int d;
                item_pick_ooo(r, cs, hs, &d);
                return;
        }
        if (k < 4)
                *cs = find_suite(g_cipher_suites, g_n_cipher_suites, cn[rng_below(r, ARRAY_SZ(cn))]);
        else if (k < 7)
                *hs = find_suite(g_hash_suites, g_n_hash_suites, hn[rng_below(r, ARRAY_SZ(hn))]);
        else if (k < 9) {
                *cs = find_suite(g_cipher_suites, g_n_cipher_suites, cn[rng_below(r, 10)]); /* block modes + docsis */
                *hs = find_suite(g_hash_suites, g_n_hash_suites, hn[rng_below(r, 6)]);    /* HMAC */
        } else
                *cs = find_suite(g_aead_suites, g_n_aead_suites, an[rng_below(r, ARRAY_SZ(an))]);
}

/* ------------------------------------------------------------------ primary */
static struct item *P[NMAX];
static long calls;
static void
count_call(struct mmgr *mm, int kind)
{
        calls++;
        H->calls_done = calls;
        H->last_call_kind = kind;
        if (H->crash_at >= 0 && calls == H->crash_at) {
                H->n_inflight = mm->count;
                for (int i = 0; i < mm->count && i < 300; i++) {
                        struct ring_ent *e = &mm->fifo[(mm->head + i) % RING_CAP];
                        H->inflight[i].slot = e->slot;
                        H->inflight[i].item = (int) (uintptr_t) e->snap.user_data - 1;
                }
                H->primary_state = 1;
        }
}
static int
crashed_now(void)
{
        return H->crash_at >= 0 && calls >= H->crash_at;
}
static void
prim_done(struct mmgr *mm, IMB_JOB *job, void *arg)
{
        int idx = (int) (uintptr_t) job->user_data - 1;
        (void) arg;
        if (idx < 0 || idx >= H->n_items)
                return;
        /* verify with the full item oracle in the primary too */
        struct item *it = P[idx];
        IMB_JOB tmp = *job;
        tmp.user_data = it;
        item_check(it, &tmp, "C16", mm, "primary");
        H->rec[idx].returned = 1;
}

/* Runs the history in the calling process on the arena manager; stops (returns 1) right after
 * scheduler call number crash_at; returns 0 when the history finished first. */
static int
run_primary(struct mmgr **out_mm)
{
        struct rng r;
        IMB_MGR *m = arena_mgr();
        const struct cfg *c = &g_cfgs[H->cfg];
        rng_seed(&r, H->seed);
        calls = 0;
        arena_bind_slots();
        memset(m, 0xA5, 4096);
        if (imb_get_mb_mgr_size() > MGR_MAX)
                harness_fail("crash: manager larger than arena reservation");
        IMB_MGR *mr = (IMB_MGR *) mcall("imb_set_pointers_mb_mgr", (void *) imb_set_pointers_mb_mgr, 3, (uint64_t) m,
                                        c->flags, (uint64_t) 1);
        if (mr != m)
                harness_fail("crash: imb_set_pointers_mb_mgr(reset=1) failed");
        mm_init_arch(m, c->arch);
        if (imb_get_errno(m) != 0 || m->used_arch == IMB_ARCH_NONE)
                return -1;
        struct mmgr *mm = mm_wrap(m, H->cfg);
        *out_mm = mm;
        H->variant = mm->variant;
        H->lib_base_primary = lib_base();
        H->init_fn_primary = (uint64_t) init_mb_mgr_sse;
        int n = 10 + (int) rng_below(&r, NMAX - 10);
        H->n_items = n;
        for (int i = 0; i < n; i++) {
                struct genopt g;
                const struct suite *cs, *hs;
                int fdir = 0;
                if (H->focus >= 0 && rng_below(&r, 10) < 8)
                        item_ooo_by_index(H->focus, &cs, &hs, &fdir); /* fill the lanes of one out-of-order manager */
                else
                        pick(&r, &cs, &hs);
                genopt_default(&g);
                g.slot = i;
                g.pl = PL_PLAIN;
                g.max_len = 0;
                g.dir = fdir;
                g.len = rng_below(&r, 3) ? 16 * (1 + (long) rng_below(&r, 12)) : 1 + (long) rng_below(&r, 700);
                if (cs && (cs->cipher == IMB_CIPHER_KASUMI_UEA1_BITLEN || cs->cipher == IMB_CIPHER_SNOW3G_UEA2_BITLEN ||
                           cs->cipher == IMB_CIPHER_ZUC_EEA3))
                        g.len = 4 * (1 + (long) rng_below(&r, 40));
                if (!cs && rng_below(&r, 6) == 0)
                        g.len = 0; /* empty message where the algorithm permits it (item_gen clamps to the minimum otherwise) */
                if (!P[i])
                        P[i] = item_new();
                item_gen(P[i], cs, hs, &r, &g, mm);
                item_expect(P[i]);
                struct crec *rc = &H->rec[i];
                struct item *it = P[i];
                memset(rc, 0, sizeof *rc);
                snprintf(rc->suite, sizeof rc->suite, "%s+%s", cs ? cs->name : "null", hs ? hs->name : "null");
                item_mismatch_key(it, "C16", variant_name(mm->variant), 0, rc->key_out, sizeof rc->key_out);
                item_mismatch_key(it, "C16", variant_name(mm->variant), 1, rc->key_tag, sizeof rc->key_tag);
                if (it->cipher != IMB_CIPHER_NULL && it->have_ref && it->dst_len <= EXP_MAX) {
                        rc->out = it->inplace ? it->src + it->c_off : it->dst;
                        rc->out_len = it->dst_len;
                        memcpy(rc->exp_out, it->inplace ? it->exp_src + it->c_off : it->exp_dst, it->dst_len);
                }
                if (it->tag_len && it->have_ref && !it->tag_unspec) {
                        rc->tag = it->tag;
                        rc->tag_len = it->tag_len;
                        memcpy(rc->exp_tag, it->exp_tag, it->tag_len);
                }
        }
        g_job_done = prim_done;
        for (int i = 0; i < n; i++) {
                IMB_JOB *j = mm_get_next_job(mm);
                item_fill_job(P[i], j);
                j->user_data = (void *) (uintptr_t) (i + 1);
                H->rec[i].submitted = 1;
                mm_submit_job(mm, 0, 0);
                count_call(mm, 0);
                if (crashed_now())
                        return 1;
                if (rng_below(&r, 5) == 0) {
                        mm_get_completed_job(mm);
                        count_call(mm, 1);
                        if (crashed_now())
                                return 1;
                }
                if (rng_below(&r, 12) == 0) {
                        mm_flush_job(mm);
                        count_call(mm, 2);
                        if (crashed_now())
                                return 1;
                }
        }
        for (;;) {
                IMB_JOB *j = mm_flush_job(mm);
                count_call(mm, 2);
                if (crashed_now())
                        return 1;
                if (!j)
                        break;
        }
        H->total_calls = calls;
        g_job_done = NULL;
        return 0;
}

/* ------------------------------------------------------------------ secondary */
static int sec_next; /* index into H->inflight of the job expected next */
static char sec_kind_name[16];

static void
sec_viol(const char *what, const char *fmt, ...)
{
        char key[200], det[400];
        va_list ap;
        va_start(ap, fmt);
        vsnprintf(det, sizeof det, fmt, ap);
        va_end(ap);
        snprintf(key, sizeof key, "C16|%s|%s|%s", variant_name(H->variant), sec_kind_name, what);
        char rp[300];
        snprintf(rp, sizeof rp, "{\"engine\":\"crash\",\"cfg\":%d,\"seed\":%llu,\"crash_at\":%ld,\"kind\":\"%s\"}", H->cfg,
                 (unsigned long long) H->seed, H->crash_at, sec_kind_name);
        ev_violation("C16", key, det, rp);
        H->sec_viol++;
}

static void
sec_done(struct mmgr *mm, IMB_JOB *job, void *arg)
{
        int idx = (int) (uintptr_t) job->user_data - 1;
        (void) mm;
        (void) arg;
        if (idx < 0 || idx >= H->n_items) {
                sec_viol("unknown-job", "flush handed back a job with unknown user_data %p", job->user_data);
                return;
        }
        struct crec *rc = &H->rec[idx];
        if (rc->returned)
                sec_viol("duplicate", "job %d (%s) had been handed back before the crash and came back again", idx, rc->suite);
        if (rc->sec_returned)
                sec_viol("duplicate", "job %d (%s) handed back twice after re-attaching", idx, rc->suite);
        rc->sec_returned++;
        if (sec_next >= H->n_inflight || H->inflight[sec_next].item != idx)
                sec_viol("order", "job %d (%s) handed back at position %d, expected job %d", idx, rc->suite, sec_next,
                         sec_next < H->n_inflight ? H->inflight[sec_next].item : -1);
        else if (H->inflight[sec_next].slot != job)
                sec_viol("order", "job %d handed back in slot %p, was submitted in slot %p", idx, (void *) job,
                         (void *) H->inflight[sec_next].slot);
        sec_next++;
        if (job->status != IMB_STATUS_COMPLETED)
                sec_viol("status", "job %d (%s) handed back with status %d", idx, rc->suite, (int) job->status);
        if (rc->out && memcmp(rc->out, rc->exp_out, rc->out_len)) {
                char det[300];
                snprintf(det, sizeof det, "job %d (%s) output differs from the reference model after re-attaching in a %s process (len %u)",
                         idx, rc->suite, sec_kind_name, rc->out_len);
                ev_violation("C16", rc->key_out, det, NULL);
                H->sec_viol++;
        }
        if (rc->tag && memcmp(rc->tag, rc->exp_tag, rc->tag_len)) {
                char det[300];
                snprintf(det, sizeof det, "job %d (%s) tag differs from the reference model after re-attaching in a %s process", idx,
                         rc->suite, sec_kind_name);
                ev_violation("C16", rc->key_tag, det, NULL);
                H->sec_viol++;
        }
        H->sec_returned_n++;
}

static void
follow_done(struct mmgr *mm, IMB_JOB *job, void *arg)
{
        struct item *it = job->user_data;
        (void) arg;
        item_check(it, job, "C16", mm, "follow-up after re-attach");
        H->sec_followup_jobs++;
}

static void
run_secondary(int kind, struct mmgr *same_mm)
{
        static const char *kn[] = { "same-process", "fork", "exec" };
        IMB_MGR *m = arena_mgr();
        snprintf(sec_kind_name, sizeof sec_kind_name, "%s", kn[kind]);
        H->lib_base_secondary = lib_base();
        uint64_t viol0 = g_violations;
        IMB_MGR *mr =
                (IMB_MGR *) mcall("imb_set_pointers_mb_mgr", (void *) imb_set_pointers_mb_mgr, 3, (uint64_t) m, H->flags, (uint64_t) 0);
        if (mr != m) {
                sec_viol("attach-failed", "imb_set_pointers_mb_mgr(reset=0) returned %p", (void *) mr);
                return;
        }
        if ((int) m->used_arch * 8 + (int) m->used_arch_type != H->variant)
                sec_viol("variant-changed", "variant after re-attaching differs");
        struct mmgr *mm;
        if (same_mm)
                mm = same_mm;
        else {
                mm = mm_wrap(m, H->cfg);
                for (int i = 0; i < H->n_inflight; i++) {
                        struct ring_ent *e = &mm->fifo[i];
                        e->slot = H->inflight[i].slot;
                        e->snap = *e->slot;
                        e->id = (uint64_t) i;
                }
                mm->count = H->n_inflight;
                mm->next_id = (uint64_t) H->n_inflight;
        }
        if (mm_queue_size(mm) != (uint32_t) H->n_inflight)
                sec_viol("queue-size", "queue size after re-attaching is %u, %d jobs were in flight", mm_queue_size(mm),
                         H->n_inflight);
        sec_next = 0;
        g_job_done = sec_done;
        /* get_completed first (jobs finished but not yet collected), then flush */
        while (mm_get_completed_job(mm))
                ;
        for (int guard = 0; guard < 400; guard++)
                if (!mm_flush_job(mm))
                        break;
        if (sec_next != H->n_inflight)
                sec_viol("lost", "%d jobs were in flight, %d were handed back after re-attaching", H->n_inflight, sec_next);
        for (int i = 0; i < H->n_items; i++)
                if (H->rec[i].submitted && !H->rec[i].returned && H->rec[i].sec_returned != 1)
                        sec_viol("lost", "job %d (%s) submitted before the crash was handed back %d times", i, H->rec[i].suite,
                                 H->rec[i].sec_returned);
        if (mm_queue_size(mm) != 0)
                sec_viol("queue-size", "queue not empty after flushing");
        /* follow-up episode: process-private buffers (guard slots CSLOTS..), same manager */
        struct rng r;
        rng_seed(&r, H->seed ^ 0x5ec0dULL ^ (uint64_t) H->crash_at);
        static struct item *F[12];
        g_job_done = follow_done;
        for (int i = 0; i < 12; i++) {
                struct genopt g;
                const struct suite *cs, *hs;
                pick(&r, &cs, &hs);
                genopt_default(&g);
                g.slot = CSLOTS + i;
                guard_reset_slot(g.slot);
                g.len = 16 * (1 + (long) rng_below(&r, 8));
                if (cs && (cs->cipher == IMB_CIPHER_KASUMI_UEA1_BITLEN || cs->cipher == IMB_CIPHER_SNOW3G_UEA2_BITLEN ||
                           cs->cipher == IMB_CIPHER_ZUC_EEA3))
                        g.len = 4 * (1 + (long) rng_below(&r, 40));
                if (!F[i])
                        F[i] = item_new();
                item_gen(F[i], cs, hs, &r, &g, mm);
                item_expect(F[i]);
                IMB_JOB *j = mm_get_next_job(mm);
                item_fill_job(F[i], j);
                mm_submit_job(mm, 0, 0);
        }
        while (mm_flush_job(mm))
                ;
        if (H->sec_followup_jobs != 12)
                sec_viol("followup", "follow-up episode handed back %d of 12 jobs", H->sec_followup_jobs);
        g_job_done = NULL;
        if (g_violations != viol0 && !H->sec_viol)
                H->sec_viol = (int) (g_violations - viol0);
        H->sec_done = 1;
        if (!same_mm)
                free(mm);
}

/* entry used by the exec'ed secondary: imbmon crash --arg attach:<fd> */
static int
secondary_main(int fd)
{
        guard_init(CSLOTS + 12);
        arena_map(fd);
        if (H->magic != 0x494d42435241ULL)
                harness_fail("crash: arena header invalid in exec'ed secondary");
        run_secondary(2, NULL);
        fflush(stdout);
        _exit(0); /* no start/end framing from the helper process */
}

/* ------------------------------------------------------------------ driver */
static int cur_focus = -1;
static void
hdr_reset(int cfg, uint64_t seed, long crash_at)
{
        memset(H, 0, sizeof *H);
        H->focus = cur_focus;
        H->magic = 0x494d42435241ULL;
        H->cfg = cfg;
        H->flags = g_cfgs[cfg].flags;
        H->arch = g_cfgs[cfg].arch;
        H->seed = seed;
        H->crash_at = crash_at;
}

/* returns the exit code, -2 if the child was killed by a signal (*sig), -3 if it did not finish within the watchdog
 * (a healthy primary/secondary needs milliseconds; 90 s is far beyond any scheduling delay on a loaded machine) and was killed */
static int
wait_child(pid_t pid, int *sig)
{
        int st;
        *sig = 0;
        for (int waited_ms = 0;; waited_ms += 5) {
                pid_t r = waitpid(pid, &st, WNOHANG);
                if (r == pid)
                        break;
                if (r < 0 && errno != EINTR)
                        return -1;
                if (waited_ms > 90000) {
                        kill(pid, SIGKILL);
                        while (waitpid(pid, &st, 0) < 0 && errno == EINTR)
                                ;
                        *sig = SIGKILL;
                        return -3;
                }
                usleep(waited_ms < 200 ? 200 : 5000);
        }
        if (WIFSIGNALED(st)) {
                *sig = WTERMSIG(st);
                return -2;
        }
        return WEXITSTATUS(st);
}

static char exec_path[512];
static int exec_ok;

static void
find_exec_binary(void)
{
        /* the PIE + shared-library build is passed by check.py via IMBV_CRASH_EXEC */
        const char *p = getenv("IMBV_CRASH_EXEC");
        if (p && access(p, X_OK) == 0) {
                snprintf(exec_path, sizeof exec_path, "%s", p);
                exec_ok = 1;
        }
}

int
eng_crash(void)
{
        if (g_opt.arg1 && !strncmp(g_opt.arg1, "attach:", 7))
                return secondary_main(atoi(g_opt.arg1 + 7));
        find_exec_binary();
        guard_init(CSLOTS + 12);
        arena_fd = memfd_create("imbv-crash-arena", 0);
        if (arena_fd < 0 || ftruncate(arena_fd, (off_t) ARENA_SZ))
                harness_fail("crash: memfd: %s", strerror(errno));
        arena_map(arena_fd);
        if (!exec_ok)
                ev_note("crash-exec-binary", "IMBV_CRASH_EXEC not set: exec'ed secondaries not run");
        long hist = 0;
        uint64_t n_points = 0, n_exec_diff = 0, n_exec = 0;
        int n_hangs = 0;
        for (long cs = g_opt.shard; cs < g_opt.cases; cs += g_opt.nshards) {
                int v = (int) (cs % g_nvariants);
                int cfg = g_variant_cfg[v];
                uint64_t seed = g_opt.seed * 7919ULL + (uint64_t) cs * 104729ULL;
                /* the first variants x managers histories walk systematically through (variant, out-of-order manager):
                 * most jobs of the history go to that manager so that all its lanes are occupied at the crash points */
                cur_focus = (cs / g_nvariants) < 2L * item_ooo_count() ? (int) ((cs / g_nvariants) % item_ooo_count()) : ((cs & 1) ? (int) (seed % (uint64_t) item_ooo_count()) : -1);
                if (g_opt.cfg_only >= 0 && cfg != g_opt.cfg_only)
                        continue;
                g_case_no = cs;
                /* dry run in a child: number of calls of the complete history */
                hdr_reset(cfg, seed, -1);
                fflush(stdout);
                pid_t pid = fork();
                if (pid == 0) {
                        struct mmgr *mm = NULL;
                        int rc = run_primary(&mm);
                        fflush(stdout);
                        _exit(rc == 0 ? 0 : 9);
                }
                int sig, rc = wait_child(pid, &sig);
                if (rc != 0) {
                        if (rc == 9)
                                continue; /* configuration not available */
                        char key[160];
                        snprintf(key, sizeof key, "C16|%s|primary-died-in-dry-run", variant_name(g_cfg_variant[cfg]));
                        ev_violation("C16", key, "history crashed without any injected crash", NULL);
                        continue;
                }
                long total = H->total_calls;
                hist++;
                /* every crash point; thorough: all three kinds at every point; quick: rotate */
                for (long c = 1; c <= total; c++) {
                        for (int kind = 0; kind < 3; kind++) {
                                if (!g_opt.tier && ((c + cs) % 3) != kind && !(kind == 1 && c == total))
                                        continue;
                                if (kind == 2 && !exec_ok)
                                        continue;
                                hdr_reset(cfg, seed, c);
                                fflush(stdout);
                                pid = fork();
                                if (pid == 0) {
                                        struct mmgr *mm = NULL;
                                        int r1 = run_primary(&mm);
                                        if (r1 != 1) {
                                                fflush(stdout);
                                                _exit(8);
                                        }
                                        if (kind == 0) {
                                                run_secondary(0, mm);
                                                fflush(stdout);
                                                _exit(0);
                                        }
                                        fflush(stdout);
                                        kill(getpid(), SIGKILL);
                                        _exit(7);
                                }
                                rc = wait_child(pid, &sig);
                                if (kind == 0) {
                                        if (rc != 0) {
                                                char key[160], det[160];
                                                snprintf(key, sizeof key, "C16|%s|same-process|%s", variant_name(H->variant), rc == -3 ? "hang" : "died");
                                                snprintf(det, sizeof det, "same-process re-attach ended rc=%d signal=%d at crash point %ld", rc,
                                                         sig, c);
                                                ev_violation("C16", key, det, NULL);
                                                if (rc == -3 && ++n_hangs >= 2)
                                                        goto out; /* every further point would cost another watchdog period */
                                                if (rc == -3)
                                                        goto next_history;
                                                continue;
                                        }
                                } else {
                                        if (!(rc == -2 && sig == SIGKILL) || H->primary_state != 1) {
                                                char det[200];
                                                snprintf(det, sizeof det, "primary did not reach crash point %ld: rc=%d sig=%d state=%d", c, rc,
                                                         sig, H->primary_state);
                                                ev_violation("C16", "C16|harness|primary-no-crash", det, NULL);
                                                continue;
                                        }
                                        fflush(stdout);
                                        pid = fork();
                                        if (pid == 0) {
                                                if (kind == 1) {
                                                        run_secondary(1, NULL);
                                                        fflush(stdout);
                                                        _exit(0);
                                                }
                                                char a[32];
                                                snprintf(a, sizeof a, "attach:%d", arena_fd);
                                                execl(exec_path, exec_path, "crash", "--no-selfcheck", "--arg", a, (char *) NULL);
                                                _exit(6);
                                        }
                                        rc = wait_child(pid, &sig);
                                        if (rc != 0 || !H->sec_done) {
                                                char key[160], det[200];
                                                snprintf(key, sizeof key, "C16|%s|%s|%s", variant_name(H->variant),
                                                         kind == 1 ? "fork" : "exec", rc == -3 ? "hang" : "died");
                                                snprintf(det, sizeof det,
                                                         "re-attaching process ended rc=%d signal=%d done=%d (crash point %ld, %d in flight)", rc,
                                                         sig, H->sec_done, c, H->n_inflight);
                                                char rp[300];
                                                snprintf(rp, sizeof rp,
                                                         "{\"engine\":\"crash\",\"cfg\":%d,\"seed\":%llu,\"crash_at\":%ld,\"kind\":%d}", cfg,
                                                         (unsigned long long) seed, c, kind);
                                                ev_violation("C16", key, det, rp);
                                                if (rc == -3 && ++n_hangs >= 2)
                                                        goto out;
                                                if (rc == -3)
                                                        goto next_history;
                                                continue;
                                        }
                                        if (kind == 2) {
                                                n_exec++;
                                                if (H->lib_base_secondary != H->lib_base_primary)
                                                        n_exec_diff++;
                                        }
                                }
                                /* violations printed by children are not in this process's table: mirror them */
                                if (H->sec_viol) {
                                        g_violations += (uint64_t) H->sec_viol;
                                }
                                n_points++;
                                static const char *ck[] = { "submit", "get_completed", "flush" };
                                cov_hit("crash_state", "%s|after-%s|inflight%d|%s", variant_name(H->variant), ck[H->last_call_kind],
                                        H->n_inflight > 8 ? 9 : H->n_inflight, kind == 0 ? "same" : kind == 1 ? "fork" : "exec");
                                cov_hit("crash_point", "%s|%llu|%ld|%d", variant_name(H->variant), (unsigned long long) seed, c, kind);
                                if (H->focus >= 0)
                                        cov_hit("crash_focus", "%s|ooo%d|inflight%d", variant_name(H->variant), H->focus, H->n_inflight > 16 ? 17 : H->n_inflight);
                                cov_count("jobs_recovered", (uint64_t) H->sec_returned_n);
                                cov_count("followup_jobs", (uint64_t) H->sec_followup_jobs);
                                for (int i = 0; i < H->n_inflight && i < 300; i++)
                                        cov_hit("recovered_suite", "%s|%s", variant_name(H->variant), H->rec[H->inflight[i].item].suite);
                                if (H->n_inflight)
                                        cov_count("points_with_inflight", 1);
                        }
                }
        next_history:;
        }
out:
        cov_count("histories", (uint64_t) hist);
        cov_count("crash_points", n_points);
        cov_count("exec_secondaries", n_exec);
        cov_count("exec_secondaries_other_load_address", n_exec_diff);
        return 0;
}
