/* Engine "sgl" (C10): streaming / scatter-gather interfaces. A message is cut into segments (all
 * partitions with one or two cuts of short messages, incl. empty segments; random partitions of long
 * ones) and pushed through GCM-SGL and ChaCha20-Poly1305-SGL jobs (INIT/UPDATE/COMPLETE and SGL_ALL) and
 * through the direct init/update/finalize calls of GCM, GMAC and ChaCha20-Poly1305. Concatenated output
 * and tag must equal the one-shot reference for every partition. */
#include "imbv.h"

#define MAXSEG 44
struct part {
        int n;
        uint32_t len[MAXSEG];
};

static struct item *IT;
static uint8_t *segin[MAXSEG], *segout[MAXSEG];
static uint64_t n_parts, n_calls;

enum iface { IF_JOB = 0, IF_JOB_ALL = 1, IF_DIRECT = 2 };

static void
sgl_done(struct mmgr *mm, IMB_JOB *job, void *arg)
{
        (void) mm;
        (void) job;
        (void) arg;
}

static void
place_segments(const struct part *p, const uint8_t *msg)
{
        uint32_t off = 0;
        guard_reset_slot(1);
        for (int i = 0; i < p->n; i++) {
                enum place pl = i < 6 ? ((i & 1) ? PL_START : PL_END) : PL_PLAIN;
                segin[i] = guard_alloc(1, "seg-in", p->len[i], 1, pl);
                segout[i] = guard_alloc(1, "seg-out", p->len[i], 1, i < 6 ? pl : PL_PLAIN);
                memcpy(segin[i], msg + off, p->len[i]);
                memset(segout[i], 0xCC, p->len[i]);
                off += p->len[i];
        }
}

static void
judge(struct mmgr *mm, const struct part *p, const char *alg, int iface, uint8_t *tag)
{
        uint32_t off = 0;
        char key[200], det[300];
        int bad = 0;
        for (int i = 0; i < p->n && !bad; i++) {
                if (memcmp(segout[i], IT->exp_dst + off, p->len[i])) {
                        snprintf(key, sizeof key, "C10|%s|%s|if%d|dir%d|output", variant_name(mm->variant), alg, iface, IT->dir);
                        snprintf(det, sizeof det,
                                 "segment %d of %d (len %u at offset %u of %u) differs from the one-shot result; partition starts "
                                 "%u,%u,%u",
                                 i, p->n, p->len[i], off, IT->c_len, p->len[0], p->n > 1 ? p->len[1] : 0, p->n > 2 ? p->len[2] : 0);
                        ev_violation("C10", key, det, item_describe(IT));
                        bad = 1;
                }
                off += p->len[i];
        }
        if (memcmp(tag, IT->exp_tag, IT->tag_len)) {
                snprintf(key, sizeof key, "C10|%s|%s|if%d|dir%d|tag", variant_name(mm->variant), alg, iface, IT->dir);
                snprintf(det, sizeof det, "tag differs from the one-shot result for a %d-segment partition (%u,%u,%u..) of %u bytes: got %s expected %s",
                         p->n, p->len[0], p->n > 1 ? p->len[1] : 0, p->n > 2 ? p->len[2] : 0, IT->c_len, hexs(tag, IT->tag_len),
                         hexs(IT->exp_tag, IT->tag_len));
                ev_violation("C10", key, det, item_describe(IT));
        }
        char w[64];
        snprintf(w, sizeof w, "%s|%s-sgl", variant_name(mm->variant), alg);
        guard_check_slot(1, w);
        n_parts++;
}

static void
base_job(IMB_JOB *j, int gcm)
{
        memset(j, 0, sizeof *j);
        j->cipher_mode = gcm ? IMB_CIPHER_GCM_SGL : IMB_CIPHER_CHACHA20_POLY1305_SGL;
        j->hash_alg = gcm ? IMB_AUTH_GCM_SGL : IMB_AUTH_CHACHA20_POLY1305_SGL;
        j->cipher_direction = IT->dir;
        j->chain_order = IMB_ORDER_CIPHER_HASH;
        j->enc_keys = IT->k.enc;
        j->dec_keys = IT->k.enc;
        j->key_len_in_bytes = IT->keylen;
        j->iv = IT->ivp;
        j->iv_len_in_bytes = IT->iv_len;
        j->auth_tag_output = IT->tag;
        j->auth_tag_output_len_in_bytes = IT->tag_len;
        if (gcm) {
                j->u.GCM.aad = IT->aad;
                j->u.GCM.aad_len_in_bytes = IT->aad_len;
        } else {
                j->u.CHACHA20_POLY1305.aad = IT->aad;
                j->u.CHACHA20_POLY1305.aad_len_in_bytes = IT->aad_len;
        }
}

static void
submit_one(struct mmgr *mm, IMB_JOB *tmpl)
{
        IMB_JOB *j = mm_get_next_job(mm);
        *j = *tmpl;
        IMB_JOB *r = mm_submit_job(mm, 0, 0);
        if (!r)
                while (mm_flush_job(mm))
                        ;
        n_calls++;
}

/* run one partition through one interface */
static void
run_partition(struct mmgr *mm, int gcm, int iface, const struct part *p, void *ctx)
{
        IMB_MGR *m = mm->m;
        IMB_JOB t;
        const uint8_t *msg = IT->src + IT->c_off;
        const int dec = IT->dir == IMB_DIR_DECRYPT;
        place_segments(p, msg);
        memset(IT->tag, 0x5d, IT->tag_len);
        if (iface == IF_JOB_ALL) {
                struct IMB_SGL_IOV *iov = guard_alloc(1, "iov", sizeof(*iov) * (size_t) (p->n ? p->n : 1), 8, PL_END);
                for (int i = 0; i < p->n; i++) {
                        iov[i].in = segin[i];
                        iov[i].out = segout[i];
                        iov[i].len = p->len[i];
                }
                base_job(&t, gcm);
                t.sgl_state = IMB_SGL_ALL;
                t.sgl_io_segs = iov;
                t.num_sgl_io_segs = (uint64_t) p->n;
                if (gcm)
                        t.u.GCM.ctx = ctx;
                else
                        t.u.CHACHA20_POLY1305.ctx = ctx;
                submit_one(mm, &t);
        } else if (iface == IF_JOB && gcm) {
                base_job(&t, 1);
                t.u.GCM.ctx = ctx;
                t.sgl_state = IMB_SGL_INIT;
                submit_one(mm, &t);
                for (int i = 0; i < p->n; i++) {
                        base_job(&t, 1);
                        t.u.GCM.ctx = ctx;
                        t.sgl_state = IMB_SGL_UPDATE;
                        t.src = segin[i];
                        t.dst = segout[i];
                        t.msg_len_to_cipher_in_bytes = p->len[i];
                        submit_one(mm, &t);
                }
                base_job(&t, 1);
                t.u.GCM.ctx = ctx;
                t.sgl_state = IMB_SGL_COMPLETE;
                submit_one(mm, &t);
        } else if (iface == IF_JOB) {
                /* ChaCha20-Poly1305: INIT and COMPLETE carry a segment each */
                struct part q = *p;
                if (q.n == 0) {
                        q.n = 2;
                        q.len[0] = q.len[1] = 0;
                        segin[0] = segin[1] = segout[0] = segout[1] = NULL;
                } else if (q.n == 1) {
                        /* INIT(all)+COMPLETE(empty) or INIT(empty)+COMPLETE(all) */
                        q.n = 2;
                        if (p->len[0] & 1) {
                                q.len[1] = 0;
                                segin[1] = segout[1] = NULL;
                        } else {
                                q.len[1] = q.len[0];
                                q.len[0] = 0;
                                segin[1] = segin[0];
                                segout[1] = segout[0];
                                segin[0] = segout[0] = NULL;
                        }
                }
                for (int i = 0; i < q.n; i++) {
                        base_job(&t, 0);
                        t.u.CHACHA20_POLY1305.ctx = ctx;
                        t.sgl_state = i == 0 ? IMB_SGL_INIT : (i == q.n - 1 ? IMB_SGL_COMPLETE : IMB_SGL_UPDATE);
                        t.src = segin[i];
                        t.dst = segout[i];
                        t.msg_len_to_cipher_in_bytes = q.len[i];
                        t.msg_len_to_hash_in_bytes = q.len[i];
                        submit_one(mm, &t);
                }
                /* map back for judge(): outputs already sit in segout[] of the original partition */
                if (p->n == 1 && !(p->len[0] & 1)) {
                        segout[0] = segout[1];
                        segin[0] = segin[1];
                }
        } else if (gcm) {
                int k = IT->keylen == 16 ? 0 : IT->keylen == 24 ? 1 : 2;
                void *fi[] = { (void *) m->gcm128_init_var_iv, (void *) m->gcm192_init_var_iv, (void *) m->gcm256_init_var_iv };
                void *fe[] = { (void *) m->gcm128_enc_update, (void *) m->gcm192_enc_update, (void *) m->gcm256_enc_update };
                void *fd[] = { (void *) m->gcm128_dec_update, (void *) m->gcm192_dec_update, (void *) m->gcm256_dec_update };
                void *ffe[] = { (void *) m->gcm128_enc_finalize, (void *) m->gcm192_enc_finalize, (void *) m->gcm256_enc_finalize };
                void *ffd[] = { (void *) m->gcm128_dec_finalize, (void *) m->gcm192_dec_finalize, (void *) m->gcm256_dec_finalize };
                mcall("gcm_init_var_iv", fi[k], 6, (uint64_t) IT->k.enc, (uint64_t) ctx, (uint64_t) IT->ivp, (uint64_t) IT->iv_len,
                      (uint64_t) IT->aad, (uint64_t) IT->aad_len);
                for (int i = 0; i < p->n; i++) {
                        if (p->len[i] == 0 && (i & 1))
                                continue; /* zero-length update calls are made for even positions only (both forms are legal) */
                        mcall("gcm_update", dec ? fd[k] : fe[k], 5, (uint64_t) IT->k.enc, (uint64_t) ctx, (uint64_t) segout[i],
                              (uint64_t) segin[i], (uint64_t) p->len[i]);
                        n_calls++;
                }
                mcall("gcm_finalize", dec ? ffd[k] : ffe[k], 4, (uint64_t) IT->k.enc, (uint64_t) ctx, (uint64_t) IT->tag,
                      (uint64_t) IT->tag_len);
        } else {
                mcall("chacha20_poly1305_init", (void *) m->chacha20_poly1305_init, 5, (uint64_t) IT->k.enc, (uint64_t) ctx,
                      (uint64_t) IT->ivp, (uint64_t) IT->aad, (uint64_t) IT->aad_len);
                for (int i = 0; i < p->n; i++) {
                        if (p->len[i] == 0)
                                continue; /* the direct update call rejects a zero length */
                        mcall("chacha20_poly1305_update",
                              dec ? (void *) m->chacha20_poly1305_dec_update : (void *) m->chacha20_poly1305_enc_update, 5,
                              (uint64_t) IT->k.enc, (uint64_t) ctx, (uint64_t) segout[i], (uint64_t) segin[i], (uint64_t) p->len[i]);
                        n_calls++;
                }
                mcall("chacha20_poly1305_finalize", (void *) m->chacha20_poly1305_finalize, 3, (uint64_t) ctx, (uint64_t) IT->tag,
                      (uint64_t) IT->tag_len);
        }
        judge(mm, p, gcm ? (IT->keylen == 16 ? "gcm128" : IT->keylen == 24 ? "gcm192" : "gcm256") : "chacha20-poly1305", iface, IT->tag);
}

/* GMAC direct init/update/finalize over a partition of the message */
static void
run_gmac(struct mmgr *mm, const struct suite *hs, uint64_t seed, long len, const struct part *p)
{
        struct rng r;
        struct genopt g;
        IMB_MGR *m = mm->m;
        rng_seed(&r, seed);
        genopt_default(&g);
        g.slot = 0;
        g.len = len;
        g.off = 0;
        item_gen(IT, NULL, hs, &r, &g, mm);
        item_expect(IT);
        struct gcm_context_data *ctx = guard_alloc(0, "gcmctx", sizeof *ctx, 16, PL_PLAIN);
        int k = hs->hash == IMB_AUTH_AES_GMAC_128 ? 0 : hs->hash == IMB_AUTH_AES_GMAC_192 ? 1 : 2;
        void *fi[] = { (void *) m->gmac128_init, (void *) m->gmac192_init, (void *) m->gmac256_init };
        void *fu[] = { (void *) m->gmac128_update, (void *) m->gmac192_update, (void *) m->gmac256_update };
        void *ff[] = { (void *) m->gmac128_finalize, (void *) m->gmac192_finalize, (void *) m->gmac256_finalize };
        place_segments(p, IT->src);
        mcall("gmac_init", fi[k], 4, (uint64_t) IT->k.a1, (uint64_t) ctx, (uint64_t) IT->aivp, (uint64_t) IT->aiv_len);
        for (int i = 0; i < p->n; i++) {
                if (p->len[i] == 0)
                        continue;
                mcall("gmac_update", fu[k], 4, (uint64_t) IT->k.a1, (uint64_t) ctx, (uint64_t) segin[i], (uint64_t) p->len[i]);
                n_calls++;
        }
        mcall("gmac_finalize", ff[k], 4, (uint64_t) IT->k.a1, (uint64_t) ctx, (uint64_t) IT->tag, (uint64_t) IT->tag_len);
        if (memcmp(IT->tag, IT->exp_tag, IT->tag_len)) {
                char key[200], det[200];
                snprintf(key, sizeof key, "C10|%s|gmac%d|direct|tag", variant_name(mm->variant), 128 + 64 * k);
                snprintf(det, sizeof det, "GMAC tag differs for a %d-segment partition (%u,%u,..) of %u bytes", p->n, p->len[0],
                         p->n > 1 ? p->len[1] : 0, IT->h_len);
                ev_violation("C10", key, det, item_describe(IT));
        }
        n_parts++;
}

static void
gen_msg(struct mmgr *mm, const struct suite *cs, uint64_t seed, long len, int dir)
{
        struct rng r;
        struct genopt g;
        rng_seed(&r, seed);
        genopt_default(&g);
        g.slot = 0;
        g.len = len;
        g.dir = dir;
        g.inplace = 0;
        g.off = 0;
        g.pl = PL_PLAIN;
        item_gen(IT, cs, NULL, &r, &g, mm);
        item_expect(IT);
}

int
eng_sgl(void)
{
        const struct suite *algs[4];
        const struct suite *gmacs[3];
        int na = 0, ng = 0;
        for (int i = 0; i < g_n_aead_suites; i++)
                if (g_aead_suites[i].cipher == IMB_CIPHER_GCM || g_aead_suites[i].cipher == IMB_CIPHER_CHACHA20_POLY1305)
                        algs[na++] = &g_aead_suites[i];
        for (int i = 0; i < g_n_hash_suites; i++)
                if (g_hash_suites[i].hash == IMB_AUTH_AES_GMAC_128 || g_hash_suites[i].hash == IMB_AUTH_AES_GMAC_192 ||
                    g_hash_suites[i].hash == IMB_AUTH_AES_GMAC_256)
                        gmacs[ng++] = &g_hash_suites[i];
        guard_init(3);
        IT = item_new();
        int maxlen = g_opt.tier ? 130 : 40;
        long unit = 0;
        g_job_done = sgl_done;
        for (int vi = 0; vi < g_nvariants; vi++) {
                int cfg = g_variant_cfg[vi];
                if (g_opt.cfg_only >= 0 && cfg != g_opt.cfg_only)
                        continue;
                struct mmgr *mm = mm_new(cfg);
                if (!mm)
                        continue;
                for (int ai = 0; ai < na; ai++)
                        for (int dir = 1; dir <= 2; dir++)
                                for (int len = 0; len <= maxlen; len++, unit++) {
                                        if (unit % g_opt.nshards != g_opt.shard)
                                                continue;
                                        int gcm = algs[ai]->cipher == IMB_CIPHER_GCM;
                                        sigjmp_buf jb;
                                        g_case_no = unit;
                                        gen_msg(mm, algs[ai], g_opt.seed * 7177 + (uint64_t) unit, len, dir);
                                        void *ctx = gcm ? guard_alloc(0, "sglctx", sizeof(struct gcm_context_data), 16, PL_END)
                                                        : guard_alloc(0, "sglctx", sizeof(struct chacha20_poly1305_context_data), 16, PL_END);
                                        if (sigsetjmp(jb, 1)) {
                                                char key[200], det[300];
                                                snprintf(key, sizeof key, "C07|%s|%s-sgl|%s|%s|%s", variant_name(mm->variant),
                                                         gcm ? "GCM" : "CHACHA20_POLY1305", g_fault.is_write ? "write" : "read", g_fault.kind,
                                                         g_fault.pl == PL_END ? "past-end" : "before-start");
                                                snprintf(det, sizeof det, "fault in %s: %s of %s object (%zu bytes) at %ld from its end, via %s",
                                                         g_fault.ripsym, g_fault.is_write ? "write" : "read", g_fault.kind, g_fault.obj_len,
                                                         g_fault.off_from_obj_end, g_cm->cur_fn);
                                                ev_violation("C07", key, det, item_describe(IT));
                                                mm = mm_new(cfg);
                                                continue;
                                        }
                                        g_fault_jmp = &jb;
                                        /* exhaustive: every partition with one or two cuts (incl. cuts at 0 and at the end) */
                                        for (int a = 0; a <= len; a++)
                                                for (int b = a; b <= len; b++) {
                                                        struct part p;
                                                        p.n = 3;
                                                        p.len[0] = (uint32_t) a;
                                                        p.len[1] = (uint32_t) (b - a);
                                                        p.len[2] = (uint32_t) (len - b);
                                                        int iface = (a + b + len) % 3;
                                                        run_partition(mm, gcm, iface, &p, ctx);
                                                        if (a == b) { /* the one-cut (two segment) form as well */
                                                                p.n = 2;
                                                                p.len[0] = (uint32_t) a;
                                                                p.len[1] = (uint32_t) (len - a);
                                                                run_partition(mm, gcm, (iface + 1) % 3, &p, ctx);
                                                                run_partition(mm, gcm, (iface + 2) % 3, &p, ctx);
                                                        }
                                                }
                                        {
                                                struct part p = { 1, { (uint32_t) len } };
                                                for (int iface = 0; iface < 3; iface++)
                                                        run_partition(mm, gcm, iface, &p, ctx);
                                        }
                                        g_fault_jmp = NULL;
                                        cov_hit("C10", "%s|%s|dir%d|len%d|exhaustive-1-2-cuts", variant_name(mm->variant), algs[ai]->name, dir, len);
                                }
                /* random partitions of longer messages */
                long nrand = g_opt.cases / g_nvariants + 1;
                for (long e = 0; e < nrand; e++, unit++) {
                        if (unit % g_opt.nshards != g_opt.shard)
                                continue;
                        struct rng r;
                        sigjmp_buf jb;
                        static const uint32_t szs[] = { 0, 1, 15, 16, 17, 63, 64, 65 };
                        rng_seed(&r, g_opt.seed * 2741 + (uint64_t) unit);
                        g_case_no = unit;
                        int ai = (int) rng_below(&r, (uint32_t) na);
                        int gcm = algs[ai]->cipher == IMB_CIPHER_GCM;
                        struct part p;
                        uint32_t total = 0;
                        p.n = 1 + (int) rng_below(&r, 40);
                        for (int i = 0; i < p.n; i++) {
                                p.len[i] = rng_below(&r, 3) ? szs[rng_below(&r, ARRAY_SZ(szs))] : rng_below(&r, rng_below(&r, 8) ? 300 : 6000);
                                total += p.len[i];
                        }
                        if (total > 70000)
                                continue;
                        gen_msg(mm, algs[ai], rng_u64(&r), total, 1 + (int) rng_below(&r, 2));
                        void *ctx = gcm ? guard_alloc(0, "sglctx", sizeof(struct gcm_context_data), 16, PL_END)
                                        : guard_alloc(0, "sglctx", sizeof(struct chacha20_poly1305_context_data), 16, PL_END);
                        if (sigsetjmp(jb, 1)) {
                                char key[200];
                                snprintf(key, sizeof key, "C07|%s|%s-sgl|%s|%s|random", variant_name(mm->variant),
                                         gcm ? "GCM" : "CHACHA20_POLY1305", g_fault.is_write ? "write" : "read", g_fault.kind);
                                ev_violation("C07", key, "fault during random partition", item_describe(IT));
                                mm = mm_new(cfg);
                                continue;
                        }
                        g_fault_jmp = &jb;
                        for (int iface = 0; iface < 3; iface++)
                                run_partition(mm, gcm, iface, &p, ctx);
                        if (ng && total < 66000) {
                                run_gmac(mm, gmacs[rng_below(&r, (uint32_t) ng)], rng_u64(&r), total, &p);
                        }
                        g_fault_jmp = NULL;
                        cov_hit("C10", "%s|%s|random|nseg%d|total%s", variant_name(mm->variant), algs[ai]->name, p.n,
                                total < 64 ? "<64" : total < 1024 ? "<1k" : total < 16384 ? "<16k" : ">=16k");
                }
                mm_free(mm);
        }
        g_job_done = NULL;
        cov_count("partitions_checked", n_parts);
        cov_count("segment_calls", n_calls);
        return 0;
}
