/* Engine "selftest" (C20): a recording self-test callback captures the event stream of every
 * init; each KAT is corrupted alone (exhaustive), in pairs and in random subsets, on every
 * (init function, flags) configuration. */
#include "imbv.h"

#define MAXE 128
struct stream {
        int n;                 /* number of START events */
        char type[MAXE][24];
        char descr[MAXE][48];
        int result[MAXE];      /* 1 pass, 0 fail, -1 none */
        int corrupt_asked[MAXE];
        int malformed;         /* events out of order */
        uint8_t corrupt[MAXE]; /* in: which entries to corrupt */
        int cur;
        int phase; /* 0 idle, 1 after START, 2 after CORRUPT */
};
static struct stream S;
static IMB_MGR *g_other; /* a second, cleanly initialised manager */

static int
st_cb(void *arg, const IMB_SELF_TEST_CALLBACK_DATA *d)
{
        struct stream *s = arg;
        if (!d || !d->phase) {
                s->malformed++;
                return 1;
        }
        if (!strcmp(d->phase, IMB_SELF_TEST_PHASE_START)) {
                if (s->phase != 0)
                        s->malformed++;
                if (s->n < MAXE) {
                        s->cur = s->n++;
                        snprintf(s->type[s->cur], sizeof s->type[0], "%s", d->type ? d->type : "");
                        snprintf(s->descr[s->cur], sizeof s->descr[0], "%s", d->descr ? d->descr : "");
                        s->result[s->cur] = -1;
                        s->corrupt_asked[s->cur] = 0;
                }
                s->phase = 1;
                return 1;
        }
        if (!strcmp(d->phase, IMB_SELF_TEST_PHASE_CORRUPT)) {
                if (s->phase != 1)
                        s->malformed++;
                s->phase = 2;
                s->corrupt_asked[s->cur]++;
                return s->corrupt[s->cur] ? 0 : 1;
        }
        if (!strcmp(d->phase, IMB_SELF_TEST_PHASE_PASS) || !strcmp(d->phase, IMB_SELF_TEST_PHASE_FAIL)) {
                if (s->phase == 0)
                        s->malformed++;
                s->result[s->cur] = !strcmp(d->phase, IMB_SELF_TEST_PHASE_PASS);
                s->phase = 0;
                return 1;
        }
        s->malformed++;
        return 1;
}

static void
run_init(IMB_MGR *m, int arch, const uint8_t *corrupt)
{
        memset(&S, 0, sizeof S);
        if (corrupt)
                memcpy(S.corrupt, corrupt, MAXE);
        mcall("imb_self_test_set_cb", (void *) imb_self_test_set_cb, 3, (uint64_t) m, (uint64_t) st_cb, (uint64_t) &S);
        mm_init_arch(m, arch);
}

static void
viol(int cfg, const char *what, const char *detail)
{
        char key[200];
        snprintf(key, sizeof key, "C20|%s|%s", g_cfgs[cfg].name, what);
        ev_violation("C20", key, detail, NULL);
}

static int
check_outcome(IMB_MGR *m, int cfg, const uint8_t *corrupt, int nbase, const char *ctx)
{
        char det[400];
        int anyc = 0, bad = 0;
        if (S.n != nbase) {
                snprintf(det, sizeof det, "%s: %d START events, baseline run had %d", ctx, S.n, nbase);
                viol(cfg, "event-count", det);
                bad++;
        }
        if (S.malformed) {
                snprintf(det, sizeof det, "%s: %d out-of-order callback events", ctx, S.malformed);
                viol(cfg, "event-order", det);
                bad++;
        }
        for (int i = 0; i < S.n && i < MAXE; i++) {
                int c = corrupt ? corrupt[i] : 0;
                anyc |= c;
                if (S.corrupt_asked[i] != 1) {
                        snprintf(det, sizeof det, "%s: entry %d (%s) got %d CORRUPT callbacks", ctx, i, S.descr[i],
                                 S.corrupt_asked[i]);
                        viol(cfg, "corrupt-callback-count", det);
                        bad++;
                }
                if (S.result[i] != (c ? 0 : 1)) {
                        char key[120];
                        snprintf(key, sizeof key, "%s|%s", c ? "corrupted-but-pass" : "fail-without-corruption",
                                 S.descr[i]);
                        snprintf(det, sizeof det, "%s: entry %d %s/%s reported %s, expected %s", ctx, i, S.type[i],
                                 S.descr[i], S.result[i] == 1 ? "PASS" : S.result[i] == 0 ? "FAIL" : "nothing",
                                 c ? "FAIL" : "PASS");
                        viol(cfg, key, det);
                        bad++;
                }
        }
        int passbit = (m->features & IMB_FEATURE_SELF_TEST_PASS) != 0;
        int present = (m->features & IMB_FEATURE_SELF_TEST) != 0;
        int err = imb_get_errno(m);
        if (!present) {
                viol(cfg, "feature-bit-missing", "IMB_FEATURE_SELF_TEST not reported after init");
                bad++;
        }
        if (anyc) {
                if (passbit) {
                        snprintf(det, sizeof det, "%s: pass bit set although a corrupted test ran", ctx);
                        viol(cfg, "pass-bit-set-after-failure", det);
                        bad++;
                }
                if (err != IMB_ERR_SELFTEST) {
                        snprintf(det, sizeof det, "%s: errno %d after failed self-test, expected IMB_ERR_SELFTEST", ctx,
                                 err);
                        viol(cfg, "errno-after-failure", det);
                        bad++;
                }
                /* the error belongs to this manager: a successful call on another manager (which resets the
                 * process-wide error mirror) must not make it disappear */
                if (g_other) {
                        static IMB_JOB oj;
                        memset(&oj, 0, sizeof oj);
                        oj.cipher_mode = IMB_CIPHER_CBC;
                        oj.hash_alg = IMB_AUTH_NULL;
                        oj.cipher_direction = IMB_DIR_ENCRYPT;
                        oj.key_len_in_bytes = 16;
                        mcall("imb_set_session", (void *) imb_set_session, 2, (uint64_t) g_other, (uint64_t) &oj);
                        int err2 = imb_get_errno(m);
                        if (err == IMB_ERR_SELFTEST && err2 != IMB_ERR_SELFTEST) {
                                snprintf(det, sizeof det,
                                         "%s: errno of the failed manager reads %d after a successful call on a second "
                                         "manager (manager field imb_errno=%d), expected IMB_ERR_SELFTEST",
                                         ctx, err2, m->imb_errno);
                                viol(cfg, "errno-lost-after-other-manager-call", det);
                                bad++;
                        }
                        cov_count("errno_persistence_checks", 1);
                }
        } else {
                if (!passbit) {
                        snprintf(det, sizeof det, "%s: pass bit clear without corruption", ctx);
                        viol(cfg, "pass-bit-clear", det);
                        bad++;
                }
                if (err != 0) {
                        snprintf(det, sizeof det, "%s: errno %d after clean init", ctx, err);
                        viol(cfg, "errno-after-pass", det);
                        bad++;
                }
        }
        return bad;
}

int
eng_selftest(void)
{
        static const char *families[] = { "CBC", "CTR", "ECB", "CFB", "DES",  "GMAC",   "CMAC",   "SHA1",
                                          "SHA224", "SHA256", "SHA384", "SHA512", "HMAC", "GCM", "CCM" };
        long unit = 0;
        uint64_t inits = 0;
        for (int cfg = 0; cfg < NCFG; cfg++) {
                if (g_opt.cfg_only >= 0 && cfg != g_opt.cfg_only)
                        continue;
                if (g_cfg_variant[cfg] < 0)
                        continue;
                if (unit++ % g_opt.nshards != g_opt.shard)
                        continue;
                struct rng r;
                rng_seed(&r, g_opt.seed * 131 + (uint64_t) cfg);
                IMB_MGR *m = (IMB_MGR *) mcall("alloc_mb_mgr", (void *) alloc_mb_mgr, 1, g_cfgs[cfg].flags);
                g_cm->cur_variant = g_cfg_variant[cfg];
                uint8_t corrupt[MAXE];
                char det[300];
                g_other = (IMB_MGR *) mcall("alloc_mb_mgr", (void *) alloc_mb_mgr, 1, g_cfgs[cfg].flags);
                if (g_other)
                        mm_init_arch(g_other, g_cfgs[cfg].arch);
                /* (1) baseline */
                run_init(m, g_cfgs[cfg].arch, NULL);
                inits++;
                int n = S.n;
                check_outcome(m, cfg, NULL, n, "clean init");
                if (n < 20) {
                        snprintf(det, sizeof det, "only %d self-test entries announced", n);
                        viol(cfg, "too-few-entries", det);
                }
                for (unsigned f = 0; f < ARRAY_SZ(families); f++) {
                        int found = 0;
                        for (int i = 0; i < n; i++)
                                if (strstr(S.descr[i], families[f]))
                                        found = 1;
                                else if (!strncmp(families[f], "SHA", 3) && strlen(families[f]) == 6) {
                                        char alt[16];
                                        snprintf(alt, sizeof alt, "SHA2-%s", families[f] + 3);
                                        if (strstr(S.descr[i], alt))
                                                found = 1;
                                }
                        if (!found) {
                                snprintf(det, sizeof det, "documented algorithm family %s not announced by any callback",
                                         families[f]);
                                char w[64];
                                snprintf(w, sizeof w, "family-missing|%s", families[f]);
                                viol(cfg, w, det);
                        }
                }
                static char names[MAXE][48];
                for (int i = 0; i < n; i++)
                        snprintf(names[i], sizeof names[i], "%s", S.descr[i]);
                {
                        char list[2048] = "";
                        for (int i = 0; i < n; i++) {
                                strcat(list, i ? "," : "");
                                strcat(list, names[i]);
                        }
                        cov_sample("C20", "%s entries=%d: %s", g_cfgs[cfg].name, n, list);
                        /* compared with the pinned entry list by the driver (vlib/plans.py _selftest_post) */
                        ev_printf("{\"ev\":\"selftest_entries\",\"cfg\":\"%s\",\"names\":\"%s\"}", g_cfgs[cfg].name, list);
                }
                cov_hit("C20", "%s|clean", g_cfgs[cfg].name);
                /* (2) each entry alone -- exhaustive */
                for (int i = 0; i < n; i++) {
                        memset(corrupt, 0, sizeof corrupt);
                        corrupt[i] = 1;
                        run_init(m, g_cfgs[cfg].arch, corrupt);
                        inits++;
                        snprintf(det, sizeof det, "single corruption of entry %d (%s)", i, names[i]);
                        check_outcome(m, cfg, corrupt, n, det);
                        cov_hit("C20", "%s|single|%d|%s", g_cfgs[cfg].name, i, names[i]);
                }
                /* (3) all pairs (thorough) or a rotating sample (quick) + random subsets */
                for (int i = 0; i < n; i++)
                        for (int j = i + 1; j < n; j++) {
                                if (!g_opt.tier && ((i * 31 + j + cfg) % 6) != 0)
                                        continue;
                                memset(corrupt, 0, sizeof corrupt);
                                corrupt[i] = corrupt[j] = 1;
                                run_init(m, g_cfgs[cfg].arch, corrupt);
                                inits++;
                                snprintf(det, sizeof det, "pair corruption %d+%d", i, j);
                                check_outcome(m, cfg, corrupt, n, det);
                                cov_hit("C20", "%s|pair|%d|%d", g_cfgs[cfg].name, i, j);
                        }
                long nsub = g_opt.tier ? g_opt.cases : g_opt.cases / 10 + 20;
                for (long k = 0; k < nsub; k++) {
                        unsigned dens = 1 + rng_below(&r, 6);
                        uint64_t sig = 0;
                        for (int i = 0; i < n; i++) {
                                corrupt[i] = rng_below(&r, 8) < dens;
                                sig = sig * 3 + corrupt[i];
                        }
                        run_init(m, g_cfgs[cfg].arch, corrupt);
                        inits++;
                        check_outcome(m, cfg, corrupt, n, "random subset");
                        cov_hit("C20", "%s|subset|%llx", g_cfgs[cfg].name, (unsigned long long) sig);
                }
                /* (3b) a used manager: every ring slot is left holding descriptor garbage by rejected jobs (the caller owns
                 * the descriptor contents), then a clean re-init must run and pass every KAT again */
                for (int pat = 0; pat < 2; pat++) {
                        run_init(m, g_cfgs[cfg].arch, NULL);
                        inits++;
                        for (int i = 0; i < IMB_MAX_JOBS + 3; i++) {
                                IMB_JOB *gj = (IMB_JOB *) mcall("get_next_job", (void *) m->get_next_job, 1, (uint64_t) m);
                                const IMB_STATUS st = gj->status;
                                memset(gj, pat ? 0xA5 : 0x7f, sizeof *gj);
                                gj->status = st;
                                mcall("submit_job", (void *) m->submit_job, 1, (uint64_t) m);
                                while (mcall("get_completed_job", (void *) m->get_completed_job, 1, (uint64_t) m))
                                        ;
                        }
                        while (mcall("flush_job", (void *) m->flush_job, 1, (uint64_t) m))
                                ;
                        run_init(m, g_cfgs[cfg].arch, NULL);
                        inits++;
                        snprintf(det, sizeof det, "clean re-init of a used manager (ring slots filled with 0x%02x by rejected jobs)",
                                 pat ? 0xA5 : 0x7f);
                        check_outcome(m, cfg, NULL, n, det);
                        /* and a single corruption is still detected there */
                        memset(corrupt, 0, sizeof corrupt);
                        corrupt[rng_below(&r, (uint32_t) n)] = 1;
                        run_init(m, g_cfgs[cfg].arch, corrupt);
                        inits++;
                        check_outcome(m, cfg, corrupt, n, "single corruption on a used manager");
                        cov_hit("C20", "%s|used-manager|%d", g_cfgs[cfg].name, pat);
                }
                /* (4) clean re-init passes again; and a manager without callback behaves the same */
                run_init(m, g_cfgs[cfg].arch, NULL);
                inits++;
                check_outcome(m, cfg, NULL, n, "clean re-init after failures");
                mcall("imb_self_test_set_cb", (void *) imb_self_test_set_cb, 3, (uint64_t) m, (uint64_t) 0, (uint64_t) 0);
                mm_init_arch(m, g_cfgs[cfg].arch);
                if (!(m->features & IMB_FEATURE_SELF_TEST_PASS) || imb_get_errno(m))
                        viol(cfg, "no-callback-init", "init without callback does not report a passed self-test");
                mcall("free_mb_mgr", (void *) free_mb_mgr, 1, (uint64_t) m);
                if (g_other)
                        mcall("free_mb_mgr", (void *) free_mb_mgr, 1, (uint64_t) g_other);
                g_other = NULL;
                cov_count("selftest_entries", (uint64_t) n);
        }
        cov_count("inits", inits);
        return 0;
}
