/* Engine "reinit" (C15): a random history H1 is cut after a sampled prefix (jobs still in flight),
 * the manager is re-initialised with init_mb_mgr_X of any configuration, must then be empty, and a
 * follow-up history H2 must produce call by call the same API trace (which job came back at which
 * call, status, queue size, outputs) as on a freshly allocated manager of the new configuration. */
#include "imbv.h"

#define H1MAX 40
#define H2MAX 40
static struct item *A[H1MAX], *Bq[2][H2MAX];

struct trace {
        int n;
        int ret[400];    /* item index returned by call i, -1 none, -2 = n/a */
        int qsz[400];
        uint64_t outh[H2MAX];
};

static struct trace *cur_tr;
static struct item **cur_items;
static int cur_nitems;
static int last_ret;

static uint64_t
fnv1(uint64_t h, const void *p, size_t n)
{
        const uint8_t *b = p;
        for (size_t i = 0; i < n; i++)
                h = (h ^ b[i]) * 0x100000001b3ULL;
        return h;
}

static void
h2_done(struct mmgr *mm, IMB_JOB *job, void *arg)
{
        struct item *it = job->user_data;
        (void) arg;
        for (int i = 0; i < cur_nitems; i++)
                if (cur_items[i] == it) {
                        uint64_t h = 0xcbf29ce484222325ULL;
                        item_check(it, job, "C15", mm, "after re-init");
                        h = item_output_hash(it);
                        cur_tr->outh[i] = h ^ (uint64_t) job->status;
                        last_ret = i;
                        return;
                }
        last_ret = -3; /* a job that does not belong to H2: residue of H1 */
        ev_violation("C15", "C15|stale-job-returned", "a job submitted before re-initialisation was handed back afterwards", NULL);
}
static void
h1_done(struct mmgr *mm, IMB_JOB *job, void *arg)
{
        (void) mm;
        (void) job;
        (void) arg;
}

static const struct suite *
pick_parking(struct rng *r, int *is_hash)
{
        static const char *cn[] = { "aes-cbc-128", "aes-cbc-192", "aes-cbc-256", "aes-cfb-128", "aes-cbcs-128", "docsis-sec-128",
                                    "docsis-sec-256", "des-cbc", "3des-cbc", "docsis-des", "zuc-eea3-128", "zuc-eea3-256", "snow3g-uea2",
                                    "aes-ctr-128", "chacha20" };
        static const char *hn[] = { "hmac-sha1", "hmac-sha224", "hmac-sha256", "hmac-sha384", "hmac-sha512", "hmac-md5", "sha1", "sha256",
                                    "sha512", "aes-xcbc", "aes-cmac", "aes-cmac-256", "zuc-eia3", "zuc256-eia3", "snow3g-uia2" };
        if (rng_below(r, 2)) {
                const char *n = cn[rng_below(r, ARRAY_SZ(cn))];
                *is_hash = 0;
                for (int i = 0; i < g_n_cipher_suites; i++)
                        if (!strcmp(g_cipher_suites[i].name, n))
                                return &g_cipher_suites[i];
        }
        const char *n = hn[rng_below(r, ARRAY_SZ(hn))];
        *is_hash = 1;
        for (int i = 0; i < g_n_hash_suites; i++)
                if (!strcmp(g_hash_suites[i].name, n))
                        return &g_hash_suites[i];
        return &g_hash_suites[0];
}

/* H2: deterministic follow-up history; slots start at slot0 */
static void
run_h2(struct mmgr *mm, uint64_t seed, struct item **items, int slot0, struct trace *tr)
{
        struct rng r;
        rng_seed(&r, seed);
        int n = 12 + (int) rng_below(&r, H2MAX - 12);
        memset(tr, 0, sizeof *tr);
        cur_tr = tr;
        cur_items = items;
        cur_nitems = n;
        g_job_done = h2_done;
        for (int i = 0; i < n; i++) {
                struct genopt g;
                int is_hash;
                const struct suite *s = pick_parking(&r, &is_hash);
                genopt_default(&g);
                g.slot = slot0 + i;
                g.pl = PL_PLAIN;
                g.dir = IMB_DIR_ENCRYPT;
                g.len = 16 * (1 + (long) rng_below(&r, 8));
                if (rng_below(&r, 3)) {
                        /* one suite per out-of-order manager of the library, with the direction that parks */
                        const struct suite *ocs, *ohs;
                        int odir;
                        item_pick_ooo(&r, &ocs, &ohs, &odir);
                        g.dir = odir;
                        item_gen(items[i], ocs, ohs, &r, &g, mm);
                        goto generated;
                }
                if (rng_below(&r, 4) == 0) {
                        int ih2;
                        const struct suite *s2 = pick_parking(&r, &ih2);
                        if (ih2 != is_hash) {
                                item_gen(items[i], is_hash ? s2 : s, is_hash ? s : s2, &r, &g, mm);
                                goto generated;
                        }
                }
                item_gen(items[i], is_hash ? NULL : s, is_hash ? s : NULL, &r, &g, mm);
        generated:
                item_expect(items[i]);
        }
        int c = 0;
        for (int i = 0; i < n && c < 380; i++) {
                IMB_JOB *j = mm_get_next_job(mm);
                item_fill_job(items[i], j);
                last_ret = -1;
                mm_submit_job(mm, 0, 0);
                tr->ret[c] = last_ret;
                tr->qsz[c++] = (int) mm_queue_size(mm);
                if (rng_below(&r, 5) == 0) {
                        last_ret = -1;
                        mm_get_completed_job(mm);
                        tr->ret[c] = last_ret;
                        tr->qsz[c++] = (int) mm_queue_size(mm);
                }
                if (rng_below(&r, 9) == 0) {
                        last_ret = -1;
                        mm_flush_job(mm);
                        tr->ret[c] = last_ret;
                        tr->qsz[c++] = (int) mm_queue_size(mm);
                }
        }
        for (;;) {
                last_ret = -1;
                if (!mm_flush_job(mm) || c >= 399)
                        break;
                tr->ret[c] = last_ret;
                tr->qsz[c++] = (int) mm_queue_size(mm);
        }
        tr->n = c;
        g_job_done = NULL;
}

int
eng_reinit(void)
{
        guard_init(H1MAX + 2 * H2MAX + 1);
        for (int i = 0; i < H1MAX; i++)
                A[i] = item_new();
        for (int k = 0; k < 2; k++)
                for (int i = 0; i < H2MAX; i++)
                        Bq[k][i] = item_new();
        static struct trace t_re, t_fresh;
        uint64_t n_reinits = 0, n_inflight = 0;
        for (long u = g_opt.shard; u < g_opt.cases; u += g_opt.nshards) {
                struct rng r;
                rng_seed(&r, g_opt.seed * 6007 + (uint64_t) u);
                g_case_no = u;
                int c1, c2;
                do {
                        c1 = (int) rng_below(&r, NCFG);
                } while (g_cfg_variant[c1] < 0);
                /* flags are fixed by alloc_mb_mgr(): only the init function can change on re-init */
                do {
                        c2 = (int) rng_below(&r, 4) * 4 + (c1 & 3);
                } while (g_cfg_variant[c2] < 0);
                /* ... unless the flags are replaced through imb_set_pointers_mb_mgr(mgr, flags, 0) before the init call
                 * (one history in three): then any configuration may follow */
                const int reflag = rng_below(&r, 3) == 0;
                if (reflag)
                        do {
                                c2 = (int) rng_below(&r, NCFG);
                        } while (g_cfg_variant[c2] < 0);
                struct mmgr *mm = mm_new(c1);
                if (!mm)
                        continue;
                /* ---- H1 up to a random prefix: jobs are left in flight */
                int n1 = 1 + (int) rng_below(&r, H1MAX - 1);
                static struct {
                        uint32_t id;
                        IMB_JOB tmpl;
                } sess[H1MAX];
                int n_sess = 0;
                int burst_h1 = (int) rng_below(&r, 4) == 0;
                g_job_done = h1_done;
                for (int i = 0; i < n1; i++) {
                        struct genopt g;
                        int is_hash;
                        const struct suite *s = pick_parking(&r, &is_hash);
                        genopt_default(&g);
                        g.slot = i;
                        g.pl = PL_PLAIN;
                        g.len = 16 * (1 + (long) rng_below(&r, 20));
                        if (rng_below(&r, 3)) {
                                const struct suite *ocs, *ohs;
                                int odir;
                                item_pick_ooo(&r, &ocs, &ohs, &odir);
                                g.dir = odir;
                                item_gen(A[i], ocs, ohs, &r, &g, mm);
                        } else
                                item_gen(A[i], is_hash ? NULL : s, is_hash ? s : NULL, &r, &g, mm);
                        if (burst_h1) {
                                IMB_JOB *bj[1];
                                if (mm_get_next_burst(mm, 1, bj) != 1)
                                        break;
                                item_fill_job(A[i], bj[0]);
                                uint32_t sid = (uint32_t) mcall("imb_set_session", (void *) imb_set_session, 2, (uint64_t) mm->m, (uint64_t) bj[0]);
                                if (sid && n_sess < H1MAX) {
                                        sess[n_sess].id = sid;
                                        sess[n_sess++].tmpl = *bj[0];
                                }
                                mm_submit_burst(mm, 1, bj, 0, 0);
                        } else {
                                IMB_JOB *j = mm_get_next_job(mm);
                                item_fill_job(A[i], j);
                                mm_submit_job(mm, 0, 0);
                                if (rng_below(&r, 6) == 0)
                                        mm_flush_job(mm);
                        }
                }
                g_job_done = NULL;
                int inflight = mm->count;
                n_inflight += (uint64_t) inflight;
                /* ---- re-initialise in place (possibly to another variant) */
                if (reflag) {
                        mcall("imb_set_pointers_mb_mgr", (void *) imb_set_pointers_mb_mgr, 3, (uint64_t) mm->m, (uint64_t) g_cfgs[c2].flags,
                              (uint64_t) 0);
                        cov_hit("C15", "reflag|%s|%s", g_cfgs[c1].name, g_cfgs[c2].name);
                }
                mm_reinit(mm, c2);
                n_reinits++;
                char key[200], det[300];
                const char *pair = "";
                char pairb[80];
                snprintf(pairb, sizeof pairb, "%s->%s", g_cfgs[c1].name, g_cfgs[c2].name);
                pair = pairb;
                int err = imb_get_errno(mm->m);
                if (err != 0 || !(mm->m->features & IMB_FEATURE_SELF_TEST_PASS)) {
                        snprintf(key, sizeof key, "C15|%s|init-status", g_cfgs[c2].name);
                        snprintf(det, sizeof det, "re-init %s with %d jobs in flight: errno %d, pass bit %d", pair, inflight, err,
                                 (mm->m->features & IMB_FEATURE_SELF_TEST_PASS) != 0);
                        ev_violation("C15", key, det, NULL);
                }
                if (mm->variant != g_cfg_variant[c2]) {
                        snprintf(key, sizeof key, "C15|%s|wrong-variant", g_cfgs[c2].name);
                        snprintf(det, sizeof det, "re-init %s selected %s, a fresh manager selects %s", pair, variant_name(mm->variant),
                                 variant_name(g_cfg_variant[c2]));
                        ev_violation("C15", key, det, NULL);
                }
                /* the documented imb_set_session() contract must survive: a ring slot that still carries a session id handed
                 * out before has its session fields unmodified (the power-up self-test runs through the same ring) */
                for (int s = 0; s < IMB_MAX_JOBS; s++) {
                        const IMB_JOB *j = &mm->m->jobs[s];
                        for (int q = 0; q < n_sess; q++) {
                                const IMB_JOB *t = &sess[q].tmpl;
                                if (j->session_id != sess[q].id)
                                        continue;
                                if (j->cipher_mode != t->cipher_mode || j->cipher_direction != t->cipher_direction || j->hash_alg != t->hash_alg ||
                                    j->key_len_in_bytes != t->key_len_in_bytes || j->enc_keys != t->enc_keys || j->dec_keys != t->dec_keys ||
                                    j->suite_id[0] != t->suite_id[0] || j->suite_id[1] != t->suite_id[1]) {
                                        snprintf(key, sizeof key, "C15|%s|stale-session-id|slot%s", g_cfgs[c2].name, s < 64 ? "<64" : ">=64");
                                        snprintf(det, sizeof det,
                                                 "after re-init %s ring slot %d still carries session id %u (set by imb_set_session for cipher %s hash %s) but "
                                                 "its session fields now read cipher %d hash %d key_len %llu: an application following the session-id "
                                                 "contract would submit the wrong operation",
                                                 pair, s, j->session_id, cipher_name(t->cipher_mode), hash_name(t->hash_alg), (int) j->cipher_mode,
                                                 (int) j->hash_alg, (unsigned long long) j->key_len_in_bytes);
                                        ev_violation("C15", key, det, NULL);
                                        q = n_sess;
                                        s = IMB_MAX_JOBS;
                                }
                                break;
                        }
                }
                cov_count("session_contract_checks", (uint64_t) n_sess);
                /* empty-state observations: mm_* wrappers assert them against the (reset) model */
                mm_queue_size(mm);
                if (mm_flush_job(mm) != NULL || mm_get_completed_job(mm) != NULL) {
                        snprintf(key, sizeof key, "C15|%s|not-empty", g_cfgs[c2].name);
                        snprintf(det, sizeof det, "re-init %s with %d jobs in flight: flush/get_completed returned a job", pair, inflight);
                        ev_violation("C15", key, det, NULL);
                }
                {
                        IMB_JOB *fj[4];
                        mm_flush_burst(mm, 4, fj);
                        mm->burst_mode = 0;
                }
                /* ---- follow-up history on the re-initialised and on a fresh manager */
                uint64_t h2seed = rng_u64(&r);
                struct mmgr *fresh = mm_new(c2);
                run_h2(mm, h2seed, Bq[0], H1MAX, &t_re);
                run_h2(fresh, h2seed, Bq[1], H1MAX + H2MAX, &t_fresh);
                int diff = t_re.n != t_fresh.n ? -2 : -1;
                for (int i = 0; i < t_re.n && diff == -1; i++)
                        if (t_re.ret[i] != t_fresh.ret[i] || t_re.qsz[i] != t_fresh.qsz[i])
                                diff = i;
                int odiff = -1;
                for (int i = 0; i < H2MAX && odiff < 0; i++)
                        if (t_re.outh[i] != t_fresh.outh[i])
                                odiff = i;
                if (diff != -1 || odiff != -1) {
                        snprintf(key, sizeof key, "C15|%s|trace-differs|%s", variant_name(mm->variant), diff != -1 ? "timing" : "output");
                        snprintf(det, sizeof det,
                                 "after re-init %s (%d jobs were in flight, H1 via %s API) the follow-up trace differs from a fresh "
                                 "manager at call %d (returned item %d vs %d, queue %d vs %d); output diff at item %d",
                                 pair, inflight, burst_h1 ? "burst" : "job", diff, diff >= 0 ? t_re.ret[diff] : 0,
                                 diff >= 0 ? t_fresh.ret[diff] : 0, diff >= 0 ? t_re.qsz[diff] : t_re.n, diff >= 0 ? t_fresh.qsz[diff] : t_fresh.n,
                                 odiff);
                        ev_violation("C15", key, det, odiff >= 0 ? item_describe(Bq[0][odiff]) : NULL);
                }
                cov_hit("C15", "%s|%s|inflight%d|burst%d", g_cfgs[c1].name, g_cfgs[c2].name, inflight > 8 ? 9 : inflight, burst_h1);
                cov_count("followup_calls", (uint64_t) t_re.n);
                mm_free(fresh);
                mm_free(mm);
        }
        cov_count("reinits", n_reinits);
        cov_count("jobs_in_flight_at_reinit", n_inflight);
        return 0;
}
