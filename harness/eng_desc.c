/* Engine "desc" (C14): M-DESC and M-ERRNO run inside every engine; this engine adds a template-reuse
 * workload (imb_set_session once, the same descriptor content re-submitted many times through the burst
 * API and the job API) over every suite, direct-API error-code checks, and the imb_get_strerror sweep. */
#include "imbv.h"
#include <limits.h>

static struct item *IT;
static uint64_t n_reuse, n_strerr;

static void
d_done(struct mmgr *mm, IMB_JOB *job, void *arg)
{
        struct item *it = job->user_data;
        (void) arg;
        item_check(it, job, "C14", mm, "template-reuse");
        n_reuse++;
        memcpy(it->src, it->src_orig, it->buf_len); /* ready for the next round */
}

static void
strerror_one(int n)
{
        const char *s = (const char *) mcall("imb_get_strerror", (void *) imb_get_strerror, 1, (uint64_t) (int64_t) n);
        char key[120], det[200];
        n_strerr++;
        if (!s) {
                snprintf(key, sizeof key, "C14|strerror|null");
                snprintf(det, sizeof det, "imb_get_strerror(%d) returned NULL", n);
                ev_violation("C14", key, det, NULL);
                return;
        }
        size_t l = strnlen(s, 512);
        if (l == 0 || l >= 512) {
                snprintf(key, sizeof key, "C14|strerror|bad-string");
                snprintf(det, sizeof det, "imb_get_strerror(%d) returned a string of length %zu", n, l);
                ev_violation("C14", key, det, NULL);
                return;
        }
        if (n > IMB_ERR_MIN && n < IMB_ERR_MAX && (!strncmp(s, "Unknown error", 13))) {
                snprintf(key, sizeof key, "C14|strerror|no-text|%d", n);
                snprintf(det, sizeof det, "library error code %d has no library-specific text: \"%s\"", n, s);
                ev_violation("C14", key, det, NULL);
        }
        if ((n & 0x3ff) == 0 || (n > IMB_ERR_MIN && n < IMB_ERR_MAX))
                cov_hit("C14", "strerror|%s|%s", n > IMB_ERR_MIN && n < IMB_ERR_MAX ? "lib-code" : "other", s);
}

int
eng_desc(void)
{
        const struct suite *tabs[3] = { g_cipher_suites, g_hash_suites, g_aead_suites };
        const int ntabs[3] = { g_n_cipher_suites, g_n_hash_suites, g_n_aead_suites };
        guard_init(2);
        IT = item_new();
        long unit = 0;
        /* ---- strerror sweep (shard 0 does the dense ranges, all shards take random values) */
        {
                struct rng r;
                rng_seed(&r, g_opt.seed * 5 + (uint64_t) g_opt.shard);
                if (g_opt.shard == 0) {
                        for (int n = -70000; n <= 70000; n++)
                                strerror_one(n);
                        for (int b = 0; b < 31; b++) {
                                strerror_one((1 << b) - 1);
                                strerror_one(1 << b);
                                strerror_one((1 << b) + 1);
                                strerror_one(-(1 << b));
                        }
                        strerror_one(INT_MIN);
                        strerror_one(INT_MAX);
                        strerror_one(INT_MIN + 1);
                }
                long nr = (g_opt.tier ? 4000000 : 200000) / g_opt.nshards;
                for (long i = 0; i < nr; i++)
                        strerror_one((int) (uint32_t) rng_u64(&r));
        }
        /* ---- template reuse */
        for (int vi = 0; vi < g_nvariants; vi++) {
                int cfg = g_variant_cfg[vi];
                if (g_opt.cfg_only >= 0 && cfg != g_opt.cfg_only)
                        continue;
                struct mmgr *mmj = mm_new(cfg), *mmb = mm_new(cfg);
                if (!mmj || !mmb)
                        continue;
                for (int fam = 0; fam < 3; fam++)
                        for (int si = 0; si < ntabs[fam]; si++, unit++) {
                                if (unit % g_opt.nshards != g_opt.shard)
                                        continue;
                                struct rng r;
                                struct genopt g;
                                IMB_JOB tmpl;
                                rng_seed(&r, g_opt.seed * 911 + (uint64_t) unit);
                                g_case_no = unit;
                                genopt_default(&g);
                                g.slot = 0;
                                g.pl = PL_PLAIN;
                                item_gen(IT, fam == 1 ? NULL : &tabs[fam][si], fam == 1 ? &tabs[fam][si] : NULL, &r, &g, mmb);
                                item_expect(IT);
                                item_fill_job(IT, &tmpl);
                                tmpl.user_data2 = (void *) 0x1234567887654321ULL;
                                uint32_t sid = (uint32_t) mcall("imb_set_session", (void *) imb_set_session, 2, (uint64_t) mmb->m, (uint64_t) &tmpl);
                                if (sid == 0 || imb_get_errno(mmb->m)) {
                                        char key[160];
                                        snprintf(key, sizeof key, "C14|%s|set_session-failed|%s|%s", variant_name(mmb->variant),
                                                 cipher_name(IT->cipher), hash_name(IT->hash));
                                        ev_violation("C14", key, "imb_set_session failed on a valid template", item_describe(IT));
                                        continue;
                                }
                                g_job_done = d_done;
                                int rounds = g_opt.tier ? 40 : 12;
                                for (int rd = 0; rd < rounds; rd++) {
                                        IMB_JOB *bj[1];
                                        if (rd & 1) {
                                                if (mm_get_next_burst(mmb, 1, bj) != 1)
                                                        break;
                                                *bj[0] = tmpl;
                                                mm_submit_burst(mmb, 1, bj, rd & 2, 0);
                                                IMB_JOB *fj[2];
                                                while (mm_flush_burst(mmb, 2, fj))
                                                        ;
                                        } else {
                                                IMB_JOB *j = mm_get_next_job(mmj);
                                                *j = tmpl;
                                                mm_submit_job(mmj, rd & 2, 0);
                                                while (mm_flush_job(mmj))
                                                        ;
                                        }
                                }
                                g_job_done = NULL;
                                cov_hit("C14", "%s|reuse|%s|%s", variant_name(mmb->variant), cipher_name(IT->cipher), hash_name(IT->hash));
                        }
                /* ---- failing CUSTOM callbacks: the job must come back with exactly IMB_STATUS_INTERNAL_ERROR, whatever the
                 * other stage, the chain order, the API or the completion path */
                if (g_opt.shard == (vi + 3) % g_opt.nshards) {
                        static const char *other_c[] = { NULL, "aes-cbc-128", "aes-ctr-128", "aes-cfb-128", "docsis-sec-128", "des-cbc" };
                        static const char *other_h[] = { NULL, "sha1", "hmac-sha256", "hmac-sha512", "aes-cmac", "crc32-eth" };
                        struct suite ccust = { "custom", IMB_CIPHER_CUSTOM, 16, IMB_AUTH_NULL, 0 };
                        struct suite hcust = { "custom", IMB_CIPHER_NULL, 0, IMB_AUTH_CUSTOM, 0 };
                        for (int which = 0; which < 2; which++) /* 0: cipher callback fails, 1: hash callback fails */
                                for (unsigned o = 0; o < 7; o++)
                                        for (int order = 1; order <= 2; order++)
                                                for (int dir = 1; dir <= 2; dir++)
                                                        for (int api = 0; api < 2; api++) {
                                                                const struct suite *cs = NULL, *hs = NULL;
                                                                struct rng r;
                                                                struct genopt g;
                                                                rng_seed(&r, g_opt.seed * 77 + o * 13 + (unsigned) order * 5 + (unsigned) dir + (unsigned) which * 101);
                                                                if (which == 0) {
                                                                        cs = &ccust;
                                                                        if (o == 6)
                                                                                hs = &hcust; /* both custom, cipher fails */
                                                                        else if (other_h[o])
                                                                                for (int i = 0; i < g_n_hash_suites; i++)
                                                                                        if (!strcmp(g_hash_suites[i].name, other_h[o]))
                                                                                                hs = &g_hash_suites[i];
                                                                } else {
                                                                        hs = &hcust;
                                                                        if (o == 6)
                                                                                cs = &ccust;
                                                                        else if (other_c[o])
                                                                                for (int i = 0; i < g_n_cipher_suites; i++)
                                                                                        if (!strcmp(g_cipher_suites[i].name, other_c[o]))
                                                                                                cs = &g_cipher_suites[i];
                                                                }
                                                                genopt_default(&g);
                                                                g.slot = 0;
                                                                g.pl = PL_PLAIN;
                                                                g.dir = dir;
                                                                g.len = 64;
                                                                g.inplace = 1;
                                                                item_gen(IT, cs, hs, &r, &g, mmj);
                                                                IT->order = (IMB_CHAIN_ORDER) order;
                                                                g_job_done = NULL;
                                                                g_custom_fail = which ? 2 : 1;
                                                                IMB_JOB *rj = NULL;
                                                                if (api == 0) {
                                                                        IMB_JOB *j = mm_get_next_job(mmj);
                                                                        item_fill_job(IT, j);
                                                                        rj = mm_submit_job(mmj, 0, -3);
                                                                        if (!rj)
                                                                                rj = mm_flush_job(mmj);
                                                                } else {
                                                                        IMB_JOB *bj[1], *fj[2];
                                                                        if (mm_get_next_burst(mmb, 1, bj) == 1) {
                                                                                item_fill_job(IT, bj[0]);
                                                                                mcall("imb_set_session", (void *) imb_set_session, 2, (uint64_t) mmb->m, (uint64_t) bj[0]);
                                                                                if (mm_submit_burst(mmb, 1, bj, 0, -3) == 1)
                                                                                        rj = bj[0];
                                                                                else if (mm_flush_burst(mmb, 2, fj) >= 1)
                                                                                        rj = fj[0];
                                                                        }
                                                                }
                                                                g_custom_fail = 0;
                                                                cov_count("custom_failure_jobs", 1);
                                                                if (!rj || rj->status != IMB_STATUS_INTERNAL_ERROR) {
                                                                        char key[200], det[240];
                                                                        snprintf(key, sizeof key, "C14|%s|custom-%s-fails|%s|%s|order%d|status%d", variant_name(mmj->variant),
                                                                                 which ? "hash" : "cipher", cipher_name(IT->cipher), hash_name(IT->hash), order,
                                                                                 rj ? (int) rj->status : -1);
                                                                        snprintf(det, sizeof det,
                                                                                 "job whose CUSTOM %s callback reported failure came back with status %d instead of "
                                                                                 "IMB_STATUS_INTERNAL_ERROR (%d) via the %s API",
                                                                                 which ? "hash" : "cipher", rj ? (int) rj->status : -1, (int) IMB_STATUS_INTERNAL_ERROR,
                                                                                 api ? "burst" : "job");
                                                                        ev_violation("C14", key, det, NULL);
                                                                }
                                                                while (mm_flush_job(mmj))
                                                                        ;
                                                                cov_hit("C14", "%s|custom-fail%d|%s|%s|o%d|api%d", variant_name(mmj->variant), which, cipher_name(IT->cipher),
                                                                        hash_name(IT->hash), order, api);
                                                        }
                }
                /* ---- manager-less direct functions: error code after failure / success */
                if (g_opt.shard == vi % g_opt.nshards) {
                        IMB_MGR *m = mmj->m;
                        static DECLARE_ALIGNED(uint8_t k[32], 16);
                        static DECLARE_ALIGNED(uint8_t e[240], 16);
                        static DECLARE_ALIGNED(uint8_t d[240], 16);
                        struct {
                                const char *name;
                                void *fn;
                                uint64_t a[3];
                                int expect;
                        } calls[] = {
                                { "keyexp_128(NULL key)", (void *) m->keyexp_128, { 0, (uint64_t) e, (uint64_t) d }, IMB_ERR_NULL_KEY },
                                { "keyexp_128(ok)", (void *) m->keyexp_128, { (uint64_t) k, (uint64_t) e, (uint64_t) d }, 0 },
                                { "keyexp_256(NULL enc)", (void *) m->keyexp_256, { (uint64_t) k, 0, (uint64_t) d }, IMB_ERR_NULL_EXP_KEY },
                                { "keyexp_256(ok)", (void *) m->keyexp_256, { (uint64_t) k, (uint64_t) e, (uint64_t) d }, 0 },
                                { "sm4_keyexp(NULL)", (void *) m->sm4_keyexp, { 0, (uint64_t) e, (uint64_t) d }, IMB_ERR_NULL_KEY },
                                { "sm4_keyexp(ok)", (void *) m->sm4_keyexp, { (uint64_t) k, (uint64_t) e, (uint64_t) d }, 0 },
                        };
                        for (unsigned i = 0; i < ARRAY_SZ(calls); i++) {
                                /* bring the manager's own code to 0 first */
                                mm_queue_size(mmj);
                                mcall(calls[i].name, calls[i].fn, 3, calls[i].a[0], calls[i].a[1], calls[i].a[2]);
                                int err = imb_get_errno(m);
                                if (err != calls[i].expect) {
                                        char key[160], det[200];
                                        snprintf(key, sizeof key, "C14|%s|direct-errno|%s|got%d", variant_name(mmj->variant), calls[i].name, err);
                                        snprintf(det, sizeof det, "after %s the error code is %d, expected %d", calls[i].name, err, calls[i].expect);
                                        ev_violation("C14", key, det, NULL);
                                }
                                cov_hit("C14", "%s|direct|%s", variant_name(mmj->variant), calls[i].name);
                        }
                }
                mm_free(mmj);
                mm_free(mmb);
        }
        cov_count("template_reuse_jobs", n_reuse);
        cov_count("strerror_calls", n_strerr);
        return 0;
}
