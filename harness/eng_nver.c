/* Engine "nver" (C08): N-version differential. The same seeded stream of valid and invalid work
 * items is executed on a manager of every (init function, flags) configuration; output bytes,
 * tags, statuses and error codes must be pairwise identical (and equal the reference); data
 * encrypted on configuration A is decrypted on configuration B; with the CPU-feature masking hook
 * the library is run as older CPUs and must refuse unsupported variants cleanly. */
#include "imbv.h"

static struct item *IT, *IT2;
static IMB_JOB *ret_job;
static void
nv_done(struct mmgr *mm, IMB_JOB *job, void *arg)
{
        (void) mm;
        (void) arg;
        ret_job = job;
}

static uint64_t
fnv1(uint64_t h, const void *p, size_t n)
{
        const uint8_t *b = p;
        for (size_t i = 0; i < n; i++)
                h = (h ^ b[i]) * 0x100000001b3ULL;
        return h;
}

struct fp {
        uint64_t h;
        int status, err;
        int refbad; /* result differed from the reference model (reported by item_check) */
};

static struct mmgr *MM[NCFG];

/* run item number u (valid, or with catalogue entry pidx applied) on cfg; returns fingerprint */
static int
run_one(int cfg, uint64_t u, const struct suite *cs, const struct suite *hs, int pidx, struct fp *out, char *pname,
        int dir_force, const uint8_t *replace_src, uint8_t *save_out, uint8_t *save_tag)
{
        struct rng r;
        struct genopt g;
        struct mmgr *mm = MM[cfg];
        sigjmp_buf jb;
        const void *des3_tmp[3];
        struct pert p;
        rng_seed(&r, g_opt.seed * 8887 + u * 3);
        genopt_default(&g);
        g.slot = 0;
        g.pl = (u & 1) ? PL_START : PL_END;
        g.dir = dir_force;
        if (u % 6 == 5) {
                /* long messages: kernel main loops, counter-byte carries beyond 4 KiB, 16-bit length limits */
                static const long big[] = { 497, 511, 512, 513, 1023, 1024, 1025, 2047, 2049, 4064, 4065, 4080, 4095, 4096, 4097,
                                            4208, 8191, 8193, 16384, 16496, 32768, 65519 };
                g.len = rng_below(&r, 2) ? big[rng_below(&r, ARRAY_SZ(big))] : 300 + (long) rng_below(&r, 6000);
        }
        item_gen(IT, cs, hs, &r, &g, mm);
        if (replace_src) {
                memcpy(IT->src_orig + IT->c_off, replace_src, IT->c_len);
                memcpy(IT->src, IT->src_orig, IT->buf_len);
        }
        item_expect(IT);
        memset(&p, 0, sizeof p);
        ret_job = NULL;
        g_job_done = nv_done;
        if (sigsetjmp(jb, 1)) {
                char key[200], det[300];
                snprintf(key, sizeof key, "C08|%s|fault|%s|%s", g_cfgs[cfg].name, cipher_name(IT->cipher), hash_name(IT->hash));
                snprintf(det, sizeof det, "fault (%s of %s object) on configuration %s: %s", g_fault.is_write ? "write" : "read",
                         g_fault.kind, g_cfgs[cfg].name, g_fault.ripsym);
                ev_violation("C08", key, det, item_describe(IT));
                g_job_done = NULL;
                MM[cfg] = mm_new(cfg);
                return -1;
        }
        g_fault_jmp = &jb;
        IMB_JOB *j = mm_get_next_job(mm);
        item_fill_job(IT, j);
        int valid = 1;
        if (pidx >= 0) {
                if (!imbv_perturb(IT, pidx, j, &p, des3_tmp)) {
                        g_fault_jmp = NULL;
                        /* give the slot back by submitting the valid job */
                        item_fill_job(IT, j);
                        pidx = -1;
                } else
                        valid = p.expect_valid;
        }
        if (pname)
                snprintf(pname, 64, "%s", pidx >= 0 ? p.name : "valid");
        mm_submit_job(mm, 0, valid ? 0 : -1);
        out->err = imb_get_errno(mm->m);
        while (mm_flush_job(mm))
                ;
        g_fault_jmp = NULL;
        g_job_done = NULL;
        out->status = ret_job ? (int) ret_job->status : -1;
        out->refbad = 0;
        uint64_t h = 0xcbf29ce484222325ULL;
        if (valid && ret_job && ret_job->status == IMB_STATUS_COMPLETED) {
                /* a result that differs from the reference is reported by item_check under the item's own identity;
                 * the cross-configuration comparison then adds nothing (and would hide that identity) */
                out->refbad = item_check(IT, ret_job, "C08", mm, g_cfgs[cfg].name) != 0;
                if (IT->cipher != IMB_CIPHER_NULL) {
                        const uint8_t *o = IT->inplace ? IT->src + IT->c_off : IT->dst;
                        if (save_out)
                                memcpy(save_out, o, IT->dst_len);
                }
                if (IT->tag_len && save_tag)
                        memcpy(save_tag, IT->tag, IT->tag_len);
                /* specified output bytes only (see item_output_hash) plus the whole source image */
                uint64_t oh = item_output_hash(IT);
                h = fnv1(h, &oh, sizeof oh);
                h = fnv1(h, IT->src, IT->buf_len);
        }
        out->h = h;
        return 0;
}

/* ---- batches: n items of one suite submitted back to back (lanes fill up, jobs complete inside submit) on every
 * configuration; per-item status and output fingerprints must agree across configurations */
#define NB 24
static struct item *BI[NB];
static int b_done[NB], b_status[NB];
static uint64_t b_hash[NB];
static int b_refbad[NB];
static int b_n;
static const char *b_cfgname;
static void
nvb_done(struct mmgr *mm, IMB_JOB *job, void *arg)
{
        struct item *it = job->user_data;
        (void) arg;
        for (int i = 0; i < b_n; i++)
                if (BI[i] == it) {
                        b_done[i]++;
                        b_status[i] = (int) job->status;
                        b_refbad[i] = job->status == IMB_STATUS_COMPLETED ? item_check(it, job, "C08", mm, b_cfgname) != 0 : 0;
                        b_hash[i] = item_output_hash(it);
                        return;
                }
}
static int
run_batch_cfg(int cfg, uint64_t u, const struct suite *cs, const struct suite *hs, int n, uint64_t *fp, int *refbad)
{
        struct mmgr *mm = MM[cfg];
        struct rng r;
        sigjmp_buf jb;
        rng_seed(&r, g_opt.seed * 7877 + u * 5);
        for (int i = 0; i < n; i++) {
                struct genopt g;
                genopt_default(&g);
                g.slot = 2 + i;
                g.pl = PL_PLAIN;
                g.max_len = 200;
                item_gen(BI[i], cs, hs, &r, &g, mm);
                item_expect(BI[i]);
        }
        memset(b_done, 0, sizeof b_done);
        b_n = n;
        b_cfgname = g_cfgs[cfg].name;
        g_job_done = nvb_done;
        if (sigsetjmp(jb, 1)) {
                char key[200];
                snprintf(key, sizeof key, "C08|%s|fault|%s|%s|batch", g_cfgs[cfg].name, cipher_name(BI[0]->cipher), hash_name(BI[0]->hash));
                ev_violation("C08", key, "fault while a batch of jobs was processed", NULL);
                g_job_done = NULL;
                MM[cfg] = mm_new(cfg);
                return -1;
        }
        g_fault_jmp = &jb;
        for (int i = 0; i < n; i++) {
                IMB_JOB *j = mm_get_next_job(mm);
                item_fill_job(BI[i], j);
                mm_submit_job(mm, 0, 0);
        }
        while (mm_flush_job(mm))
                ;
        g_fault_jmp = NULL;
        g_job_done = NULL;
        for (int i = 0; i < n; i++) {
                fp[i] = b_done[i] == 1 ? (b_hash[i] ^ (uint64_t) b_status[i]) : 0xdeadULL + (uint64_t) b_done[i];
                refbad[i] = b_refbad[i];
        }
        return 0;
}

static void
mask_models(void)
{
#ifdef IMB_VERIF
        /* CPU models by feature masking (hook H1) */
        static const struct {
                const char *name;
                uint64_t mask;
                int best_arch; /* IMB_ARCH expected from init_mb_mgr_auto */
                int avx512_ok, avx2_ok, sse_ok;
        } models[] = {
                { "westmere", IMB_FEATURE_AVX | IMB_FEATURE_AVX2 | IMB_FEATURE_AVX512_SKX | IMB_FEATURE_VAES |
                                      IMB_FEATURE_VPCLMULQDQ | IMB_FEATURE_GFNI | IMB_FEATURE_AVX512_IFMA | IMB_FEATURE_SHANI |
                                      IMB_FEATURE_BMI2 | IMB_FEATURE_AVX_IFMA,
                  IMB_ARCH_SSE, 0, 0, 1 },
                { "denverton", IMB_FEATURE_AVX | IMB_FEATURE_AVX2 | IMB_FEATURE_AVX512_SKX | IMB_FEATURE_VAES |
                                       IMB_FEATURE_VPCLMULQDQ | IMB_FEATURE_GFNI | IMB_FEATURE_AVX512_IFMA | IMB_FEATURE_BMI2,
                  IMB_ARCH_SSE, 0, 0, 1 },
                { "haswell", IMB_FEATURE_AVX512_SKX | IMB_FEATURE_VAES | IMB_FEATURE_VPCLMULQDQ | IMB_FEATURE_GFNI |
                                     IMB_FEATURE_AVX512_IFMA | IMB_FEATURE_SHANI,
                  IMB_ARCH_AVX2, 0, 1, 1 },
                { "skylake-x", IMB_FEATURE_VAES | IMB_FEATURE_VPCLMULQDQ | IMB_FEATURE_GFNI | IMB_FEATURE_AVX512_IFMA |
                                       IMB_FEATURE_SHANI,
                  IMB_ARCH_AVX512, 1, 1, 1 },
                { "no-aesni", IMB_FEATURE_AESNI | IMB_FEATURE_PCLMULQDQ | IMB_FEATURE_AVX | IMB_FEATURE_AVX2 | IMB_FEATURE_AVX512_SKX |
                                      IMB_FEATURE_VAES | IMB_FEATURE_VPCLMULQDQ | IMB_FEATURE_GFNI | IMB_FEATURE_SHANI,
                  IMB_ARCH_NONE, 0, 0, 0 },
        };
        static int cb_calls;
        for (unsigned mi = 0; mi < ARRAY_SZ(models); mi++) {
                imb_verif_set_cpu_feature_mask(models[mi].mask);
                for (int arch = 0; arch < 4; arch++) {
                        IMB_MGR *m = (IMB_MGR *) mcall("alloc_mb_mgr", (void *) alloc_mb_mgr, 1, (uint64_t) 0);
                        IMB_ARCH got = IMB_ARCH_NONE;
                        char key[200], det[300];
                        cb_calls = 0;
                        if (!m) {
                                /* alloc may legitimately fail when nothing is supported */
                                cov_hit("C08", "mask|%s|alloc-null", models[mi].name);
                                continue;
                        }
                        if (arch == 3)
                                mcall("init_mb_mgr_auto", (void *) init_mb_mgr_auto, 2, (uint64_t) m, (uint64_t) &got);
                        else
                                mm_init_arch(m, arch);
                        int err = imb_get_errno(m);
                        int ok = arch == 0 ? models[mi].sse_ok : arch == 1 ? models[mi].avx2_ok : arch == 2 ? models[mi].avx512_ok
                                                                                                             : models[mi].best_arch != IMB_ARCH_NONE;
                        if (!ok) {
                                if (err != IMB_ERR_MISSING_CPUFLAGS_INIT_MGR) {
                                        snprintf(key, sizeof key, "C08|mask|%s|arch%d|no-missing-cpuflags-error", models[mi].name, arch);
                                        snprintf(det, sizeof det,
                                                 "CPU model %s: init for arch %d must fail with IMB_ERR_MISSING_CPUFLAGS_INIT_MGR, "
                                                 "errno is %d, used_arch %u",
                                                 models[mi].name, arch, err, m->used_arch);
                                        ev_violation("C08", key, det, NULL);
                                }
                        } else {
                                if (err != 0) {
                                        snprintf(key, sizeof key, "C08|mask|%s|arch%d|init-failed", models[mi].name, arch);
                                        snprintf(det, sizeof det, "CPU model %s: init for supported arch %d failed with errno %d",
                                                 models[mi].name, arch, err);
                                        ev_violation("C08", key, det, NULL);
                                } else if (arch == 3 && (int) m->used_arch != models[mi].best_arch) {
                                        snprintf(key, sizeof key, "C08|mask|%s|auto-picked-arch%u", models[mi].name, m->used_arch);
                                        snprintf(det, sizeof det, "CPU model %s: init_mb_mgr_auto picked arch %u, expected %d",
                                                 models[mi].name, m->used_arch, models[mi].best_arch);
                                        ev_violation("C08", key, det, NULL);
                                } else {
                                        /* the selected variant must work: run a few jobs */
                                        struct mmgr *mm = mm_wrap(m, 0);
                                        struct mmgr *save = MM[0];
                                        MM[0] = mm;
                                        for (uint64_t u = 0; u < 40; u++) {
                                                struct fp f;
                                                const struct suite *cs = &g_cipher_suites[(u * 7) % (uint64_t) g_n_cipher_suites];
                                                run_one(0, 900000 + u, cs, NULL, -1, &f, NULL, 0, NULL, NULL, NULL);
                                        }
                                        MM[0] = save;
                                        free(mm);
                                        cov_count("masked_jobs", 40);
                                }
                        }
                        cov_hit("C08", "mask|%s|arch%d|err%d|used%u.%u", models[mi].name, arch, err, m->used_arch,
                                m->used_arch_type);
                        mcall("free_mb_mgr", (void *) free_mb_mgr, 1, (uint64_t) m);
                }
        }
        imb_verif_set_cpu_feature_mask(0);
        cov_count("cpu_models", ARRAY_SZ(models));
#endif
}

int
eng_nver(void)
{
        guard_init(2 + NB);
        for (int i = 0; i < NB; i++)
                BI[i] = item_new();
        IT = item_new();
        IT2 = item_new();
        int ncfg = 0;
        for (int c = 0; c < NCFG; c++) {
                MM[c] = g_cfg_variant[c] >= 0 ? mm_new(c) : NULL;
                if (MM[c])
                        ncfg++;
        }
        if (g_opt.shard == 0 && !g_opt.under_valgrind)
                mask_models();
        static uint8_t encout[1 << 17], enctag[64];
        uint64_t items = 0, invalid_items = 0, xdec = 0;
        for (uint64_t u = (uint64_t) g_opt.shard; u < (uint64_t) g_opt.cases; u += (uint64_t) g_opt.nshards) {
                struct rng r;
                rng_seed(&r, g_opt.seed * 104729 + u);
                g_case_no = (long) u;
                const struct suite *cs = NULL, *hs = NULL;
                unsigned w = rng_below(&r, 10);
                if (w < 4)
                        cs = &g_cipher_suites[rng_below(&r, (uint32_t) g_n_cipher_suites)];
                else if (w < 7)
                        hs = &g_hash_suites[rng_below(&r, (uint32_t) g_n_hash_suites)];
                else if (w < 9)
                        cs = &g_aead_suites[rng_below(&r, (uint32_t) g_n_aead_suites)];
                else {
                        cs = &g_cipher_suites[rng_below(&r, (uint32_t) g_n_cipher_suites)];
                        hs = &g_hash_suites[rng_below(&r, (uint32_t) g_n_hash_suites)];
                }
                if (u % 4 == 1) {
                        /* batch unit */
                        int n = 2 + (int) rng_below(&r, NB - 2), firstc = -1;
                        static uint64_t fp0[NB], fpc[NB];
                        static int rb0[NB], rbc[NB];
                        for (int c = 0; c < NCFG; c++) {
                                if (!MM[c])
                                        continue;
                                if (run_batch_cfg(c, u, cs, hs, n, firstc < 0 ? fp0 : fpc, firstc < 0 ? rb0 : rbc))
                                        continue;
                                if (firstc < 0) {
                                        firstc = c;
                                        continue;
                                }
                                for (int i = 0; i < n; i++)
                                        if (fp0[i] != fpc[i] && !rb0[i] && !rbc[i]) {
                                                char key[240], det[300];
                                                snprintf(key, sizeof key, "C08|%s|differs-from|%s|%s|%s|batch-output", g_cfgs[c].name,
                                                         g_cfgs[firstc].name, cs ? cipher_name(cs->cipher) : "NULL",
                                                         hs ? hash_name(hs->hash) : (cs && cs->aead ? hash_name(cs->hash) : "NULL"));
                                                snprintf(det, sizeof det, "job %d of a batch of %d gives different status/output on the two configurations",
                                                         i, n);
                                                ev_violation("C08", key, det, item_describe(BI[i]));
                                                break;
                                        }
                        }
                        cov_count("batch_items", (uint64_t) n);
                        cov_hit("C08", "batch|%s|%s|n%d", cs ? cipher_name(cs->cipher) : "NULL", hs ? hash_name(hs->hash) : "NULL", n > 16 ? 17 : n);
                        items++;
                        continue;
                }
                int pidx = rng_below(&r, 3) == 0 ? (int) rng_below(&r, 140) : -1;
                struct fp f0, f;
                char pname[64], pn2[64];
                int first = -1;
                for (int c = 0; c < NCFG; c++) {
                        if (!MM[c])
                                continue;
                        if (run_one(c, u, cs, hs, pidx, &f, first < 0 ? pname : pn2, 0, NULL, NULL, NULL))
                                continue;
                        if (first < 0) {
                                f0 = f;
                                first = c;
                                continue;
                        }
                        if (f.refbad || f0.refbad)
                                continue;
                        if (f.status != f0.status || f.err != f0.err || f.h != f0.h) {
                                char key[240], det[400];
                                snprintf(key, sizeof key, "C08|%s|differs-from|%s|%s|%s|%s", g_cfgs[c].name, g_cfgs[first].name,
                                         cs ? cipher_name(cs->cipher) : "NULL", hs ? hash_name(hs->hash) : (cs && cs->aead ? hash_name(cs->hash) : "NULL"),
                                         f.status != f0.status ? "status" : f.err != f0.err ? "errno" : "output");
                                snprintf(det, sizeof det,
                                         "item %llu (%s): %s gives status %d errno %d hash %llx, %s gives status %d errno %d hash %llx",
                                         (unsigned long long) u, pname, g_cfgs[first].name, f0.status, f0.err,
                                         (unsigned long long) f0.h, g_cfgs[c].name, f.status, f.err, (unsigned long long) f.h);
                                ev_violation("C08", key, det, item_describe(IT));
                        }
                }
                items++;
                if (pidx >= 0)
                        invalid_items++;
                cov_hit("C08", "%s|%s|%s|st%d|err%d", cs ? cipher_name(cs->cipher) : "NULL",
                        hs ? hash_name(hs->hash) : "NULL", pidx >= 0 ? pname : "valid", f0.status, f0.err);
                /* cross-configuration encrypt -> decrypt on a rotating pair */
                if (pidx < 0 && cs && !hs && (u % 3) == 0) {
                        int a = (int) (u % NCFG), b = (int) ((u / 3 + 5) % NCFG);
                        if (!MM[a] || !MM[b] || a == b)
                                continue;
                        struct fp fa, fb;
                        if (run_one(a, u, cs, NULL, -1, &fa, NULL, IMB_DIR_ENCRYPT, NULL, encout, enctag))
                                continue;
                        uint32_t clen = IT->c_len;
                        static uint8_t plain[1 << 17];
                        memcpy(plain, IT->src_orig + IT->c_off, clen);
                        if (IT->cipher == IMB_CIPHER_SNOW3G_UEA2_BITLEN || IT->cipher == IMB_CIPHER_KASUMI_UEA1_BITLEN ||
                            IT->cipher == IMB_CIPHER_CNTR_BITLEN || IT->cipher == IMB_CIPHER_PON_AES_CNTR ||
                            (IT->cipher == IMB_CIPHER_DOCSIS_SEC_BPI && IT->hash == IMB_AUTH_DOCSIS_CRC32))
                                continue; /* bit tails / in-band CRC: covered by the fingerprint comparison */
                        if (run_one(b, u, cs, NULL, -1, &fb, NULL, IMB_DIR_DECRYPT, encout, NULL, NULL))
                                continue;
                        const uint8_t *o = IT->inplace ? IT->src + IT->c_off : IT->dst;
                        if (IT->c_len != clen || memcmp(o, plain, clen)) {
                                char key[240];
                                snprintf(key, sizeof key, "C08|enc-%s|dec-%s|%s|not-recovered", g_cfgs[a].name, g_cfgs[b].name,
                                         cipher_name(cs->cipher));
                                ev_violation("C08", key, "data encrypted by one configuration was not recovered by another",
                                             item_describe(IT));
                        }
                        if (IT->tag_len && !IT->tag_unspec && memcmp(IT->tag, enctag, IT->tag_len)) {
                                char key[240];
                                snprintf(key, sizeof key, "C08|enc-%s|dec-%s|%s|tag-differs", g_cfgs[a].name, g_cfgs[b].name,
                                         cipher_name(cs->cipher));
                                ev_violation("C08", key, "decrypt-side tag differs from encrypt-side tag", item_describe(IT));
                        }
                        xdec++;
                        cov_hit("C08", "x|%s|%s|%s", g_cfgs[a].name, g_cfgs[b].name, cipher_name(cs->cipher));
                }
        }
        cov_count("items", items);
        cov_count("invalid_items", invalid_items);
        cov_count("configurations", (uint64_t) ncfg);
        cov_count("item_executions", items * (uint64_t) ncfg);
        cov_count("cross_config_decrypts", xdec);
        return 0;
}
