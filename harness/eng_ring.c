/* Engine "ring" (C05): histories aimed at the job ring rather than at crypto. M-RING (api.c) is
 * the oracle; this engine produces scripted and random histories over immediate, parking and
 * rejected jobs through the job API and the burst API, checked and no-check entry points. */
#include "imbv.h"

enum kind { K_IMM = 0, K_PARK = 1, K_PARK_HASH = 2, K_REJ = 3 };

#define NBUF 600
struct rctx {
        struct mmgr *mm;
        DECLARE_ALIGNED(uint8_t ek128[176], 16);
        DECLARE_ALIGNED(uint8_t dk128[176], 16);
        DECLARE_ALIGNED(uint8_t ek192[208], 16);
        DECLARE_ALIGNED(uint8_t dk192[208], 16);
        uint8_t ipad[20], opad[20];
        uint8_t key[32], iv[16];
        uint8_t src[64];
        uint8_t exp_ctr[32], exp_cbc[32], exp_hmac[12];
        uint8_t dst[NBUF][32];
        uint8_t tag[NBUF][12];
        int kind_of[NBUF];
        uint64_t seq; /* submission counter */
        uint64_t next_expected;
        uint64_t out_checked;
        int wrapped, full, rejected;
};
static struct rctx R;

static void
fill(struct rctx *c, IMB_JOB *j, int kind)
{
        uint64_t id = c->seq++;
        int b = (int) (id % NBUF);
        memset(j, 0, sizeof *j);
        j->chain_order = IMB_ORDER_CIPHER_HASH;
        j->cipher_direction = IMB_DIR_ENCRYPT;
        j->cipher_mode = IMB_CIPHER_NULL;
        j->hash_alg = IMB_AUTH_NULL;
        j->src = c->src;
        j->dst = c->dst[b];
        j->iv = c->iv;
        j->iv_len_in_bytes = 16;
        j->msg_len_to_cipher_in_bytes = 32;
        j->user_data = (void *) (uintptr_t) (id + 1);
        j->user_data2 = (void *) (uintptr_t) kind;
        c->kind_of[b] = kind;
        memset(c->dst[b], 0xEE, 32);
        switch (kind) {
        case K_IMM:
                j->cipher_mode = IMB_CIPHER_CNTR;
                j->enc_keys = c->ek128;
                j->dec_keys = c->ek128;
                j->key_len_in_bytes = 16;
                break;
        case K_PARK:
                j->cipher_mode = IMB_CIPHER_CBC;
                j->enc_keys = c->ek192;
                j->dec_keys = c->dk192;
                j->key_len_in_bytes = 24;
                break;
        case K_PARK_HASH:
                j->hash_alg = IMB_AUTH_HMAC_SHA_1;
                j->u.HMAC._hashed_auth_key_xor_ipad = c->ipad;
                j->u.HMAC._hashed_auth_key_xor_opad = c->opad;
                j->msg_len_to_hash_in_bytes = 40;
                j->auth_tag_output = c->tag[b];
                j->auth_tag_output_len_in_bytes = 12;
                j->msg_len_to_cipher_in_bytes = 0;
                j->dst = NULL;
                memset(c->tag[b], 0xEE, 12);
                break;
        default: /* rejected: zero length CTR */
                j->cipher_mode = IMB_CIPHER_CNTR;
                j->enc_keys = c->ek128;
                j->dec_keys = c->ek128;
                j->key_len_in_bytes = 16;
                j->msg_len_to_cipher_in_bytes = 0;
                c->rejected++;
        }
}

static void
ring_done(struct mmgr *mm, IMB_JOB *job, void *arg)
{
        struct rctx *c = arg;
        uint64_t id = (uint64_t) (uintptr_t) job->user_data - 1;
        int kind = (int) (uintptr_t) job->user_data2;
        int b = (int) (id % NBUF);
        char det[200];
        if (id != c->next_expected) {
                snprintf(det, sizeof det, "job id %llu handed back, expected id %llu",
                         (unsigned long long) id, (unsigned long long) c->next_expected);
                char key[128];
                snprintf(key, sizeof key, "C05|%s|%s|id-order", variant_name(mm->variant),
                         mm->burst_mode ? "burst" : "job");
                ev_violation("C05", key, det, NULL);
        }
        c->next_expected = id + 1;
        const uint8_t *exp = NULL, *got = NULL;
        size_t n = 32;
        if (kind == K_IMM) {
                exp = c->exp_ctr;
                got = c->dst[b];
        } else if (kind == K_PARK) {
                exp = c->exp_cbc;
                got = c->dst[b];
        } else if (kind == K_PARK_HASH) {
                exp = c->exp_hmac;
                got = c->tag[b];
                n = 12;
        }
        if (exp) {
                c->out_checked++;
                if (memcmp(exp, got, n)) {
                        char key[128];
                        snprintf(key, sizeof key, "C05|%s|%s|incomplete-output|kind%d", variant_name(mm->variant),
                                 mm->burst_mode ? "burst" : "job", kind);
                        snprintf(det, sizeof det,
                                 "job id %llu handed back as completed but its output is not the expected one",
                                 (unsigned long long) id);
                        ev_violation("C05", key, det, NULL);
                }
        } else if (job->status == IMB_STATUS_INVALID_ARGS && memcmp(c->dst[b], "\xEE\xEE\xEE\xEE", 4)) {
                ev_violation("C12", "C12|rejected-job-wrote-dst", "rejected job modified its destination", NULL);
        }
}

/* calls made between IMB_GET_NEXT_JOB and IMB_SUBMIT_JOB of the next submission (the statement covers ANY call sequence:
 * the offered slot must stay the one that submit takes); 0 = none */
static struct rng *g_between;
static void
sub(struct rctx *c, int kind, int nocheck)
{
        IMB_JOB *j = mm_get_next_job(c->mm);
        if (g_between && rng_below(g_between, 4) == 0) {
                int n = 1 + (int) rng_below(g_between, 3);
                for (int i = 0; i < n; i++) {
                        if (rng_below(g_between, 2))
                                mm_get_completed_job(c->mm);
                        else
                                mm_flush_job(c->mm);
                }
                if (rng_below(g_between, 3) == 0)
                        mm_queue_size(c->mm);
                cov_count("calls_between_get_next_and_submit", (uint64_t) n);
        }
        fill(c, j, kind);
        mm_submit_job(c->mm, nocheck && kind != K_REJ, kind == K_REJ ? IMB_ERR_JOB_CIPH_LEN : 0);
}
static void
drain(struct rctx *c)
{
        while (mm_flush_job(c->mm))
                ;
        mm_queue_size(c->mm);
        if (c->next_expected != c->seq) {
                char det[160];
                snprintf(det, sizeof det, "after draining %llu of %llu submitted jobs came back",
                         (unsigned long long) c->next_expected, (unsigned long long) c->seq);
                ev_violation("C05", "C05|lost-jobs", det, NULL);
                c->next_expected = c->seq;
        }
}

static void
setup(struct rctx *c, int cfg)
{
        struct ref_aes_key ak;
        uint8_t t[32], prev[16];
        memset(c, 0, sizeof *c);
        c->mm = mm_new(cfg);
        if (!c->mm)
                return;
        for (int i = 0; i < 32; i++)
                c->key[i] = (uint8_t) (i * 7 + 3);
        for (int i = 0; i < 16; i++)
                c->iv[i] = (uint8_t) (i * 11 + 1);
        for (int i = 0; i < 64; i++)
                c->src[i] = (uint8_t) (i * 5 + 9);
        IMB_MGR *m = c->mm->m;
        mcall("keyexp_128", (void *) m->keyexp_128, 3, (uint64_t) c->key, (uint64_t) c->ek128, (uint64_t) c->dk128);
        mcall("keyexp_192", (void *) m->keyexp_192, 3, (uint64_t) c->key, (uint64_t) c->ek192, (uint64_t) c->dk192);
        mcall("imb_hmac_ipad_opad", (void *) imb_hmac_ipad_opad, 6, (uint64_t) m, (uint64_t) IMB_AUTH_HMAC_SHA_1,
              (uint64_t) c->key, (uint64_t) 20, (uint64_t) c->ipad, (uint64_t) c->opad);
        /* expected outputs from the reference */
        ak.keylen = 16;
        memcpy(ak.key, c->key, 32);
        for (int b = 0; b < 2; b++) {
                uint8_t cb[16], ks[16];
                memcpy(cb, c->iv, 16);
                cb[15] = (uint8_t) (cb[15] + b);
                ref_aes_enc(&ak, cb, ks);
                for (int i = 0; i < 16; i++)
                        c->exp_ctr[16 * b + i] = c->src[16 * b + i] ^ ks[i];
        }
        ak.keylen = 24;
        memcpy(prev, c->iv, 16);
        for (int b = 0; b < 2; b++) {
                for (int i = 0; i < 16; i++)
                        t[i] = c->src[16 * b + i] ^ prev[i];
                ref_aes_enc(&ak, t, c->exp_cbc + 16 * b);
                memcpy(prev, c->exp_cbc + 16 * b, 16);
        }
        {
                /* HMAC-SHA1 via the item reference path */
                extern void imbv_hmac_sha1_ref(const uint8_t *key, size_t klen, const uint8_t *msg, size_t len,
                                               uint8_t *out12);
                imbv_hmac_sha1_ref(c->key, 20, c->src, 40, c->exp_hmac);
        }
        g_job_done = ring_done;
        g_job_done_arg = c;
}

/* ---- scripted job-API histories */
static void
script_job_full(struct rctx *c, int phase, int extra, int nocheck, int rej_pos)
{
        /* advance the ring phase with immediate jobs */
        for (int i = 0; i < phase; i++)
                sub(c, K_IMM, nocheck);
        mm_queue_size(c->mm);
        sub(c, K_PARK, nocheck); /* parks (alone in its lanes) */
        for (int i = 0; i < extra; i++) {
                int kind = (i == rej_pos) ? K_REJ : K_IMM;
                sub(c, kind, nocheck);
                if ((i & 63) == 7)
                        mm_queue_size(c->mm);
        }
        mm_queue_size(c->mm);
        while (mm_get_completed_job(c->mm))
                ;
        drain(c);
        cov_hit("C05", "%s|job|full|phase%d|extra%d|nocheck%d|rej%d|full%llu|wraps%llu", variant_name(c->mm->variant),
                phase / 16, extra, nocheck, rej_pos < 0 ? -1 : rej_pos / 64, (unsigned long long) c->mm->n_full,
                (unsigned long long) (c->mm->n_wraps > 3 ? 3 : c->mm->n_wraps));
}

static void
script_job_random(struct rctx *c, struct rng *r, int ncalls)
{
        unsigned p_park = rng_below(r, 30), p_rej = rng_below(r, 10), p_flush = rng_below(r, 25),
                 p_gc = rng_below(r, 30);
        int nocheck = (int) rng_below(r, 2);
        g_between = rng_below(r, 2) ? r : NULL;
        for (int i = 0; i < ncalls; i++) {
                unsigned x = rng_below(r, 100);
                if (x < p_flush)
                        mm_flush_job(c->mm);
                else if (x < p_flush + p_gc)
                        mm_get_completed_job(c->mm);
                else {
                        unsigned k = rng_below(r, 100);
                        int kind = k < p_park ? (rng_below(r, 2) ? K_PARK : K_PARK_HASH)
                                   : k < p_park + p_rej ? K_REJ
                                                        : K_IMM;
                        sub(c, kind, nocheck);
                }
                if (rng_below(r, 16) == 0)
                        mm_queue_size(c->mm);
        }
        drain(c);
        cov_hit("C05", "%s|job|random|park%u|rej%u|flush%u|gc%u|nocheck%d|full%d|wrap%d|between%d", variant_name(c->mm->variant),
                p_park / 10, p_rej / 4, p_flush / 8, p_gc / 10, nocheck, c->mm->n_full > 0, c->mm->n_wraps > 0, g_between != NULL);
        g_between = NULL;
}

/* ---- burst API histories */
static uint32_t
burst_submit(struct rctx *c, uint32_t want, int park_first, int nocheck)
{
        IMB_JOB *jobs[IMB_MAX_BURST_SIZE + 2];
        uint32_t got = mm_get_next_burst(c->mm, want, jobs);
        for (uint32_t i = 0; i < got; i++) {
                fill(c, jobs[i], (park_first && i == 0) ? K_PARK : K_IMM);
                mcall("imb_set_session", (void *) imb_set_session, 2, (uint64_t) c->mm->m, (uint64_t) jobs[i]);
        }
        if (got == 0 && want != 0)
                return 0;
        return mm_submit_burst(c->mm, got, jobs, nocheck, 0);
}
static void
burst_drain(struct rctx *c)
{
        IMB_JOB *jobs[IMB_MAX_BURST_SIZE];
        while (mm_flush_burst(c->mm, IMB_MAX_BURST_SIZE, jobs))
                ;
        mm_queue_size(c->mm);
        if (c->next_expected != c->seq) {
                char det[160];
                snprintf(det, sizeof det, "burst: after draining %llu of %llu submitted jobs came back",
                         (unsigned long long) c->next_expected, (unsigned long long) c->seq);
                ev_violation("C05", "C05|lost-jobs-burst", det, NULL);
                c->next_expected = c->seq;
        }
}
static void
script_burst(struct rctx *c, struct rng *r, int variant)
{
        IMB_JOB *jobs[IMB_MAX_BURST_SIZE + 2];
        static const uint32_t sizes[] = { 0, 1, 2, 7, 16, 31, 64, 127, 128 };
        int nocheck = (int) rng_below(r, 2);
        /* move the ring phase */
        uint32_t phase = rng_below(r, 256);
        for (uint32_t done = 0; done < phase;) {
                uint32_t n = phase - done > 128 ? 128 : phase - done;
                burst_submit(c, n, 0, nocheck);
                done += n;
                if (rng_below(r, 2))
                        burst_drain(c);
        }
        burst_drain(c);
        switch (variant) {
        case 0: /* park a job, then fill the queue to exactly 256 with bursts, then one more */
                burst_submit(c, 1, 1, nocheck);
                for (int i = 0; i < 2; i++)
                        burst_submit(c, 127 + (uint32_t) i, 0, nocheck); /* 1+127+128 = 256 */
                mm_queue_size(c->mm);
                {
                        /* queue may be full now: get_next_burst must offer only what is free */
                        uint32_t got = mm_get_next_burst(c->mm, 5, jobs);
                        for (uint32_t i = 0; i < got; i++) {
                                fill(c, jobs[i], K_IMM);
                                mcall("imb_set_session", (void *) imb_set_session, 2, (uint64_t) c->mm->m,
                                      (uint64_t) jobs[i]);
                        }
                        if (got)
                                mm_submit_burst(c->mm, got, jobs, nocheck, 0);
                }
                break;
        case 1: /* misuse: n > 128, NULL array, not enough space, out of order, stale suite id */
                mm_get_next_burst(c->mm, 129, jobs);
                mm_submit_burst(c->mm, 129, jobs, 0, IMB_ERR_BURST_SIZE);
                mm_submit_burst(c->mm, 4, NULL, 0, IMB_ERR_NULL_BURST);
                {
                        uint32_t got = mm_get_next_burst(c->mm, 4, jobs);
                        if (got == 4) {
                                for (uint32_t i = 0; i < got; i++) {
                                        fill(c, jobs[i], K_IMM);
                                        c->seq--; /* not submitted */
                                        mcall("imb_set_session", (void *) imb_set_session, 2, (uint64_t) c->mm->m,
                                              (uint64_t) jobs[i]);
                                }
                                IMB_JOB *orig[4];
                                memcpy(orig, jobs, sizeof orig);
                                jobs[1] = orig[2];
                                jobs[2] = orig[1];
                                mm_submit_burst(c->mm, 4, jobs, 0, IMB_ERR_BURST_OOO);
                                /* a rejected burst overwrites jobs[0] with the offending job */
                                memcpy(jobs, orig, sizeof orig);
                                uint32_t sv = jobs[3]->suite_id[0];
                                jobs[3]->suite_id[0] = sv ^ 0x40;
                                mm_submit_burst(c->mm, 4, jobs, 0, IMB_ERR_BURST_SUITE_ID);
                                memcpy(jobs, orig, sizeof orig);
                                jobs[3]->suite_id[0] = sv;
                                jobs[2]->msg_len_to_cipher_in_bytes = 0;
                                mm_submit_burst(c->mm, 4, jobs, 0, IMB_ERR_JOB_CIPH_LEN);
                                if (jobs[0] != orig[2] || jobs[0]->status != IMB_STATUS_INVALID_ARGS)
                                        ev_violation("C12", "C12|burst-invalid-job-not-flagged",
                                                     "rejected burst did not return the invalid job in jobs[0] with "
                                                     "INVALID_ARGS",
                                                     NULL);
                                /* the same slots must be offered again and be usable */
                                got = mm_get_next_burst(c->mm, 4, jobs);
                                for (uint32_t i = 0; i < got; i++) {
                                        fill(c, jobs[i], K_IMM);
                                        mcall("imb_set_session", (void *) imb_set_session, 2, (uint64_t) c->mm->m,
                                              (uint64_t) jobs[i]);
                                }
                                mm_submit_burst(c->mm, got, jobs, 0, 0);
                        }
                }
                /* not enough space: a parked job keeps every job behind it in the ring, so that fewer than
                 * n_jobs (<= 128) slots are free; then a NULL job pointer inside an otherwise valid burst */
                burst_drain(c);
                burst_submit(c, 1, 1, 0);
                burst_submit(c, 128, 0, 0);
                burst_submit(c, 1 + rng_below(r, 100), 0, 0);
                {
                        uint32_t freeslots = (uint32_t) (IMB_MAX_JOBS - c->mm->count);
                        if (freeslots > 0 && freeslots < IMB_MAX_BURST_SIZE) {
                                uint32_t got = mm_get_next_burst(c->mm, IMB_MAX_BURST_SIZE, jobs);
                                for (uint32_t i = 0; i < got; i++) {
                                        fill(c, jobs[i], K_IMM);
                                        c->seq--; /* not submitted */
                                        mcall("imb_set_session", (void *) imb_set_session, 2, (uint64_t) c->mm->m,
                                              (uint64_t) jobs[i]);
                                }
                                uint32_t n = freeslots + 1 + rng_below(r, IMB_MAX_BURST_SIZE - freeslots);
                                for (uint32_t i = got; i < n && got; i++)
                                        jobs[i] = jobs[0];
                                if (got) {
                                        mm_submit_burst(c->mm, n, jobs, 0, IMB_ERR_QUEUE_SPACE);
                                        cov_hit("C05", "%s|burst|queue-space|free%u", variant_name(c->mm->variant), freeslots / 16);
                                        if (got >= 2) {
                                                IMB_JOB *sv = jobs[got - 1];
                                                jobs[got - 1] = NULL;
                                                mm_submit_burst(c->mm, got, jobs, 0, IMB_ERR_NULL_JOB);
                                                jobs[got - 1] = sv;
                                        }
                                        /* the offered slots are still usable */
                                        for (uint32_t i = 0; i < got; i++) {
                                                fill(c, jobs[i], K_IMM);
                                                mcall("imb_set_session", (void *) imb_set_session, 2, (uint64_t) c->mm->m,
                                                      (uint64_t) jobs[i]);
                                        }
                                        mm_submit_burst(c->mm, got, jobs, 0, 0);
                                }
                        }
                }
                break;
        default: /* random bursts */
                for (int i = 0; i < 30; i++) {
                        uint32_t n = rng_below(r, 3) ? sizes[rng_below(r, ARRAY_SZ(sizes))] : rng_below(r, 129);
                        if (n == 0) {
                                mm_get_next_burst(c->mm, 0, jobs);
                                mm_submit_burst(c->mm, 0, jobs, nocheck, 0);
                        } else
                                burst_submit(c, n, rng_below(r, 6) == 0, nocheck);
                        if (rng_below(r, 4) == 0)
                                mm_flush_burst(c->mm, 1 + rng_below(r, 128), jobs);
                        if (rng_below(r, 8) == 0)
                                mm_queue_size(c->mm);
                }
        }
        burst_drain(c);
        cov_hit("C05", "%s|burst|v%d|phase%u|nocheck%d|full%d|wrap%d", variant_name(c->mm->variant), variant,
                phase / 16, nocheck, c->mm->n_full > 0, c->mm->n_wraps > 0);
}

int
eng_ring(void)
{
        struct rng r;
        long unit = 0;
        rng_seed(&r, g_opt.seed * 31 + 5);
        for (int vi = 0; vi < g_nvariants; vi++) {
                int cfg = g_variant_cfg[vi];
                if (g_opt.cfg_only >= 0 && cfg != g_opt.cfg_only)
                        continue;
                for (long h = 0; h < g_opt.cases / g_nvariants + 1; h++, unit++) {
                        if (unit % g_opt.nshards != g_opt.shard)
                                continue;
                        struct rng ur;
                        rng_seed(&ur, g_opt.seed * 977 + (uint64_t) unit);
                        g_case_no = unit;
                        setup(&R, cfg);
                        if (!R.mm)
                                break;
                        int which = (int) (h % 8);
                        switch (which) {
                        case 0: /* every ring phase over time: h cycles through phases */
                                script_job_full(&R, (int) ((h / 8) % 256), 254, 0, -1);
                                break;
                        case 1:
                                script_job_full(&R, (int) rng_below(&ur, 256), 255 + (int) rng_below(&ur, 60),
                                                (int) rng_below(&ur, 2), -1);
                                break;
                        case 2: /* rejected job at head / middle / tail */
                                script_job_full(&R, (int) rng_below(&ur, 256), 200,  0,
                                                (int) rng_below(&ur, 3) == 0 ? 0 : (int) rng_below(&ur, 200));
                                break;
                        case 3:
                        case 4:
                                script_job_random(&R, &ur, 300 + (int) rng_below(&ur, 600));
                                break;
                        case 5:
                                script_burst(&R, &ur, 0);
                                break;
                        case 6:
                                script_burst(&R, &ur, 1);
                                break;
                        default:
                                script_burst(&R, &ur, 2);
                        }
                        cov_count("histories", 1);
                        cov_count("ring_submits", R.mm->n_submit);
                        cov_count("ring_returns", R.mm->n_returned);
                        cov_count("ring_full_events", R.mm->n_full);
                        cov_count("ring_wraps", R.mm->n_wraps);
                        cov_count("outputs_checked", R.out_checked);
                        cov_count("rejected_jobs", (uint64_t) R.rejected);
                        g_job_done = NULL;
                        mm_free(R.mm);
                }
        }
        return 0;
}
