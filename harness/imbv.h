/* imbmon: runtime-monitoring harness for intel-ipsec-mb -- shared declarations */
#ifndef IMBV_H
#define IMBV_H
#include <stddef.h>
#include <stdint.h>
#include <stdio.h>
#include <string.h>
#include <stdlib.h>
#include <setjmp.h>
#include <intel-ipsec-mb.h>
#include "ref.h"
#include "ref_pon.h"

/* ------------------------------------------------------------------ misc */
#define ARRAY_SZ(a) (sizeof(a) / sizeof((a)[0]))
#define PG 4096UL

struct rng {
        uint64_t s[4];
};
void rng_seed(struct rng *r, uint64_t seed);
uint64_t rng_u64(struct rng *r);
static inline uint32_t
rng_below(struct rng *r, uint32_t n)
{
        return n ? (uint32_t) (rng_u64(r) % n) : 0;
}
void rng_bytes(struct rng *r, void *p, size_t n);
/* no-SIMD fills (so harness code never puts secrets into vector registers) */
void plain_memset(void *p, int c, size_t n);
void plain_memcpy(void *d, const void *s, size_t n);

/* ------------------------------------------------------------------ global options */
struct opts {
        const char *engine;
        uint64_t seed;
        int shard, nshards;
        long cases;        /* budget in engine-specific units */
        int tier;          /* 0 quick, 1 thorough */
        int cfg_only;      /* -1 = all */
        const char *replay;
        int verbose;
        int under_valgrind;
        const char *arg1;  /* engine specific */
        long from_case;
};
extern struct opts g_opt;

/* ------------------------------------------------------------------ events (JSON lines on stdout) */
void ev_printf(const char *fmt, ...) __attribute__((format(printf, 1, 2)));
/* report a violation: prop e.g. "C07"; key = stable identity used for known-finding matching;
 * detail = free text; replay (may be NULL) = JSON object text describing the witness */
void ev_violation(const char *prop, const char *key, const char *detail, const char *replay_json);
void ev_note(const char *what, const char *detail);
/* coverage: count distinct tuples (formatted string hashed into a set) per class */
void cov_hit(const char *cls, const char *fmt, ...) __attribute__((format(printf, 2, 3)));
void cov_count(const char *counter, uint64_t n);
void cov_sample(const char *cls, const char *fmt, ...) __attribute__((format(printf, 2, 3)));
void cov_flush(void);
const char *hexs(const void *p, size_t n); /* rotating static buffers */
extern uint64_t g_violations;
extern long g_case_no; /* current case (for fault reports / resume) */
void harness_fail(const char *fmt, ...) __attribute__((format(printf, 1, 2), noreturn)); /* exit 2 */

/* ------------------------------------------------------------------ manager configurations */
#define NCFG 16
struct cfg {
        const char *name; /* e.g. "avx512/0" */
        int arch;         /* 0 sse 1 avx2 2 avx512 3 auto */
        uint64_t flags;
};
extern const struct cfg g_cfgs[NCFG];
/* runtime-discovered: variant id (arch*8+type) reached by every cfg, and one representative cfg
 * per distinct variant */
extern int g_cfg_variant[NCFG];
extern int g_nvariants;
extern int g_variant_cfg[16];
const char *variant_name(int variant);
void cfgs_discover(void);

/* ------------------------------------------------------------------ trampoline (tramp.S) */
struct tramp_ctx {
        uint64_t fn;          /*   0 */
        uint64_t nargs;       /*   8 */
        uint64_t args[40];    /*  16 */
        uint64_t canary[6];   /* 336 rbx rbp r12 r13 r14 r15 */
        uint64_t flags;       /* 384 bit0 zero vector regs, bit1 fill+copy stack window */
        uint64_t veclevel;    /* 392 0 sse, 1 avx, 2 avx512 */
        uint32_t mxcsr_in;    /* 400 */
        uint32_t mxcsr_out;   /* 404 */
        uint64_t rsp_before;  /* 408 */
        uint64_t out_gpr[16]; /* 416 rax rbx rcx rdx rsi rdi rbp rsp r8..r15 */
        uint64_t out_rflags;  /* 544 */
        uint64_t stackcopy;   /* 552 */
        uint64_t kregs[8];    /* 560 */
        uint64_t pad[2];      /* 624 */
        uint8_t vec[32 * 64]; /* 640 */
} __attribute__((aligned(64)));
_Static_assert(__builtin_offsetof(struct tramp_ctx, canary) == 336, "tramp layout");
_Static_assert(__builtin_offsetof(struct tramp_ctx, rsp_before) == 408, "tramp layout");
_Static_assert(__builtin_offsetof(struct tramp_ctx, out_gpr) == 416, "tramp layout");
_Static_assert(__builtin_offsetof(struct tramp_ctx, kregs) == 560, "tramp layout");
_Static_assert(__builtin_offsetof(struct tramp_ctx, vec) == 640, "tramp layout");
#define TRAMP_STACK_WINDOW 65536
uint64_t imbv_tramp(struct tramp_ctx *c);
#define TF_ZEROVEC 1
#define TF_STACK   2

/* per-thread monitor context for calls */
struct callmon {
        struct tramp_ctx tc;
        uint8_t *stackcopy; /* TRAMP_STACK_WINDOW bytes or NULL */
        struct rng rng;
        uint32_t mxcsr; /* MXCSR to enter the library with */
        int want_residue; /* next call: capture stack window */
        uint64_t ncalls;
        const char *cur_fn; /* name of entry point being called */
        int cur_variant;
};
extern __thread struct callmon *g_cm;
void callmon_init(struct callmon *cm, uint64_t seed);
/* generic monitored call; checks C18 (callee-saved regs, rsp, DF, MXCSR) and returns rax */
uint64_t mcall(const char *name, void *fn, int nargs, ...);
extern int g_abi_cov; /* --abi: MXCSR variation + per-entry-point coverage in mcall */
void abi_flush(void);

/* ------------------------------------------------------------------ guard arenas */
enum place { PL_END = 0, PL_START = 1, PL_PLAIN = 2 };
struct garena; /* opaque */
void guard_init(int nslots);
/* allocate object of n bytes for slot (0..nslots-1), kind tag (for fault classification),
 * aligned so that (addr % align) == 0 ; PL_END puts the last byte against the guard page (as far
 * as alignment allows), PL_START the first byte. Memory is canary-filled around the object. */
void *guard_alloc(int slot, const char *kind, size_t n, size_t align, enum place pl);
void guard_reset_slot(int slot);
void guard_set_plain(int slot, void *base, size_t size);
/* verify canaries around all live objects of slot; returns 0 ok, else reports violation via cb */
int guard_check_slot(int slot, const char *what);
void guard_protect_slot(int slot, int prot_readonly); /* used by C12: make all objects read-only */
/* SIGSEGV recovery */
extern __thread sigjmp_buf *g_fault_jmp; /* if set, handler longjmps there after recording */
struct fault_info {
        void *addr;
        int is_write;
        int slot;
        char kind[32];
        long off_from_obj_end;   /* addr - (obj + n) */
        long off_from_obj_start; /* addr - obj */
        size_t obj_len;
        enum place pl;
        uint64_t rip;
        char ripsym[96];
};
extern struct fault_info g_fault;
void fault_install(void);

/* ------------------------------------------------------------------ monitored manager (api.c) */
#define RING_CAP 260
struct ring_ent {
        IMB_JOB *slot;
        IMB_JOB snap;
        int expect_reject;
        uint64_t id;
};
struct mmgr {
        IMB_MGR *m;
        int cfg;
        int variant;
        /* ring model */
        struct ring_ent fifo[RING_CAP];
        int head, count;
        uint64_t next_id;
        int burst_mode; /* history uses burst API */
        /* stats */
        uint64_t n_submit, n_returned, n_flush_null, n_wraps, n_full;
        /* last get_next slot */
        IMB_JOB *next_slot;
        int strict_errno; /* M-ERRNO on */
        int owns;
};
struct mmgr *mm_new(int cfg);          /* alloc + init via monitored calls; NULL if init fails */
struct mmgr *mm_wrap(IMB_MGR *m, int cfg);
void mm_free(struct mmgr *mm);
void mm_reinit(struct mmgr *mm, int cfg); /* init_mb_mgr_X on the same memory, model reset */
void mm_init_arch(IMB_MGR *m, int arch);  /* monitored init call */
IMB_JOB *mm_get_next_job(struct mmgr *mm);
/* expect_err: 0 valid job expected; >0 that errno expected; -1 some error expected; -2 unknown; -3 accepted (errno 0), any final status */
IMB_JOB *mm_submit_job(struct mmgr *mm, int nocheck, int expect_err);
IMB_JOB *mm_get_completed_job(struct mmgr *mm);
IMB_JOB *mm_flush_job(struct mmgr *mm);
uint32_t mm_queue_size(struct mmgr *mm);
uint32_t mm_get_next_burst(struct mmgr *mm, uint32_t n, IMB_JOB **jobs);
uint32_t mm_submit_burst(struct mmgr *mm, uint32_t n, IMB_JOB **jobs, int nocheck, int expect_err);
uint32_t mm_flush_burst(struct mmgr *mm, uint32_t max, IMB_JOB **jobs);
int mm_errno(struct mmgr *mm); /* imb_get_errno via monitored call */
/* called by engines when a job is handed back, after M-RING/M-DESC have run */
typedef void (*job_done_cb)(struct mmgr *mm, IMB_JOB *job, void *arg);
extern __thread job_done_cb g_job_done;
extern __thread void *g_job_done_arg;

/* ------------------------------------------------------------------ work items (item.c) */
#define MAX_TAG 64
#define MAX_IV 32
struct keymat {
        /* raw keys */
        uint8_t ckey[32];
        uint8_t akey[160];
        size_t akey_len;
        /* prepared material lives in guard arenas; pointers below */
        void *enc, *dec;       /* job->enc_keys / dec_keys */
        void *a1, *a2, *a3;    /* auth-specific */
        const void *des3[3];
        void *des3_ptrs;
        /* registry of secret key objects (for the residue engine) */
        struct {
                void *p;
                size_t n;
                int cls; /* 0 cipher key material, 1 authentication key material */
        } objs[10];
        int nobjs;
};
struct item {
        /* suite */
        IMB_CIPHER_MODE cipher;
        IMB_CIPHER_DIRECTION dir;
        IMB_HASH_ALG hash;
        IMB_CHAIN_ORDER order;
        unsigned keylen;
        /* geometry (bytes unless noted) */
        uint32_t buf_len;  /* size of src buffer */
        uint32_t c_off, c_len;
        uint32_t c_off_bits, c_len_bits; /* bit-length ciphers */
        uint32_t h_off, h_len;
        uint32_t h_len_bits; /* bit-length MACs */
        uint32_t pon_pli;    /* PON: payload length indicator put into the XGEM header */
        int pon_crc_defined; /* PON: PLI > 4, CRC half of the tag is specified */
        int tag_unspec;      /* the tag buffer content is not specified for this geometry (DOCSIS with CRC switched off) */
        uint32_t iv_len, aiv_len, aad_len, tag_len;
        int inplace;
        enum place pl;
        int slot; /* guard slot */
        /* material */
        struct keymat k;
        uint8_t iv[MAX_IV], aiv[MAX_IV];
        uint8_t *aad; /* guard object */
        uint8_t *init_tag; /* GHASH */
        /* buffers */
        uint8_t *src, *dst, *tag, *ivp, *aivp, *next_iv;
        uint8_t *src_orig;  /* private copy of the source as generated */
        uint8_t *exp_dst;   /* expected dst bytes (c_len, or ceil bits) */
        uint8_t *exp_src;   /* expected source image after the job (buf_len) */
        uint8_t exp_tag[MAX_TAG];
        uint8_t exp_next_iv[16];
        uint32_t dst_len;  /* bytes of dst that are defined by the job */
        int have_ref;      /* reference available for this suite */
        uint64_t id;
        int status_expected;
        void *user;
};
/* suite table */
struct suite {
        const char *name;
        IMB_CIPHER_MODE cipher;
        unsigned keylen;
        IMB_HASH_ALG hash;
        int aead; /* combined: cipher+hash fixed pairing */
};
extern const struct suite g_cipher_suites[]; /* cipher-only */
extern const int g_n_cipher_suites;
extern const struct suite g_hash_suites[];
extern const int g_n_hash_suites;
extern const struct suite g_aead_suites[];
extern const int g_n_aead_suites;
int item_pick_ooo(struct rng *r, const struct suite **cs, const struct suite **hs, int *dir);
int item_ooo_by_index(int idx, const struct suite **cs, const struct suite **hs, int *dir);
int item_ooo_count(void);
const char *cipher_name(int c);
const char *hash_name(int h);

struct item *item_new(void);
void item_free(struct item *it);
/* generate a random valid item of the suite; len_hint < 0 = choose */
struct genopt {
        long len;        /* message length wanted (bytes; bits for bit-length modes when bits!=0) */
        int bits;        /* for bit-length modes: len is in bits */
        int dir;         /* 0 random, else IMB_DIR_x */
        int inplace;     /* -1 random, 0, 1 */
        enum place pl;
        int slot;
        int iv_class;    /* 0 random, 1.. counter carry classes */
        int tag_len;     /* 0 = random permitted, else requested */
        int aad_len;     /* -1 random */
        int iv_len;      /* 0 default/random permitted */
        int off;         /* -1 random small offset, else cipher/hash offset */
        int max_len;     /* cap for random lengths (0 -> 320) */
        const uint8_t *ckey; /* fixed cipher key (32 bytes) or NULL */
        const uint8_t *akey; /* fixed auth key (32 bytes) or NULL */
        const uint8_t *fix_iv; /* fixed IV bytes (MAX_IV) or NULL */
};
void genopt_default(struct genopt *g);
int item_gen(struct item *it, const struct suite *cs, const struct suite *hs, struct rng *r,
             const struct genopt *g, struct mmgr *keymgr);
/* compute expected results with the reference models */
void item_expect(struct item *it);
/* fill a job descriptor from the item */
void item_fill_job(const struct item *it, IMB_JOB *job);
/* compare after completion; returns number of mismatches and reports violations under prop */
int item_check(struct item *it, const IMB_JOB *job, const char *prop, struct mmgr *mm,
               const char *ctx);
const char *item_describe(const struct item *it); /* JSON object text */
uint64_t item_output_hash(const struct item *it);
void item_mismatch_key(const struct item *it, const char *prop, const char *variant, int is_tag, char *key, size_t n);
int item_is_parking(const struct item *it, int variant);
const char *item_fault_suite(const struct item *it, const char *kind);
extern int g_custom_trace[8];
extern int g_custom_ntrace;
extern __thread int g_custom_fail;
int imbv_custom_cipher(IMB_JOB *job);
int imbv_custom_hash(IMB_JOB *job);
int item_permitted_tag_lens(IMB_HASH_ALG h, int *l);
void refs_selftest_or_die(void);

/* constraint catalogue (eng_reject.c) */
struct pert {
        char name[64];
        int nacc;
        int acc[4]; /* acceptable error codes; -1 = any non-zero */
        int expect_valid; /* boundary value that must be ACCEPTED */
};
int imbv_perturb(const struct item *it, int idx, IMB_JOB *job, struct pert *p, const void **des3_tmp);
#ifdef IMB_VERIF
void imb_verif_set_cpu_feature_mask(const uint64_t mask);
#endif

/* ------------------------------------------------------------------ engines */
typedef int (*engine_fn)(void);
int eng_probe(void);
int eng_conf(void);
int eng_mix(void);
int eng_ring(void);
int eng_suite(void);
int eng_bounds(void);
int eng_nver(void);
int eng_entry(void);
int eng_sgl(void);
int eng_keys(void);
int eng_reject(void);
int eng_residue(void);
int eng_desc(void);
int eng_reinit(void);
int eng_crash(void);
int eng_threads(void);
int eng_abi(void);
int eng_ct(void);
int eng_selftest(void);

#endif
