/*
 * Reference models used as oracles by the runtime monitors.
 * Everything here is written from the published specifications and is independent of the
 * code under /repo/lib. Each group has a self-test against published vectors
 * (ref_*_selftest() returns 0 when every vector is reproduced).
 */
#ifndef IMBV_REF_H
#define IMBV_REF_H
#include <stddef.h>
#include <stdint.h>

/* ---------------------------------------------------------------- block primitives (ref_prim.c) */
/* generic 16-byte block function: ctx is whatever the mode was given */
typedef void (*ref_blk_fn)(const void *ctx, const uint8_t in[16], uint8_t out[16]);

struct ref_aes_key {
        int keylen; /* 16, 24, 32 */
        uint8_t key[32];
};
void ref_aes_enc(const void *ctx /* struct ref_aes_key */, const uint8_t in[16], uint8_t out[16]);
void ref_aes_dec(const void *ctx, const uint8_t in[16], uint8_t out[16]);
/* expanded keys, FIPS-197 layout (nr+1 round keys of 16 bytes, byte order as in memory) */
void ref_aes_expand_enc(const uint8_t *key, int keylen, uint8_t *rk /* 16*(nr+1) */);
/* equivalent-inverse-cipher schedule as used by AESDEC: rk_dec[0]=rk_enc[nr],
 * rk_dec[i]=InvMixColumns(rk_enc[nr-i]) for 0<i<nr, rk_dec[nr]=rk_enc[0] */
void ref_aes_expand_dec(const uint8_t *key, int keylen, uint8_t *rk);

void ref_des_enc(const void *ctx /* uint8_t key[8] */, const uint8_t in[8], uint8_t out[8]);
void ref_des_dec(const void *ctx, const uint8_t in[8], uint8_t out[8]);

int ref_prim_selftest(void);

/* ---------------------------------------------------------------- SM3 / SM4 (ref_sm.c) */
void ref_sm4_enc(const void *ctx /* uint8_t key[16] */, const uint8_t in[16], uint8_t out[16]);
void ref_sm4_dec(const void *ctx, const uint8_t in[16], uint8_t out[16]);
/* 32 round keys rk[0..31] in encryption order (GB/T 32907) */
void ref_sm4_expand(const uint8_t key[16], uint32_t rk[32]);
void ref_sm3(const uint8_t *msg, size_t len, uint8_t out[32]);
/* compression function: state is 8 words (host order), block is 64 bytes */
void ref_sm3_compress(uint32_t state[8], const uint8_t block[64]);
void ref_sm3_init(uint32_t state[8]);
int ref_sm_selftest(void);

/* ---------------------------------------------------------------- modes (ref_modes.c) */
/* GCM (NIST SP 800-38D) over any 128-bit block cipher, any IV length >= 1, tag_len 1..16.
 * decrypt != 0: in = ciphertext, out = plaintext, tag = tag computed over the ciphertext. */
void ref_gcm(ref_blk_fn enc, const void *ctx, int decrypt, const uint8_t *iv, size_t iv_len,
             const uint8_t *aad, size_t aad_len, const uint8_t *in, uint8_t *out, size_t len,
             uint8_t *tag, size_t tag_len);
/* GHASH_H(msg padded with zeros to a multiple of 16) starting from state 'init' (NULL = zero),
 * NO length block appended; bit order as in SP 800-38D */
void ref_ghash_raw(const uint8_t h[16], const uint8_t *init, const uint8_t *msg, size_t len,
                   uint8_t out[16]);
/* CCM (NIST SP 800-38C / RFC 3610): nonce_len 7..13, tag_len even 4..16 */
void ref_ccm(ref_blk_fn enc, const void *ctx, int decrypt, const uint8_t *nonce, size_t nonce_len,
             const uint8_t *aad, size_t aad_len, const uint8_t *in, uint8_t *out, size_t len,
             uint8_t *tag, size_t tag_len);
/* CMAC (SP 800-38B) over a message of len_bits bits (3GPP 128-EIA2 uses non-byte lengths:
 * the message is the first len_bits bits, MSB first, then the 10* padding) */
void ref_cmac(ref_blk_fn enc, const void *ctx, const uint8_t *msg, uint64_t len_bits, uint8_t *tag,
              size_t tag_len);
/* CMAC sub-keys K1,K2 */
void ref_cmac_subkeys(ref_blk_fn enc, const void *ctx, uint8_t k1[16], uint8_t k2[16]);
/* AES-XCBC-MAC-96 (RFC 3566), tag_len 12 or 16; k1,k2,k3 derived from key */
void ref_xcbc(const uint8_t key[16], const uint8_t *msg, size_t len, uint8_t *tag, size_t tag_len);
void ref_xcbc_keys(const uint8_t key[16], uint8_t k1[16], uint8_t k2[16], uint8_t k3[16]);
/* ChaCha20 (RFC 8439) with 32-bit block counter and 12-byte nonce */
void ref_chacha20(const uint8_t key[32], uint32_t counter, const uint8_t nonce[12],
                  const uint8_t *in, uint8_t *out, size_t len);
void ref_poly1305(const uint8_t key[32], const uint8_t *msg, size_t len, uint8_t tag[16]);
void ref_chacha20_poly1305(int decrypt, const uint8_t key[32], const uint8_t nonce[12],
                           const uint8_t *aad, size_t aad_len, const uint8_t *in, uint8_t *out,
                           size_t len, uint8_t tag[16]);
int ref_modes_selftest(void);

/* ---------------------------------------------------------------- ZUC (ref_zuc.c) */
/* keystream words, big-endian when serialised */
void ref_zuc128_keystream(const uint8_t key[16], const uint8_t iv[16], uint32_t *ks, size_t nwords);
/* ZUC-256: iv_len 25 (iv[17..24] carry 6 bits each in their low bits) or 23 (packed form:
 * iv[0..16] as is, then eight 6-bit values packed MSB-first into iv[17..22]) */
void ref_zuc256_keystream(const uint8_t key[32], const uint8_t *iv, size_t iv_len,
                          unsigned tag_len /* 0 = cipher, 4, 8, 16 = MAC variant constants */,
                          uint32_t *ks, size_t nwords);
/* 128-EEA3 on whole bytes (len in bytes); out = in XOR keystream */
void ref_zuc128_eea3(const uint8_t key[16], const uint8_t iv[16], const uint8_t *in, uint8_t *out,
                     size_t len);
void ref_zuc256_eea3(const uint8_t key[32], const uint8_t *iv, size_t iv_len, const uint8_t *in,
                     uint8_t *out, size_t len);
/* 128-EIA3: MAC over len_bits bits of msg (MSB first); tag is 4 bytes big-endian */
void ref_zuc128_eia3(const uint8_t key[16], const uint8_t iv[16], const uint8_t *msg,
                     uint64_t len_bits, uint8_t tag[4]);
/* ZUC-256 MAC, tag_len 4, 8 or 16 */
void ref_zuc256_eia3(const uint8_t key[32], const uint8_t *iv, size_t iv_len, const uint8_t *msg,
                     uint64_t len_bits, uint8_t *tag, size_t tag_len);
int ref_zuc_selftest(void);

/* ---------------------------------------------------------------- SNOW3G / KASUMI (ref_3g.c) */
/* iv is the 16-byte IV exactly as intel-ipsec-mb takes it (IV3|IV2|IV1|IV0, each big-endian) */
void ref_snow3g_keystream(const uint8_t key[16], const uint8_t iv[16], uint32_t *ks, size_t nwords);
/* UEA2/f8 over len_bits bits starting at bit 0 of in (MSB first); bits of the last byte beyond
 * len_bits are copied from 'in' unchanged */
void ref_snow3g_f8(const uint8_t key[16], const uint8_t iv[16], const uint8_t *in, uint8_t *out,
                   uint64_t len_bits);
/* UIA2/f9: 16-byte IV as intel-ipsec-mb takes it; tag 4 bytes */
void ref_snow3g_f9(const uint8_t key[16], const uint8_t iv[16], const uint8_t *msg,
                   uint64_t len_bits, uint8_t tag[4]);
/* KASUMI block cipher */
void ref_kasumi_block(const uint8_t key[16], const uint8_t in[8], uint8_t out[8]);
/* f8 with the 8-byte IV as intel-ipsec-mb takes it (COUNT|BEARER|DIR|0..0, big-endian 64-bit) */
void ref_kasumi_f8(const uint8_t key[16], const uint8_t iv[8], const uint8_t *in, uint8_t *out,
                   uint64_t len_bits);
/* f9 as the intel-ipsec-mb job/direct API defines it: 'msg' of len bytes is the complete padded
 * input string (COUNT|FRESH|MESSAGE|DIRECTION|1|0*), already byte aligned; tag 4 bytes */
void ref_kasumi_f9(const uint8_t key[16], const uint8_t *msg, size_t len, uint8_t tag[4]);
int ref_3g_selftest(void);

/* ---------------------------------------------------------------- SNOW-V (ref_snowv.c) */
void ref_snowv_keystream(const uint8_t key[32], const uint8_t iv[16], int aead_mode, uint8_t *ks,
                         size_t nbytes);
void ref_snowv(const uint8_t key[32], const uint8_t iv[16], const uint8_t *in, uint8_t *out,
               size_t len);
/* SNOW-V-GCM AEAD from the SNOW-V paper, tag 16 bytes */
void ref_snowv_aead(int decrypt, const uint8_t key[32], const uint8_t iv[16], const uint8_t *aad,
                    size_t aad_len, const uint8_t *in, uint8_t *out, size_t len, uint8_t tag[16]);
int ref_snowv_selftest(void);

/* ---------------------------------------------------------------- CRCs (ref_crc.c) */
struct ref_crc_params {
        const char *name;
        unsigned width;
        uint32_t poly;
        uint32_t init;
        int refin, refout;
        uint32_t xorout;
};
uint32_t ref_crc(const struct ref_crc_params *p, const uint8_t *msg, size_t len);
int ref_crc_selftest(void);

#endif
