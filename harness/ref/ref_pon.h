/*
 * Independent reference model of the intel-ipsec-mb "PON" combined mode
 * (IMB_CIPHER_PON_AES_CNTR + IMB_AUTH_PON_CRC_BIP) and of IMB_HEC_32 / IMB_HEC_64.
 * Plain portable C11, written from the definitions (ITU-T G.987.3 XGEM framing, IEEE 802.3 FCS,
 * SP 800-38A counter mode); nothing is derived from the library's folding constants.
 *
 * Semantics of one PON job (src -> frame, msg_len_to_hash -> frame_len, msg_len_to_cipher ->
 * cipher_len, hash_start_src_offset 0, cipher_start_src_offset 8, dst = src + 8):
 *
 *  - frame = 8-byte XGEM header followed by payload; the header is one big-endian 64-bit word
 *    PLI(14) | KeyIdx(2) | PortId(16) | Options(18) | LF(1) | HEC(13)   (MSB first).
 *    PLI = header >> 50 = payload length in bytes (before padding to a multiple of 4).
 *  - encrypt (decrypt == 0), in this order:
 *      1. HEC: the low 13 bits of the header are recomputed from the upper 51 bits and written
 *         back into frame[0..8) (whatever was there before is ignored);
 *      2. if PLI > 4: Ethernet FCS (CRC-32, poly 0x04C11DB7 reflected, init and xorout
 *         0xFFFFFFFF) over payload[0 .. PLI-4) is stored little-endian (the usual FCS byte
 *         order) at payload[PLI-4 .. PLI), whatever was there before is ignored;
 *         if PLI <= 4 nothing is computed and nothing is written;
 *      3. AES-128-CTR over payload[0 .. cipher_len): block i is XORed with E(K, IV + i), the
 *         16-byte IV being one 128-bit big-endian integer, addition mod 2^128 (the carry goes
 *         through all 16 bytes; the first block uses the IV itself). This covers the CRC field
 *         and the padding bytes. cipher_len == 0: no ciphering at all;
 *      4. BIP = XOR of all 32-bit words of the frame as it now is (new header, ciphertext).
 *  - decrypt (decrypt != 0), in this order:
 *      1. BIP = XOR of all 32-bit words of the frame as received (header is NOT touched and its
 *         HEC is NOT verified; payload still ciphertext);
 *      2. AES-128-CTR over payload[0 .. cipher_len);
 *      3. if PLI > 4: FCS over the recovered payload[0 .. PLI-4) is reported in *crc; the four
 *         bytes payload[PLI-4 .. PLI) stay as decrypted (the library does not compare them).
 *    So in both directions BIP is over the transmitted form (header + ciphertext) and CRC is
 *    over the plaintext.
 *  - tag written by the library (8 bytes) = BIP as little-endian uint32 || CRC as little-endian
 *    uint32, i.e. tag[i] (i<4) is the XOR of all frame bytes at offsets == i mod 4, and tag[4..8)
 *    are the same four bytes as the FCS field on the wire. *bip / *crc are those two uint32.
 *  - PLI <= 4: the CRC half of the tag is NOT defined by the library: the SSE/AVX code stores a
 *    stale callee-saved register (r13) there, the VAES-AVX512 code leaves tag[4..8) untouched.
 *    The model returns 0 and sets *crc = 0 in that case; callers must not compare tag[4..8).
 *  - BIP coverage: the documented contract is "msg_len_to_hash bytes from the start of the
 *    frame" and that is what the model computes (frame_len bytes). The library, all variants,
 *    in fact covers 8 + msg_len_to_cipher bytes whenever msg_len_to_cipher != 0 and ignores
 *    msg_len_to_hash; the two agree for every well formed job (frame_len == 8 + cipher_len, or
 *    cipher_len == 0). Jobs with 0 < cipher_len < frame_len - 8 are off-contract: expect a BIP
 *    difference there (the library omits the unciphered tail).
 *
 * Validation (2026-10): 13 PON KAT vectors both directions, 24 + 33 HEC KAT vectors, and a
 * differential run against the library built from /repo on init_mb_mgr_sse / _avx2 / _avx512
 * (8704 well formed random jobs each, PLI 0..16383, IVs with 32/64/128-bit counter wrap, both
 * directions, with and without ciphering, extra padding words; 200000 random HEC_32 / HEC_64
 * each): identical output frame, BIP and CRC everywhere except the library defects below.
 * Known library deviations from this model (the model is right, do not "fix" it):
 *  - avx512 type 2 (VAES), cipher_len == 0 and frame_len == 8 (header only): the library XORs
 *    the 64 bytes following the header into BIP (reads out of bounds); sse / avx2 are correct.
 *  - cipher_len == 0 and PLI > frame_len - 8 is accepted by the job checker: sse/avx walk off
 *    the buffer (SIGSEGV), avx512 reads PLI-4 bytes and on encrypt writes the CRC out of bounds.
 *    The model returns -1 for such jobs.
 *  - tag[4..8) when PLI <= 4 (see above) differs between variants.
 *
 * Preconditions (ref_pon returns -1 and touches nothing otherwise):
 *    frame_len >= 8, frame_len % 4 == 0, cipher_len % 4 == 0, cipher_len <= frame_len - 8,
 *    and, when PLI > 4, PLI <= cipher_len (cipher_len != 0) or PLI <= frame_len - 8
 *    (cipher_len == 0). The library rejects PLI > cipher_len with IMB_ERR_JOB_PON_PLI but has
 *    no check at all for cipher_len == 0 (it then reads, and on encrypt writes, out of bounds).
 */
#ifndef IMBV_REF_PON_H
#define IMBV_REF_PON_H
#include <stddef.h>
#include <stdint.h>

/* AES-128 block encryption is supplied by the caller so the model has no crypto dependency */
typedef void (*ref_pon_blk_fn)(const void *ctx, const uint8_t in[16], uint8_t out[16]);

/*
 * Process frame[0..frame_len) in place exactly like one PON job (see above).
 * enc/ctx/iv may be NULL when cipher_len == 0. bip and crc may be NULL.
 * Returns 1: *bip and *crc valid (PLI > 4)
 *         0: *bip valid, no CRC computed (PLI <= 4), *crc set to 0, library tag[4..8) undefined
 *        -1: precondition violated, nothing written
 */
int ref_pon(ref_pon_blk_fn enc, const void *ctx, int decrypt, const uint8_t iv[16], uint8_t *frame,
            size_t frame_len, size_t cipher_len, uint32_t *bip, uint32_t *crc);

/*
 * HEC on the arithmetic value of the header (hdr = the big-endian number on the wire, i.e.
 * hdr >> 13 are the 19 / 51 protected bits). The low 13 bits of the argument are ignored.
 * HEC[12:1] = remainder of (protected bits) * x^12 divided by
 *             g(x) = x^12 + x^10 + x^8 + x^5 + x^4 + x^3 + 1   (BCH(63,12,2), G.987.3 9.1.2,
 *             shortened to 31 bits for the 32-bit form),
 * HEC[0]    = even parity bit over the other 31 / 63 bits (whole word has even weight).
 */
uint32_t ref_pon_hec32_be(uint32_t hdr);
uint64_t ref_pon_hec64_be(uint64_t hdr);

/*
 * Same value IMB_HEC_32(mgr, p) / IMB_HEC_64(mgr, p) return when the argument is the uint32_t /
 * uint64_t a little-endian host loads from p (memcpy(&x, p, 4 or 8)): the library takes a pointer
 * to the header in wire (big-endian) byte order, ignores the 13 HEC bits and returns the
 * completed header "ready for store", i.e. again byte-swapped. Defined arithmetically
 * (least significant byte of the argument = first byte on the wire), so host independent.
 */
uint32_t ref_pon_hec32(uint32_t hdr_without_hec);
uint64_t ref_pon_hec64(uint64_t hdr_without_hec);

/* Ethernet FCS as used by PON (exposed for convenience) */
uint32_t ref_pon_crc32(const uint8_t *msg, size_t len);

/* 0 = all embedded vectors pass (13 PON vectors in both directions, HEC vectors, AES/CRC KATs);
 * otherwise the number of the first failing check */
int ref_pon_selftest(void);

#endif /* IMBV_REF_PON_H */
