/*
 * Reference model: SM3 hash (GB/T 32905-2016) and SM4 block cipher (GB/T 32907-2016).
 *
 * Written from the standards (see also draft-sca-cfrg-sm3 and draft-ribose-cfrg-sm4, which are
 * English transcriptions).  Independent of the code under /repo/lib.
 *
 * Conventions: both algorithms are big endian - message/key/block bytes are grouped into 32-bit
 * words most significant byte first; the SM3 bit length is appended as a 64-bit big-endian
 * integer; the SM3 digest is the 8 state words serialised big endian.  The uint32_t values
 * exposed by this file (SM3 state words, SM4 round keys) are host-order integers holding those
 * big-endian words.
 */
#include <stdio.h>
#include <string.h>

#include "ref.h"

#ifdef REF_HAVE_OPENSSL_SM
#include <openssl/evp.h>
#endif

static uint32_t
rotl32(uint32_t v, unsigned n)
{
        n &= 31;
        return n ? (v << n) | (v >> (32 - n)) : v;
}

static uint32_t
ld32be(const uint8_t *p)
{
        return ((uint32_t) p[0] << 24) | ((uint32_t) p[1] << 16) | ((uint32_t) p[2] << 8) |
               (uint32_t) p[3];
}

static void
st32be(uint8_t *p, uint32_t v)
{
        p[0] = (uint8_t) (v >> 24);
        p[1] = (uint8_t) (v >> 16);
        p[2] = (uint8_t) (v >> 8);
        p[3] = (uint8_t) v;
}

/* ------------------------------------------------------------------------------------------ */
/* SM3 */

void
ref_sm3_init(uint32_t state[8])
{
        static const uint32_t iv[8] = { 0x7380166f, 0x4914b2b9, 0x172442d7, 0xda8a0600,
                                        0xa96f30bc, 0x163138aa, 0xe38dee4d, 0xb0fb0e4e };

        memcpy(state, iv, sizeof(iv));
}

static uint32_t
sm3_p0(uint32_t x)
{
        return x ^ rotl32(x, 9) ^ rotl32(x, 17);
}

static uint32_t
sm3_p1(uint32_t x)
{
        return x ^ rotl32(x, 15) ^ rotl32(x, 23);
}

void
ref_sm3_compress(uint32_t state[8], const uint8_t block[64])
{
        uint32_t w[68], w1[64];
        uint32_t a, b, c, d, e, f, g, h;

        /* message expansion */
        for (int j = 0; j < 16; j++)
                w[j] = ld32be(&block[4 * j]);
        for (int j = 16; j < 68; j++)
                w[j] = sm3_p1(w[j - 16] ^ w[j - 9] ^ rotl32(w[j - 3], 15)) ^ rotl32(w[j - 13], 7) ^
                       w[j - 6];
        for (int j = 0; j < 64; j++)
                w1[j] = w[j] ^ w[j + 4];

        a = state[0];
        b = state[1];
        c = state[2];
        d = state[3];
        e = state[4];
        f = state[5];
        g = state[6];
        h = state[7];

        for (unsigned j = 0; j < 64; j++) {
                const uint32_t tj = (j < 16) ? 0x79cc4519 : 0x7a879d8a;
                const uint32_t ff = (j < 16) ? (a ^ b ^ c) : ((a & b) | (a & c) | (b & c));
                const uint32_t gg = (j < 16) ? (e ^ f ^ g) : ((e & f) | (~e & g));
                const uint32_t ss1 = rotl32(rotl32(a, 12) + e + rotl32(tj, j % 32), 7);
                const uint32_t ss2 = ss1 ^ rotl32(a, 12);
                const uint32_t tt1 = ff + d + ss2 + w1[j];
                const uint32_t tt2 = gg + h + ss1 + w[j];

                d = c;
                c = rotl32(b, 9);
                b = a;
                a = tt1;
                h = g;
                g = rotl32(f, 19);
                f = e;
                e = sm3_p0(tt2);
        }

        state[0] ^= a;
        state[1] ^= b;
        state[2] ^= c;
        state[3] ^= d;
        state[4] ^= e;
        state[5] ^= f;
        state[6] ^= g;
        state[7] ^= h;
}

void
ref_sm3(const uint8_t *msg, size_t len, uint8_t out[32])
{
        uint32_t state[8];
        uint8_t last[128];
        size_t off = 0, rem, padded;
        const uint64_t bits = (uint64_t) len * 8;

        ref_sm3_init(state);
        for (; len - off >= 64; off += 64)
                ref_sm3_compress(state, msg + off);

        /* padding: bit '1', k zero bits so that the length is 448 mod 512, 64-bit bit length */
        rem = len - off;
        memset(last, 0, sizeof(last));
        if (rem > 0)
                memcpy(last, msg + off, rem);
        last[rem] = 0x80;
        padded = (rem < 56) ? 64 : 128;
        for (int i = 0; i < 8; i++)
                last[padded - 1 - i] = (uint8_t) (bits >> (8 * i));
        ref_sm3_compress(state, last);
        if (padded == 128)
                ref_sm3_compress(state, last + 64);

        for (int i = 0; i < 8; i++)
                st32be(&out[4 * i], state[i]);
}

/* ------------------------------------------------------------------------------------------ */
/* SM4 */

/* S-box of GB/T 32907-2016; verified against its algebraic description by the self-test */
static const uint8_t sm4_sbox[256] = {
        0xd6, 0x90, 0xe9, 0xfe, 0xcc, 0xe1, 0x3d, 0xb7, 0x16, 0xb6, 0x14, 0xc2, 0x28, 0xfb, 0x2c, 0x05,
        0x2b, 0x67, 0x9a, 0x76, 0x2a, 0xbe, 0x04, 0xc3, 0xaa, 0x44, 0x13, 0x26, 0x49, 0x86, 0x06, 0x99,
        0x9c, 0x42, 0x50, 0xf4, 0x91, 0xef, 0x98, 0x7a, 0x33, 0x54, 0x0b, 0x43, 0xed, 0xcf, 0xac, 0x62,
        0xe4, 0xb3, 0x1c, 0xa9, 0xc9, 0x08, 0xe8, 0x95, 0x80, 0xdf, 0x94, 0xfa, 0x75, 0x8f, 0x3f, 0xa6,
        0x47, 0x07, 0xa7, 0xfc, 0xf3, 0x73, 0x17, 0xba, 0x83, 0x59, 0x3c, 0x19, 0xe6, 0x85, 0x4f, 0xa8,
        0x68, 0x6b, 0x81, 0xb2, 0x71, 0x64, 0xda, 0x8b, 0xf8, 0xeb, 0x0f, 0x4b, 0x70, 0x56, 0x9d, 0x35,
        0x1e, 0x24, 0x0e, 0x5e, 0x63, 0x58, 0xd1, 0xa2, 0x25, 0x22, 0x7c, 0x3b, 0x01, 0x21, 0x78, 0x87,
        0xd4, 0x00, 0x46, 0x57, 0x9f, 0xd3, 0x27, 0x52, 0x4c, 0x36, 0x02, 0xe7, 0xa0, 0xc4, 0xc8, 0x9e,
        0xea, 0xbf, 0x8a, 0xd2, 0x40, 0xc7, 0x38, 0xb5, 0xa3, 0xf7, 0xf2, 0xce, 0xf9, 0x61, 0x15, 0xa1,
        0xe0, 0xae, 0x5d, 0xa4, 0x9b, 0x34, 0x1a, 0x55, 0xad, 0x93, 0x32, 0x30, 0xf5, 0x8c, 0xb1, 0xe3,
        0x1d, 0xf6, 0xe2, 0x2e, 0x82, 0x66, 0xca, 0x60, 0xc0, 0x29, 0x23, 0xab, 0x0d, 0x53, 0x4e, 0x6f,
        0xd5, 0xdb, 0x37, 0x45, 0xde, 0xfd, 0x8e, 0x2f, 0x03, 0xff, 0x6a, 0x72, 0x6d, 0x6c, 0x5b, 0x51,
        0x8d, 0x1b, 0xaf, 0x92, 0xbb, 0xdd, 0xbc, 0x7f, 0x11, 0xd9, 0x5c, 0x41, 0x1f, 0x10, 0x5a, 0xd8,
        0x0a, 0xc1, 0x31, 0x88, 0xa5, 0xcd, 0x7b, 0xbd, 0x2d, 0x74, 0xd0, 0x12, 0xb8, 0xe5, 0xb4, 0xb0,
        0x89, 0x69, 0x97, 0x4a, 0x0c, 0x96, 0x77, 0x7e, 0x65, 0xb9, 0xf1, 0x09, 0xc5, 0x6e, 0xc6, 0x84,
        0x18, 0xf0, 0x7d, 0xec, 0x3a, 0xdc, 0x4d, 0x20, 0x79, 0xee, 0x5f, 0x3e, 0xd7, 0xcb, 0x39, 0x48
};

/* non-linear transformation tau: four parallel S-boxes */
static uint32_t
sm4_tau(uint32_t a)
{
        return ((uint32_t) sm4_sbox[(a >> 24) & 0xff] << 24) |
               ((uint32_t) sm4_sbox[(a >> 16) & 0xff] << 16) |
               ((uint32_t) sm4_sbox[(a >> 8) & 0xff] << 8) | (uint32_t) sm4_sbox[a & 0xff];
}

/* round transformation T = L o tau */
static uint32_t
sm4_t(uint32_t a)
{
        const uint32_t b = sm4_tau(a);

        return b ^ rotl32(b, 2) ^ rotl32(b, 10) ^ rotl32(b, 18) ^ rotl32(b, 24);
}

/* key schedule transformation T' = L' o tau */
static uint32_t
sm4_t_key(uint32_t a)
{
        const uint32_t b = sm4_tau(a);

        return b ^ rotl32(b, 13) ^ rotl32(b, 23);
}

void
ref_sm4_expand(const uint8_t key[16], uint32_t rk[32])
{
        static const uint32_t fk[4] = { 0xa3b1bac6, 0x56aa3350, 0x677d9197, 0xb27022dc };
        uint32_t k[36];

        for (int i = 0; i < 4; i++)
                k[i] = ld32be(&key[4 * i]) ^ fk[i];
        for (unsigned i = 0; i < 32; i++) {
                /* CK_i = (ck_i0, ck_i1, ck_i2, ck_i3), ck_ij = (4i + j) * 7 mod 256 */
                uint32_t ck = 0;

                for (unsigned j = 0; j < 4; j++)
                        ck = (ck << 8) | (((4 * i + j) * 7) & 0xff);
                k[i + 4] = k[i] ^ sm4_t_key(k[i + 1] ^ k[i + 2] ^ k[i + 3] ^ ck);
                rk[i] = k[i + 4];
        }
}

/* 32 rounds followed by the reverse transformation R; decrypt = round keys in reverse order */
static void
sm4_crypt(const uint8_t key[16], int decrypt, const uint8_t in[16], uint8_t out[16])
{
        uint32_t rk[32], x[36];

        ref_sm4_expand(key, rk);
        for (int i = 0; i < 4; i++)
                x[i] = ld32be(&in[4 * i]);
        for (int i = 0; i < 32; i++)
                x[i + 4] = x[i] ^ sm4_t(x[i + 1] ^ x[i + 2] ^ x[i + 3] ^ rk[decrypt ? 31 - i : i]);
        for (int i = 0; i < 4; i++)
                st32be(&out[4 * i], x[35 - i]);
}

void
ref_sm4_enc(const void *ctx, const uint8_t in[16], uint8_t out[16])
{
        sm4_crypt((const uint8_t *) ctx, 0, in, out);
}

void
ref_sm4_dec(const void *ctx, const uint8_t in[16], uint8_t out[16])
{
        sm4_crypt((const uint8_t *) ctx, 1, in, out);
}

/* ------------------------------------------------------------------------------------------ */
/* self-test */

#define ST_MAX 160 /* largest embedded field in bytes */

static size_t
unhex(const char *hex, uint8_t *out, size_t max)
{
        size_t n = 0;

        while (hex[0] != '\0' && hex[1] != '\0' && n < max) {
                unsigned v = 0;

                for (int k = 0; k < 2; k++) {
                        const char c = hex[k];

                        v <<= 4;
                        if (c >= '0' && c <= '9')
                                v |= (unsigned) (c - '0');
                        else if (c >= 'a' && c <= 'f')
                                v |= (unsigned) (c - 'a' + 10);
                        else if (c >= 'A' && c <= 'F')
                                v |= (unsigned) (c - 'A' + 10);
                }
                out[n++] = (uint8_t) v;
                hex += 2;
        }
        return n;
}

static void
dump(const char *what, const uint8_t *p, size_t n)
{
        fprintf(stderr, "    %s:", what);
        for (size_t i = 0; i < n; i++)
                fprintf(stderr, "%s%02x", (i % 32 == 0 && n > 32) ? "\n      " : "", p[i]);
        fprintf(stderr, "\n");
}

static int
check(const char *name, unsigned id, const char *what, const uint8_t *got, const uint8_t *exp,
      size_t n)
{
        if (n == 0 || memcmp(got, exp, n) == 0)
                return 0;
        fprintf(stderr, "ref_sm_selftest: %s vector %u: %s mismatch\n", name, id, what);
        dump("expected", exp, n);
        dump("got     ", got, n);
        return 1;
}

struct sm3_vec {
        unsigned id;
        const char *msg, *digest;
};

static const struct sm3_vec sm3_vecs[] = {
        { 101, /* GB/T 32905-2016 A.1: "abc" */
          "616263",
          "66c7f0f462eeedd9d1f2d46bdc10e4e24167c4875cf2f7a2297da02b8f4ba8e0" },
        { 102, /* GB/T 32905-2016 A.2: "abcd" x 16 (64 bytes) */
          "6162636461626364616263646162636461626364616263646162636461626364"
          "6162636461626364616263646162636461626364616263646162636461626364",
          "debe9ff92275b8a138604889c18e5a4d6fdb70e5387e5765293dcba39c0c5732" },
        { 103, /* empty message */
          "",
          "1ab21d8355cfa17f8e61194831e81a8f22bec8c728fefb747ed035eb5082aa2b" },
        { 1, /* sm3_test.json.c tcId 1, 56 bytes */
          "21f22741f17be73b74084066d15f0f9ed6cf29d325c1e9ce6e61e7f47ccf2ce7"
          "2204b507835af33eb107a271314a658c76bd53ff7fbd0308",
          "7ad685e59099d6eb116e3e6e39083f4436f2021a890e93b91a3b8d1dbd50b64b" },
        { 2, /* sm3_test.json.c tcId 2, 55 bytes */
          "257f7e160fd24106075206f3ff3637682e5933fde394ea818230164bea28eb3d"
          "1f523c6296cfee914c5428dadd6aa9ad8884ced32dd84e",
          "6ecc9a0946e13b3b279c01424d15b74132fb72d903e948c3294ff2752a4a857e" },
        { 3, /* sm3_test.json.c tcId 3, 120 bytes */
          "3f894220e23d374d5171c0f111aad7e3dd03fa653efa38e66c2af42cb0ca715a"
          "54c5b5fc4faecae531afc0ed41f4afe4b43a68cdcaa935883694f67b8a584ded"
          "0aa042a396d85ddfcc032ff4fb250e5de9ec00145799b0c605a0fa018fcf82d8"
          "f01e3acd3bfd2571b402a95b17c48b7a402dc04b26e44547",
          "61c617fa5d1ff2da3d46b721024dde5fe73b1ef8508b31e8a3c63adef2628fb2" },
        { 4, /* sm3_test.json.c tcId 4, 119 bytes */
          "72085f207e8d027ad566068fa7bc11b85957399ad4bde5bbf4f1cc586e3dce73"
          "73e930f183267eeb8a16a5b640a792a19b29153b1bfc296ec4c5a71cefba2f10"
          "592ed7190edfe5e017fc7c0d617c34c39176f20f64dd837eb74a980a5ee0ba48"
          "d4c79186ad947337142e602428cffd5b96896fae9f168a",
          "cb825d42a95eec9c917c8c70c64963bc0a65dddc9a59ccf39be257977d5d53eb" },
};

struct sm4_vec {
        unsigned id;
        const char *key, *pt, *ct;
};

static const struct sm4_vec sm4_vecs[] = {
        { 101, /* GB/T 32907-2016 A.1 */
          "0123456789abcdeffedcba9876543210",
          "0123456789abcdeffedcba9876543210",
          "681edf34d206965e86b3e94f536e4246" },
        { 1, /* sm4_ecb_test.json.c tcId 1, first 144 of 144 bytes */
          "4faecae531afc0ed41f4afe4b43a68cd",
          "f17be73b74084066d15f0f9ed6cf29d325c1e9ce6e61e7f47ccf2ce72204b507"
          "835af33eb107a271314a658c76bd53ff7fbd0308257f7e160fd24106075206f3"
          "ff3637682e5933fde394ea818230164bea28eb3d1f523c6296cfee914c5428da"
          "dd6aa9ad8884ced3682dd84e3f894220e23d374d5171c0f111aad7e3dd03fa65"
          "3efa38e66c2af42cb0ca715a54c5b5fc",
          "7eae3539693c5ec22865436f49884beb08a3cde28d501845b5692dda959ee8c2"
          "693d56dbec8c1e53b33dc1e6834273f7b64958fdae40763106a7e9cd2e936579"
          "4a988c5385081435967cad64e23a1668cdd4634f650b874ae0008449e6fa07de"
          "e519e1c91bf684590c98136b84103c04e60c3da5a76f14033d92d1c085a83adc"
          "de809d3b4e48219e145e3b8e99bbcdd4" },
        { 2, /* sm4_ecb_test.json.c tcId 2, first 32 of 288 bytes */
          "e54662a034ce5b8d5757d01b8b96d738",
          "3694f67b8a584ded0aa042a396d85ddfcc032ff4fb250e5de9ec00145799b0c6",
          "f75acab8b4e37a8bd2a8ec691fe5ee3fd1e764ff593c01edf4c45d863258e911" },
        { 3, /* sm4_ecb_test.json.c tcId 3, first 32 of 432 bytes */
          "7f0945c4ceab69c16ebec92da7aa1fc5",
          "8810285f76b3ad4527ce3578518a389421a4b3673e4aac5b89ec2a832e7e932b",
          "adc751ccfca5ef417155e7a693bf0bf01c78378f03293ce2e4bfb330cf265d74" },
};

/* recompute the SM4 S-box from its algebraic description
 *   S(x) = A( Inv( A(x) + c ) ) + c
 * Inv = multiplicative inverse in GF(2^8) mod x^8+x^7+x^6+x^5+x^4+x^2+1 (0 -> 0),
 * A = cyclic (circulant) GF(2) matrix, A(x) = x ^ x<<<1 ^ x<<<3 ^ x<<<6 ^ x<<<7, c = 0xd3 */
static uint8_t
sm4_gf_mul(uint8_t a, uint8_t b)
{
        uint8_t p = 0;

        while (b) {
                if (b & 1)
                        p ^= a;
                a = (uint8_t) ((a << 1) ^ ((a & 0x80) ? 0xf5 : 0x00));
                b >>= 1;
        }
        return p;
}

static uint8_t
sm4_affine(uint8_t x)
{
#define ROTL8(v, n) ((uint8_t) (((v) << (n)) | ((v) >> (8 - (n)))))
        return (uint8_t) (x ^ ROTL8(x, 1) ^ ROTL8(x, 3) ^ ROTL8(x, 6) ^ ROTL8(x, 7));
#undef ROTL8
}

static int
check_sm4_sbox(void)
{
        int fails = 0;

        for (unsigned x = 0; x < 256; x++) {
                const uint8_t t = (uint8_t) (sm4_affine((uint8_t) x) ^ 0xd3);
                uint8_t inv = 0, r;

                for (unsigned y = 1; y < 256 && t != 0; y++)
                        if (sm4_gf_mul(t, (uint8_t) y) == 1) {
                                inv = (uint8_t) y;
                                break;
                        }
                r = (uint8_t) (sm4_affine(inv) ^ 0xd3);
                if (r != sm4_sbox[x]) {
                        fprintf(stderr, "ref_sm_selftest: SM4 S-box[0x%02x] = 0x%02x, algebraic "
                                        "description gives 0x%02x\n", x, sm4_sbox[x], r);
                        fails++;
                }
        }
        return fails;
}

/* small deterministic generator for the randomised checks */
static uint64_t st_rng_state;

static uint32_t
st_rand(void)
{
        /* xorshift64* */
        st_rng_state ^= st_rng_state >> 12;
        st_rng_state ^= st_rng_state << 25;
        st_rng_state ^= st_rng_state >> 27;
        return (uint32_t) ((st_rng_state * 0x2545f4914f6cdd1dULL) >> 32);
}

static void
st_fill(uint8_t *p, size_t n)
{
        for (size_t i = 0; i < n; i++)
                p[i] = (uint8_t) (st_rand() >> 13);
}

#ifdef REF_HAVE_OPENSSL_SM
#define OSSL_RAND_CASES 200
#define OSSL_MAX_MSG    300

static int
ossl_sm3(const uint8_t *msg, size_t len, uint8_t out[32])
{
        EVP_MD_CTX *c = EVP_MD_CTX_new();
        unsigned olen = 0;
        int ok;

        if (c == NULL)
                return 0;
        ok = EVP_DigestInit_ex(c, EVP_sm3(), NULL) == 1 && EVP_DigestUpdate(c, msg, len) == 1 &&
             EVP_DigestFinal_ex(c, out, &olen) == 1 && olen == 32;
        EVP_MD_CTX_free(c);
        return ok;
}

static int
ossl_sm4_ecb(int enc, const uint8_t key[16], const uint8_t in[16], uint8_t out[16])
{
        EVP_CIPHER_CTX *c = EVP_CIPHER_CTX_new();
        uint8_t buf[32];
        int n1 = 0, n2 = 0, ok;

        if (c == NULL)
                return 0;
        ok = EVP_CipherInit_ex(c, EVP_sm4_ecb(), NULL, key, NULL, enc) == 1 &&
             EVP_CIPHER_CTX_set_padding(c, 0) == 1 && EVP_CipherUpdate(c, buf, &n1, in, 16) == 1 &&
             EVP_CipherFinal_ex(c, buf + n1, &n2) == 1 && n1 + n2 == 16;
        if (ok)
                memcpy(out, buf, 16);
        EVP_CIPHER_CTX_free(c);
        return ok;
}

static int
cross_check_openssl(void)
{
        int fails = 0;
        uint8_t msg[OSSL_MAX_MSG], d1[32], d2[32], key[16], in[16], o1[16], o2[16];

        for (unsigned i = 0; i < OSSL_RAND_CASES; i++) {
                /* lengths: the first 130 cases sweep 0..129 (all padding cases), rest random */
                const size_t len = (i < 130) ? i : st_rand() % (OSSL_MAX_MSG + 1);

                st_fill(msg, len);
                if (!ossl_sm3(msg, len, d2)) {
                        fprintf(stderr, "ref_sm_selftest: OpenSSL EVP_sm3() not usable\n");
                        return fails + 1;
                }
                ref_sm3(msg, len, d1);
                if (check("SM3 vs OpenSSL, length", (unsigned) len, "digest", d1, d2, 32)) {
                        dump("message ", msg, len);
                        fails++;
                }
        }
        for (unsigned i = 0; i < OSSL_RAND_CASES; i++) {
                st_fill(key, 16);
                st_fill(in, 16);
                if (!ossl_sm4_ecb(1, key, in, o2)) {
                        fprintf(stderr, "ref_sm_selftest: OpenSSL EVP_sm4_ecb() not usable\n");
                        return fails + 1;
                }
                ref_sm4_enc(key, in, o1);
                if (check("SM4 vs OpenSSL, case", i, "encryption", o1, o2, 16)) {
                        dump("key     ", key, 16);
                        dump("input   ", in, 16);
                        fails++;
                }
                if (!ossl_sm4_ecb(0, key, in, o2)) {
                        fprintf(stderr, "ref_sm_selftest: OpenSSL EVP_sm4_ecb() not usable\n");
                        return fails + 1;
                }
                ref_sm4_dec(key, in, o1);
                if (check("SM4 vs OpenSSL, case", i, "decryption", o1, o2, 16)) {
                        dump("key     ", key, 16);
                        dump("input   ", in, 16);
                        fails++;
                }
        }
        return fails;
}
#endif /* REF_HAVE_OPENSSL_SM */

int
ref_sm_selftest(void)
{
        int fails = 0;
        uint8_t msg[ST_MAX], dig[32], key[16], pt[ST_MAX], ct[ST_MAX], out[ST_MAX];

        st_rng_state = 0x9e3779b97f4a7c15ULL;

        /* ---- SM3 ---- */
        for (size_t i = 0; i < sizeof(sm3_vecs) / sizeof(sm3_vecs[0]); i++) {
                const struct sm3_vec *v = &sm3_vecs[i];
                const size_t len = unhex(v->msg, msg, sizeof(msg));
                uint8_t exp[32];

                if (unhex(v->digest, exp, 32) != 32 || strlen(v->msg) != 2 * len) {
                        fprintf(stderr, "ref_sm_selftest: bad embedded SM3 vector %u\n", v->id);
                        fails++;
                        continue;
                }
                ref_sm3(len ? msg : NULL, len, dig);
                fails += check("SM3", v->id, "digest", dig, exp, 32);
        }
        {
                /* init/compress interface: hash "abcd" x 16 by hand (one data block, one block
                 * holding only the padding) and compare with the one-shot function */
                uint32_t st[8];
                uint8_t blk[64], d2[32];

                for (int i = 0; i < 64; i++)
                        blk[i] = (uint8_t) ("abcd"[i & 3]);
                ref_sm3(blk, 64, dig);
                ref_sm3_init(st);
                ref_sm3_compress(st, blk);
                memset(blk, 0, sizeof(blk));
                blk[0] = 0x80;
                blk[62] = 0x02; /* 512 bits */
                ref_sm3_compress(st, blk);
                for (int i = 0; i < 8; i++)
                        st32be(&d2[4 * i], st[i]);
                fails += check("SM3", 0, "init/compress vs one-shot", d2, dig, 32);
                /* first word of the standard's IV, host order */
                ref_sm3_init(st);
                if (st[0] != 0x7380166fU || st[7] != 0xb0fb0e4eU) {
                        fprintf(stderr, "ref_sm_selftest: SM3 IV wrong\n");
                        fails++;
                }
        }

        /* ---- SM4 ---- */
        fails += check_sm4_sbox();
        for (size_t i = 0; i < sizeof(sm4_vecs) / sizeof(sm4_vecs[0]); i++) {
                const struct sm4_vec *v = &sm4_vecs[i];
                const size_t len = unhex(v->pt, pt, sizeof(pt));

                if (unhex(v->key, key, 16) != 16 || unhex(v->ct, ct, sizeof(ct)) != len ||
                    len % 16 != 0 || strlen(v->pt) != 2 * len) {
                        fprintf(stderr, "ref_sm_selftest: bad embedded SM4 vector %u\n", v->id);
                        fails++;
                        continue;
                }
                for (size_t off = 0; off < len; off += 16)
                        ref_sm4_enc(key, pt + off, out + off);
                fails += check("SM4", v->id, "encryption", out, ct, len);
                for (size_t off = 0; off < len; off += 16)
                        ref_sm4_dec(key, ct + off, out + off);
                fails += check("SM4", v->id, "decryption", out, pt, len);
        }
        {
                /* GB/T 32907-2016 A.1 also lists the round keys: check both ends of the schedule */
                uint32_t rk[32];

                unhex("0123456789abcdeffedcba9876543210", key, 16);
                ref_sm4_expand(key, rk);
                if (rk[0] != 0xf12186f9U || rk[1] != 0x41662b61U || rk[31] != 0x9124a012U) {
                        fprintf(stderr,
                                "ref_sm_selftest: SM4 round keys rk0=%08x rk1=%08x rk31=%08x, "
                                "expected f12186f9 41662b61 9124a012\n",
                                (unsigned) rk[0], (unsigned) rk[1], (unsigned) rk[31]);
                        fails++;
                }
        }
        /* enc/dec round trip on random keys and blocks, also in place */
        for (unsigned i = 0; i < 64; i++) {
                uint8_t blk[16], tmp[16];

                st_fill(key, 16);
                st_fill(blk, 16);
                ref_sm4_enc(key, blk, tmp);
                ref_sm4_dec(key, tmp, tmp);
                fails += check("SM4", i, "enc/dec round trip", tmp, blk, 16);
                ref_sm4_dec(key, blk, tmp);
                ref_sm4_enc(key, tmp, tmp);
                fails += check("SM4", i, "dec/enc round trip", tmp, blk, 16);
        }

#ifdef REF_HAVE_OPENSSL_SM
        fails += cross_check_openssl();
#endif
        return fails;
}
