/*
 * Reference models for block-cipher modes and the ChaCha20/Poly1305 family.
 *
 * Written from the specifications only:
 *   GCM / GHASH          NIST SP 800-38D
 *   CCM                  NIST SP 800-38C, RFC 3610
 *   CMAC                 NIST SP 800-38B (bit-length variant as used by 3GPP 128-EIA2, TS 33.401)
 *   AES-XCBC-MAC         RFC 3566
 *   ChaCha20, Poly1305   RFC 8439
 *
 * Clarity over speed; nothing here is constant time. All functions accept in == out
 * (in-place operation) and NULL data pointers when the matching length is zero.
 */
#include "ref.h"

#include <stdio.h>
#include <stdlib.h>
#include <string.h>

#ifdef REF_HAVE_OPENSSL
#include <openssl/core_names.h>
#include <openssl/evp.h>
#include <openssl/params.h>
#endif

/* ------------------------------------------------------------------------------------------ */
/* small helpers                                                                              */
/* ------------------------------------------------------------------------------------------ */

static void
xor_block(uint8_t dst[16], const uint8_t src[16])
{
        for (int i = 0; i < 16; i++)
                dst[i] ^= src[i];
}

/* memcpy that tolerates (NULL, 0) */
static void
copy_bytes(uint8_t *dst, const uint8_t *src, size_t n)
{
        if (n != 0)
                memcpy(dst, src, n);
}

static void
put_be64(uint8_t *p, uint64_t v)
{
        for (int i = 7; i >= 0; i--) {
                p[i] = (uint8_t) v;
                v >>= 8;
        }
}

static uint64_t
get_be64(const uint8_t *p)
{
        uint64_t v = 0;

        for (int i = 0; i < 8; i++)
                v = (v << 8) | p[i];
        return v;
}

static uint32_t
get_le32(const uint8_t *p)
{
        return (uint32_t) p[0] | ((uint32_t) p[1] << 8) | ((uint32_t) p[2] << 16) |
               ((uint32_t) p[3] << 24);
}

static void
put_le32(uint8_t *p, uint32_t v)
{
        p[0] = (uint8_t) v;
        p[1] = (uint8_t) (v >> 8);
        p[2] = (uint8_t) (v >> 16);
        p[3] = (uint8_t) (v >> 24);
}

static uint64_t
get_le64(const uint8_t *p)
{
        return (uint64_t) get_le32(p) | ((uint64_t) get_le32(p + 4) << 32);
}

static void
put_le64(uint8_t *p, uint64_t v)
{
        put_le32(p, (uint32_t) v);
        put_le32(p + 4, (uint32_t) (v >> 32));
}

/* ------------------------------------------------------------------------------------------ */
/* GF(2^128) arithmetic and GHASH (SP 800-38D section 6.3 / 6.4)                              */
/* ------------------------------------------------------------------------------------------ */

/*
 * A block is the bit string x0 x1 ... x127 where x0 is the most significant bit of byte 0.
 * hi holds x0..x63 (x0 = bit 63 of hi), lo holds x64..x127 (x127 = bit 0 of lo).
 */
struct gf128 {
        uint64_t hi, lo;
};

static struct gf128
gf_load(const uint8_t b[16])
{
        struct gf128 v = { get_be64(b), get_be64(b + 8) };

        return v;
}

static void
gf_store(uint8_t b[16], struct gf128 v)
{
        put_be64(b, v.hi);
        put_be64(b + 8, v.lo);
}

/* Algorithm 1 of SP 800-38D: Z = X * Y, R = 11100001 || 0^120 */
static struct gf128
gf_mul(struct gf128 x, struct gf128 y)
{
        struct gf128 z = { 0, 0 };
        struct gf128 v = y;

        for (int i = 0; i < 128; i++) {
                /* bit x_i as an all-ones / all-zeros mask (avoids unpredictable branches) */
                const uint64_t xi = (i < 64) ? (x.hi >> (63 - i)) & 1 : (x.lo >> (127 - i)) & 1;
                const uint64_t xmask = 0 - xi;

                /* if x_i = 1 then Z = Z xor V */
                z.hi ^= v.hi & xmask;
                z.lo ^= v.lo & xmask;

                /* V = V >> 1, xor R if the bit shifted out (v_127) was set */
                const uint64_t rmask = 0 - (v.lo & 1);

                v.lo = (v.lo >> 1) | (v.hi << 63);
                v.hi >>= 1;
                v.hi ^= 0xe100000000000000ULL & rmask;
        }
        return z;
}

/* Y = (Y xor X_i) * H for every (zero padded) 16-byte block of msg */
static void
ghash_update(struct gf128 *y, struct gf128 h, const uint8_t *msg, size_t len)
{
        while (len != 0) {
                const size_t n = (len < 16) ? len : 16;
                uint8_t blk[16] = { 0 };

                memcpy(blk, msg, n);
                const struct gf128 x = gf_load(blk);

                y->hi ^= x.hi;
                y->lo ^= x.lo;
                *y = gf_mul(*y, h);
                msg += n;
                len -= n;
        }
}

void
ref_ghash_raw(const uint8_t h[16], const uint8_t *init, const uint8_t *msg, size_t len,
              uint8_t out[16])
{
        struct gf128 y = { 0, 0 };

        if (init != NULL)
                y = gf_load(init);
        ghash_update(&y, gf_load(h), msg, len);
        gf_store(out, y);
}

/* ------------------------------------------------------------------------------------------ */
/* GCM (SP 800-38D section 7)                                                                 */
/* ------------------------------------------------------------------------------------------ */

/* inc_32: increment the rightmost 32 bits modulo 2^32, leave the other 96 bits alone */
static void
gcm_inc32(uint8_t ctr[16])
{
        for (int i = 15; i >= 12; i--) {
                ctr[i]++;
                if (ctr[i] != 0)
                        break;
        }
}

void
ref_gcm(ref_blk_fn enc, const void *ctx, int decrypt, const uint8_t *iv, size_t iv_len,
        const uint8_t *aad, size_t aad_len, const uint8_t *in, uint8_t *out, size_t len,
        uint8_t *tag, size_t tag_len)
{
        const uint8_t zero[16] = { 0 };
        uint8_t hb[16], j0[16], ctr[16], ks[16], lenblk[16], s[16];
        struct gf128 h, y;

        /* H = CIPH_K(0^128) */
        enc(ctx, zero, hb);
        h = gf_load(hb);

        /* J0 */
        if (iv_len == 12) {
                memcpy(j0, iv, 12);
                j0[12] = 0;
                j0[13] = 0;
                j0[14] = 0;
                j0[15] = 1;
        } else {
                /* J0 = GHASH_H(IV || 0^(s+64) || [len(IV)]_64) */
                y.hi = 0;
                y.lo = 0;
                ghash_update(&y, h, iv, iv_len);
                put_be64(lenblk, 0);
                put_be64(lenblk + 8, (uint64_t) iv_len * 8);
                ghash_update(&y, h, lenblk, 16);
                gf_store(j0, y);
        }

        /* S = GHASH_H(A || 0^v || C || 0^u || [len(A)]_64 || [len(C)]_64) */
        y.hi = 0;
        y.lo = 0;
        ghash_update(&y, h, aad, aad_len);
        if (decrypt)
                ghash_update(&y, h, in, len); /* 'in' is the ciphertext: hash before overwriting */

        /* GCTR_K(inc32(J0), text) */
        memcpy(ctr, j0, 16);
        for (size_t off = 0; off < len; off += 16) {
                const size_t n = (len - off < 16) ? len - off : 16;

                gcm_inc32(ctr);
                enc(ctx, ctr, ks);
                for (size_t i = 0; i < n; i++)
                        out[off + i] = in[off + i] ^ ks[i];
        }

        if (!decrypt)
                ghash_update(&y, h, out, len);
        put_be64(lenblk, (uint64_t) aad_len * 8);
        put_be64(lenblk + 8, (uint64_t) len * 8);
        ghash_update(&y, h, lenblk, 16);
        gf_store(s, y);

        /* T = MSB_t(GCTR_K(J0, S)) */
        enc(ctx, j0, ks);
        xor_block(s, ks);
        copy_bytes(tag, s, tag_len > 16 ? 16 : tag_len);
}

/* ------------------------------------------------------------------------------------------ */
/* CCM (SP 800-38C appendix A formatting == RFC 3610)                                         */
/* ------------------------------------------------------------------------------------------ */

/* CBC-MAC absorber: bytes are collected into 16-byte blocks, each block is xored in and
 * encrypted; cbcmac_pad() completes a partial block with zeros */
struct cbcmac {
        ref_blk_fn enc;
        const void *ctx;
        uint8_t x[16];
        uint8_t buf[16];
        size_t fill;
};

static void
cbcmac_block(struct cbcmac *m, const uint8_t blk[16])
{
        uint8_t t[16];

        memcpy(t, m->x, 16);
        xor_block(t, blk);
        m->enc(m->ctx, t, m->x);
}

static void
cbcmac_absorb(struct cbcmac *m, const uint8_t *p, size_t n)
{
        for (size_t i = 0; i < n; i++) {
                m->buf[m->fill++] = p[i];
                if (m->fill == 16) {
                        cbcmac_block(m, m->buf);
                        m->fill = 0;
                }
        }
}

static void
cbcmac_pad(struct cbcmac *m)
{
        if (m->fill != 0) {
                memset(m->buf + m->fill, 0, 16 - m->fill);
                cbcmac_block(m, m->buf);
                m->fill = 0;
        }
}

/* counter block Ctr_i: flags = [q-1]_3, then N, then [i]_8q */
static void
ccm_ctr_block(uint8_t a[16], const uint8_t *nonce, size_t nonce_len, uint64_t i)
{
        const size_t q = 15 - nonce_len;

        a[0] = (uint8_t) (q - 1);
        memcpy(a + 1, nonce, nonce_len);
        for (size_t k = 15; k > nonce_len; k--) {
                a[k] = (uint8_t) i;
                i >>= 8;
        }
}

void
ref_ccm(ref_blk_fn enc, const void *ctx, int decrypt, const uint8_t *nonce, size_t nonce_len,
        const uint8_t *aad, size_t aad_len, const uint8_t *in, uint8_t *out, size_t len,
        uint8_t *tag, size_t tag_len)
{
        const size_t q = 15 - nonce_len; /* octets in the length field, "L" in RFC 3610 */
        struct cbcmac mac;
        uint8_t b0[16], a[16], ks[16], s0[16];
        uint64_t qv;

        memset(&mac, 0, sizeof(mac));
        mac.enc = enc;
        mac.ctx = ctx;

        /* B0: flags = 0 | Adata | [(t-2)/2]_3 | [q-1]_3, then N, then [plen]_8q */
        b0[0] = (uint8_t) ((aad_len != 0 ? 0x40 : 0) | (((tag_len - 2) / 2) << 3) | (q - 1));
        memcpy(b0 + 1, nonce, nonce_len);
        qv = (uint64_t) len;
        for (size_t k = 15; k > nonce_len; k--) {
                b0[k] = (uint8_t) qv;
                qv >>= 8;
        }
        cbcmac_block(&mac, b0);

        /* associated data: length encoding, data, zero padding to a block boundary */
        if (aad_len != 0) {
                uint8_t hdr[10];
                size_t hl;
                const uint64_t al = (uint64_t) aad_len;

                if (al < 0xff00) { /* 0 < a < 2^16 - 2^8: [a]_16 */
                        hdr[0] = (uint8_t) (al >> 8);
                        hdr[1] = (uint8_t) al;
                        hl = 2;
                } else if (al <= 0xffffffffULL) { /* 0xff 0xfe || [a]_32 */
                        hdr[0] = 0xff;
                        hdr[1] = 0xfe;
                        for (int k = 0; k < 4; k++)
                                hdr[2 + k] = (uint8_t) (al >> (24 - 8 * k));
                        hl = 6;
                } else { /* 0xff 0xff || [a]_64 */
                        hdr[0] = 0xff;
                        hdr[1] = 0xff;
                        put_be64(hdr + 2, al);
                        hl = 10;
                }
                cbcmac_absorb(&mac, hdr, hl);
                cbcmac_absorb(&mac, aad, aad_len);
                cbcmac_pad(&mac);
        }

        /* payload: CTR with Ctr_1.., CBC-MAC always runs over the plaintext */
        for (size_t off = 0; off < len; off += 16) {
                const size_t n = (len - off < 16) ? len - off : 16;
                uint8_t blk[16], pt[16];

                ccm_ctr_block(a, nonce, nonce_len, (uint64_t) (off / 16) + 1);
                enc(ctx, a, ks);
                memcpy(blk, in + off, n);
                for (size_t i = 0; i < n; i++) {
                        const uint8_t o = blk[i] ^ ks[i];

                        pt[i] = decrypt ? o : blk[i];
                        out[off + i] = o;
                }
                cbcmac_absorb(&mac, pt, n);
        }
        cbcmac_pad(&mac);

        /* U = MSB_t(T xor S0), S0 = CIPH_K(Ctr_0) */
        ccm_ctr_block(a, nonce, nonce_len, 0);
        enc(ctx, a, s0);
        xor_block(s0, mac.x);
        copy_bytes(tag, s0, tag_len > 16 ? 16 : tag_len);
}

/* ------------------------------------------------------------------------------------------ */
/* CMAC (SP 800-38B)                                                                          */
/* ------------------------------------------------------------------------------------------ */

/* multiplication by x in GF(2^128), polynomial x^128 + x^7 + x^2 + x + 1 (R_128 = 0x87) */
static void
cmac_dbl(uint8_t out[16], const uint8_t in[16])
{
        const uint8_t msb = in[0] >> 7;

        for (int i = 0; i < 15; i++)
                out[i] = (uint8_t) ((in[i] << 1) | (in[i + 1] >> 7));
        out[15] = (uint8_t) (in[15] << 1);
        if (msb)
                out[15] ^= 0x87;
}

void
ref_cmac_subkeys(ref_blk_fn enc, const void *ctx, uint8_t k1[16], uint8_t k2[16])
{
        const uint8_t zero[16] = { 0 };
        uint8_t l[16];

        enc(ctx, zero, l);
        cmac_dbl(k1, l);
        cmac_dbl(k2, k1);
}

void
ref_cmac(ref_blk_fn enc, const void *ctx, const uint8_t *msg, uint64_t len_bits, uint8_t *tag,
         size_t tag_len)
{
        uint8_t k1[16], k2[16], x[16] = { 0 }, last[16] = { 0 }, t[16];
        uint64_t nblk = (len_bits + 127) / 128;

        ref_cmac_subkeys(enc, ctx, k1, k2);
        if (nblk == 0)
                nblk = 1; /* the empty message is one incomplete block */

        /* all blocks but the last */
        for (uint64_t i = 0; i + 1 < nblk; i++) {
                xor_block(x, msg + 16 * i);
                enc(ctx, x, t);
                memcpy(x, t, 16);
        }

        /* last block: complete -> xor K1; otherwise append 1 0..0 and xor K2 */
        const uint64_t rem_bits = len_bits - 128 * (nblk - 1); /* 0..128 */
        const uint8_t *p = (msg != NULL) ? msg + 16 * (nblk - 1) : NULL;

        if (rem_bits == 128) {
                memcpy(last, p, 16);
                xor_block(last, k1);
        } else {
                const size_t full = (size_t) (rem_bits / 8);
                const unsigned rb = (unsigned) (rem_bits % 8);

                copy_bytes(last, p, full);
                if (rb != 0) {
                        /* keep the top rb bits of the partial byte, then the single 1 bit */
                        const uint8_t keep = (uint8_t) (0xff << (8 - rb));

                        last[full] = (uint8_t) ((p[full] & keep) | (0x80 >> rb));
                } else {
                        last[full] = 0x80;
                }
                xor_block(last, k2);
        }
        xor_block(x, last);
        enc(ctx, x, t);
        copy_bytes(tag, t, tag_len > 16 ? 16 : tag_len);
}

/* ------------------------------------------------------------------------------------------ */
/* AES-XCBC-MAC (RFC 3566)                                                                    */
/* ------------------------------------------------------------------------------------------ */

void
ref_xcbc_keys(const uint8_t key[16], uint8_t k1[16], uint8_t k2[16], uint8_t k3[16])
{
        struct ref_aes_key k;
        uint8_t c[16];

        memset(&k, 0, sizeof(k));
        k.keylen = 16;
        memcpy(k.key, key, 16);
        memset(c, 0x01, 16);
        ref_aes_enc(&k, c, k1);
        memset(c, 0x02, 16);
        ref_aes_enc(&k, c, k2);
        memset(c, 0x03, 16);
        ref_aes_enc(&k, c, k3);
}

void
ref_xcbc(const uint8_t key[16], const uint8_t *msg, size_t len, uint8_t *tag, size_t tag_len)
{
        struct ref_aes_key kk1;
        uint8_t k1[16], k2[16], k3[16], e[16] = { 0 }, t[16], last[16] = { 0 };

        ref_xcbc_keys(key, k1, k2, k3);
        memset(&kk1, 0, sizeof(kk1));
        kk1.keylen = 16;
        memcpy(kk1.key, k1, 16);

        /* blocks M[1] .. M[n-1] */
        while (len > 16) {
                xor_block(e, msg);
                ref_aes_enc(&kk1, e, t);
                memcpy(e, t, 16);
                msg += 16;
                len -= 16;
        }
        /* block M[n]: exactly 128 bits -> K2, otherwise (including empty) pad 10* -> K3 */
        if (len == 16) {
                memcpy(last, msg, 16);
                xor_block(last, k2);
        } else {
                copy_bytes(last, msg, len);
                last[len] = 0x80;
                xor_block(last, k3);
        }
        xor_block(e, last);
        ref_aes_enc(&kk1, e, t);
        copy_bytes(tag, t, tag_len > 16 ? 16 : tag_len);
}

/* ------------------------------------------------------------------------------------------ */
/* ChaCha20 (RFC 8439 section 2.1 - 2.4)                                                      */
/* ------------------------------------------------------------------------------------------ */

static uint32_t
rotl32(uint32_t v, int n)
{
        return (v << n) | (v >> (32 - n));
}

static void
chacha_qr(uint32_t s[16], int a, int b, int c, int d)
{
        s[a] += s[b];
        s[d] ^= s[a];
        s[d] = rotl32(s[d], 16);
        s[c] += s[d];
        s[b] ^= s[c];
        s[b] = rotl32(s[b], 12);
        s[a] += s[b];
        s[d] ^= s[a];
        s[d] = rotl32(s[d], 8);
        s[c] += s[d];
        s[b] ^= s[c];
        s[b] = rotl32(s[b], 7);
}

static void
chacha20_block(const uint8_t key[32], uint32_t counter, const uint8_t nonce[12], uint8_t out[64])
{
        uint32_t init[16], s[16];

        init[0] = 0x61707865;
        init[1] = 0x3320646e;
        init[2] = 0x79622d32;
        init[3] = 0x6b206574;
        for (int i = 0; i < 8; i++)
                init[4 + i] = get_le32(key + 4 * i);
        init[12] = counter;
        for (int i = 0; i < 3; i++)
                init[13 + i] = get_le32(nonce + 4 * i);

        memcpy(s, init, sizeof(s));
        for (int r = 0; r < 10; r++) {
                /* column round */
                chacha_qr(s, 0, 4, 8, 12);
                chacha_qr(s, 1, 5, 9, 13);
                chacha_qr(s, 2, 6, 10, 14);
                chacha_qr(s, 3, 7, 11, 15);
                /* diagonal round */
                chacha_qr(s, 0, 5, 10, 15);
                chacha_qr(s, 1, 6, 11, 12);
                chacha_qr(s, 2, 7, 8, 13);
                chacha_qr(s, 3, 4, 9, 14);
        }
        for (int i = 0; i < 16; i++)
                put_le32(out + 4 * i, s[i] + init[i]);
}

void
ref_chacha20(const uint8_t key[32], uint32_t counter, const uint8_t nonce[12], const uint8_t *in,
             uint8_t *out, size_t len)
{
        uint8_t ks[64];

        for (size_t off = 0; off < len; off += 64) {
                const size_t n = (len - off < 64) ? len - off : 64;

                chacha20_block(key, counter, nonce, ks);
                counter++; /* 32-bit counter, wraps modulo 2^32 */
                for (size_t i = 0; i < n; i++)
                        out[off + i] = in[off + i] ^ ks[i];
        }
}

/* ------------------------------------------------------------------------------------------ */
/* Poly1305 (RFC 8439 section 2.5)                                                            */
/* ------------------------------------------------------------------------------------------ */

typedef unsigned __int128 u128;

/*
 * Accumulator h = h0 + h1*2^64 + h2*2^128 (h2 stays tiny), r = r0 + r1*2^64 after clamping
 * (r0, r1 < 2^60), p = 2^130 - 5.
 */
struct poly1305 {
        uint64_t r0, r1;
        uint64_t s0, s1;
        uint64_t h0, h1, h2;
        uint8_t buf[16];
        size_t fill;
};

static void
poly1305_init(struct poly1305 *st, const uint8_t key[32])
{
        uint8_t r[16];

        memcpy(r, key, 16);
        /* clamp: r[3], r[7], r[11], r[15] top four bits clear; r[4], r[8], r[12] low two clear */
        r[3] &= 15;
        r[7] &= 15;
        r[11] &= 15;
        r[15] &= 15;
        r[4] &= 252;
        r[8] &= 252;
        r[12] &= 252;
        st->r0 = get_le64(r);
        st->r1 = get_le64(r + 8);
        st->s0 = get_le64(key + 16);
        st->s1 = get_le64(key + 24);
        st->h0 = 0;
        st->h1 = 0;
        st->h2 = 0;
        st->fill = 0;
}

/* h = (h + n) * r mod p (partially reduced), n = n0 + n1*2^64 + n2*2^128 */
static void
poly1305_step(struct poly1305 *st, uint64_t n0, uint64_t n1, uint64_t n2)
{
        u128 c;

        /* h += n */
        c = (u128) st->h0 + n0;
        const uint64_t a0 = (uint64_t) c;

        c = (c >> 64) + st->h1 + n1;
        const uint64_t a1 = (uint64_t) c;
        const uint64_t a2 = (uint64_t) (c >> 64) + st->h2 + n2;

        /* schoolbook product (a0 + a1 2^64 + a2 2^128) * (r0 + r1 2^64) -> d0..d3 */
        u128 t0 = (u128) a0 * st->r0;
        u128 t1 = (u128) a0 * st->r1 + (u128) a1 * st->r0;
        u128 t2 = (u128) a1 * st->r1 + (u128) a2 * st->r0;
        u128 t3 = (u128) a2 * st->r1;

        const uint64_t d0 = (uint64_t) t0;

        t1 += t0 >> 64;
        const uint64_t d1 = (uint64_t) t1;

        t2 += t1 >> 64;
        const uint64_t d2 = (uint64_t) t2;

        t3 += t2 >> 64;
        const uint64_t d3 = (uint64_t) t3; /* product < 2^255, nothing above d3 */

        /* split at bit 130: product = low + 2^130 * high, and 2^130 = 5 (mod p) */
        const uint64_t hi0 = (d2 >> 2) | (d3 << 62);
        const uint64_t hi1 = d3 >> 2;

        c = (u128) d0 + (u128) hi0 * 5;
        st->h0 = (uint64_t) c;
        c = (c >> 64) + d1 + (u128) hi1 * 5;
        st->h1 = (uint64_t) c;
        st->h2 = (d2 & 3) + (uint64_t) (c >> 64);
}

static void
poly1305_update(struct poly1305 *st, const uint8_t *p, size_t n)
{
        for (size_t i = 0; i < n; i++) {
                st->buf[st->fill++] = p[i];
                if (st->fill == 16) {
                        /* full block: 16 bytes little endian plus the 2^128 bit */
                        poly1305_step(st, get_le64(st->buf), get_le64(st->buf + 8), 1);
                        st->fill = 0;
                }
        }
}

static void
poly1305_final(struct poly1305 *st, uint8_t tag[16])
{
        u128 c;

        if (st->fill != 0) {
                /* short last block: append the byte 0x01, then zeros */
                st->buf[st->fill] = 1;
                memset(st->buf + st->fill + 1, 0, 16 - st->fill - 1);
                poly1305_step(st, get_le64(st->buf), get_le64(st->buf + 8), 0);
                st->fill = 0;
        }

        /* bring h below 2^130 */
        uint64_t h0 = st->h0, h1 = st->h1, h2 = st->h2;

        while (h2 >= 4) {
                const uint64_t over = h2 >> 2;

                h2 &= 3;
                c = (u128) h0 + (u128) over * 5;
                h0 = (uint64_t) c;
                c = (c >> 64) + h1;
                h1 = (uint64_t) c;
                h2 += (uint64_t) (c >> 64);
        }
        /* if h >= p then h - p = h + 5 - 2^130: compute g = h + 5 and test bit 130 */
        c = (u128) h0 + 5;
        const uint64_t g0 = (uint64_t) c;

        c = (c >> 64) + h1;
        const uint64_t g1 = (uint64_t) c;
        const uint64_t g2 = h2 + (uint64_t) (c >> 64);

        if (g2 >= 4) {
                h0 = g0;
                h1 = g1;
        }
        /* tag = (h + s) mod 2^128 */
        c = (u128) h0 + st->s0;
        put_le64(tag, (uint64_t) c);
        c = (c >> 64) + h1 + st->s1;
        put_le64(tag + 8, (uint64_t) c);
}

void
ref_poly1305(const uint8_t key[32], const uint8_t *msg, size_t len, uint8_t tag[16])
{
        struct poly1305 st;

        poly1305_init(&st, key);
        poly1305_update(&st, msg, len);
        poly1305_final(&st, tag);
}

/* ------------------------------------------------------------------------------------------ */
/* AEAD_CHACHA20_POLY1305 (RFC 8439 section 2.8)                                              */
/* ------------------------------------------------------------------------------------------ */

void
ref_chacha20_poly1305(int decrypt, const uint8_t key[32], const uint8_t nonce[12],
                      const uint8_t *aad, size_t aad_len, const uint8_t *in, uint8_t *out,
                      size_t len, uint8_t tag[16])
{
        const uint8_t zero[16] = { 0 };
        uint8_t blk0[64], lens[16];
        struct poly1305 st;

        /* one-time key: first 32 bytes of the block with counter 0 */
        chacha20_block(key, 0, nonce, blk0);
        poly1305_init(&st, blk0);

        /* mac_data = aad | pad16 | ciphertext | pad16 | le64(aad_len) | le64(len) */
        poly1305_update(&st, aad, aad_len);
        poly1305_update(&st, zero, (16 - aad_len % 16) % 16);
        if (decrypt) {
                poly1305_update(&st, in, len);
                ref_chacha20(key, 1, nonce, in, out, len);
        } else {
                ref_chacha20(key, 1, nonce, in, out, len);
                poly1305_update(&st, out, len);
        }
        poly1305_update(&st, zero, (16 - len % 16) % 16);
        put_le64(lens, (uint64_t) aad_len);
        put_le64(lens + 8, (uint64_t) len);
        poly1305_update(&st, lens, 16);
        poly1305_final(&st, tag);
}

/* ------------------------------------------------------------------------------------------ */
/* self-test                                                                                  */
/* ------------------------------------------------------------------------------------------ */

#define ST_MAX 1100 /* largest vector buffer (XCBC test case 7 is 1000 bytes) */

static int st_fail;   /* number of failed checks */
static int st_checks; /* number of checks performed */

static int
hexval(char c)
{
        if (c >= '0' && c <= '9')
                return c - '0';
        if (c >= 'a' && c <= 'f')
                return c - 'a' + 10;
        if (c >= 'A' && c <= 'F')
                return c - 'A' + 10;
        return -1;
}

/* hex string -> bytes, returns the number of bytes */
static size_t
unhex(const char *s, uint8_t *buf, size_t max)
{
        size_t n = 0;

        while (s[0] != '\0' && s[1] != '\0') {
                const int hi = hexval(s[0]), lo = hexval(s[1]);

                if (hi < 0 || lo < 0 || n >= max) {
                        fprintf(stderr, "ref_modes selftest: bad hex literal\n");
                        st_fail++;
                        return n;
                }
                buf[n++] = (uint8_t) (hi * 16 + lo);
                s += 2;
        }
        return n;
}

static void
st_check(const char *group, const char *name, const char *what, const uint8_t *got,
         const uint8_t *exp, size_t len)
{
        st_checks++;
        if (len == 0 || memcmp(got, exp, len) == 0)
                return;
        st_fail++;
        fprintf(stderr, "ref_modes selftest FAIL: %s %s (%s)\n  got: ", group, name, what);
        for (size_t i = 0; i < len; i++)
                fprintf(stderr, "%02x", got[i]);
        fprintf(stderr, "\n  exp: ");
        for (size_t i = 0; i < len; i++)
                fprintf(stderr, "%02x", exp[i]);
        fprintf(stderr, "\n");
}

static void
st_aes_key(struct ref_aes_key *k, const uint8_t *key, size_t len)
{
        memset(k, 0, sizeof(*k));
        k->keylen = (int) len;
        memcpy(k->key, key, len);
}

struct aead_vec {
        const char *name;
        const char *key, *iv, *aad, *pt, *ct, *tag;
};

/* ---- GCM: test cases of McGrew & Viega, "The Galois/Counter Mode of Operation (GCM)",
 *      appendix B (the NIST submission / gcm-revised-spec.pdf), plus one NIST CAVP vector */
#define GCM_K128 "feffe9928665731c6d6a8f9467308308"
#define GCM_K256 GCM_K128 GCM_K128
#define GCM_P64                                                                                    \
        "d9313225f88406e5a55909c5aff5269a86a7a9531534f7da2e4c303d8a318a72"                         \
        "1c3c0c95956809532fcf0e2449a6b525b16aedf5aa0de657ba637b391aafd255"
#define GCM_P60                                                                                    \
        "d9313225f88406e5a55909c5aff5269a86a7a9531534f7da2e4c303d8a318a72"                         \
        "1c3c0c95956809532fcf0e2449a6b525b16aedf5aa0de657ba637b39"
#define GCM_A20  "feedfacedeadbeeffeedfacedeadbeefabaddad2"
#define GCM_IV12 "cafebabefacedbaddecaf888"
#define GCM_IV8  "cafebabefacedbad"
#define GCM_IV60                                                                                   \
        "9313225df88406e555909c5aff5269aa6a7a9538534f7da1e4c303d2a318a728"                         \
        "c3c0c95156809539fcf0e2429a6b525416aedbf5a0de6a57a637b39b"
#define ZERO16 "00000000000000000000000000000000"

static const struct aead_vec gcm_vecs[] = {
        { "TC1 (AES-128)", ZERO16, "000000000000000000000000", "", "", "",
          "58e2fccefa7e3061367f1d57a4e7455a" },
        { "TC2 (AES-128)", ZERO16, "000000000000000000000000", "", ZERO16,
          "0388dace60b6a392f328c2b971b2fe78", "ab6e47d42cec13bdf53a67b21257bddf" },
        { "TC3 (AES-128)", GCM_K128, GCM_IV12, "", GCM_P64,
          "42831ec2217774244b7221b784d0d49ce3aa212f2c02a4e035c17e2329aca12e"
          "21d514b25466931c7d8f6a5aac84aa051ba30b396a0aac973d58e091473f5985",
          "4d5c2af327cd64a62cf35abd2ba6fab4" },
        { "TC4 (AES-128)", GCM_K128, GCM_IV12, GCM_A20, GCM_P60,
          "42831ec2217774244b7221b784d0d49ce3aa212f2c02a4e035c17e2329aca12e"
          "21d514b25466931c7d8f6a5aac84aa051ba30b396a0aac973d58e091",
          "5bc94fbc3221a5db94fae95ae7121a47" },
        { "TC5 (AES-128, 8-byte IV)", GCM_K128, GCM_IV8, GCM_A20, GCM_P60,
          "61353b4c2806934a777ff51fa22a4755699b2a714fcdc6f83766e5f97b6c7423"
          "73806900e49f24b22b097544d4896b424989b5e1ebac0f07c23f4598",
          "3612d2e79e3b0785561be14aaca2fccb" },
        { "TC6 (AES-128, 60-byte IV)", GCM_K128, GCM_IV60, GCM_A20, GCM_P60,
          "8ce24998625615b603a033aca13fb894be9112a5c3a211a8ba262a3cca7e2ca7"
          "01e4a9a4fba43c90ccdcb281d48c7c6fd62875d2aca417034c34aee5",
          "619cc5aefffe0bfa462af43c1699d050" },
        { "TC13 (AES-256)", ZERO16 ZERO16, "000000000000000000000000", "", "", "",
          "530f8afbc74536b9a963b4f1c4cb738b" },
        { "TC14 (AES-256)", ZERO16 ZERO16, "000000000000000000000000", "", ZERO16,
          "cea7403d4d606b6e074ec5d3baf39d18", "d0d1c8a799996bf0265b98b5d48ab919" },
        { "TC15 (AES-256)", GCM_K256, GCM_IV12, "", GCM_P64,
          "522dc1f099567d07f47f37a32a84427d643a8cdcbfe5c0c97598a2bd2555d1aa"
          "8cb08e48590dbb3da7b08b1056828838c5f61e6393ba7a0abcc9f662898015ad",
          "b094dac5d93471bdec1a502270e3cc6c" },
        { "TC16 (AES-256)", GCM_K256, GCM_IV12, GCM_A20, GCM_P60,
          "522dc1f099567d07f47f37a32a84427d643a8cdcbfe5c0c97598a2bd2555d1aa"
          "8cb08e48590dbb3da7b08b1056828838c5f61e6393ba7a0abcc9f662",
          "76fc6ece0f4e1768cddf8853bb2d551b" },
        { "TC17 (AES-256, 8-byte IV)", GCM_K256, GCM_IV8, GCM_A20, GCM_P60,
          "c3762df1ca787d32ae47c13bf19844cbaf1ae14d0b976afac52ff7d79bba9de0"
          "feb582d33934a4f0954cc2363bc73f7862ac430e64abe499f47c9b1f",
          "3a337dbf46a792c45e454913fe2ea8f2" },
        { "TC18 (AES-256, 60-byte IV)", GCM_K256, GCM_IV60, GCM_A20, GCM_P60,
          "5a8def2f0c9e53f1f75d7853659e2a20eeb2b22aafde6419a058ab4f6f746bf4"
          "0fc0c3b780f244452da3ebf1c5d82cdea2418997200ef82e44ae7e3f",
          "a44a8266ee1c8eb0c8b5d4cf5ae9f19a" },
        /* NIST CAVP gcmEncryptExtIV128.rsp: 1-byte IV */
        { "CAVP (AES-128, 1-byte IV)", "83f9d97d4ab759fddcc3ef54a0e2a8ec", "cf",
          "6dd49eaeb4103dac8f97e3234946dd2d", "77e6329cf9424f71c808df9170bfd298",
          "50de86a7a92a8a5ea33db5696b96cd77", "aa181e84bc8b4bf5a68927c409d422cb" },
        /* NIST CAVP: 128-byte IV, 90-byte AAD, 51-byte text, 32-bit tag */
        { "CAVP (AES-128, 128-byte IV, 4-byte tag)", "0e00c76561d2bd9b40c3c15427e2b08f",
          "492cadaccd3ca3fbc9cf9f06eb3325c4e159850b0dbe98199b89b7af52880661"
          "0b6f63998e1eae80c348e74cbb921d8326631631fc6a5d304f39166daf7ea15f"
          "a1977f101819adb510b50fe9932e12c5a85aa3fd1e73d8d760af218be829903a"
          "77c63359d75edd91b4f6ed5465a72662f5055999e059e7654a8edc921aa0d496",
          "d8f1163d8c840292a2b2dacf4ac7c36aff8733f18fabb4fa5594544125e03d1e"
          "6e5d6d0fd61656c8d8f327c92839ae5539bb469c9257f109ebff85aad7bd220f"
          "daa95c022dbd0c7bb2d878ad504122c943045d3c5eba8f1f56c0",
          "fef03c2d7fb15bf0d2df18007d99f967c878ad59359034f7bb2c19af120685d7"
          "8e32f6b8b83b032019956ca9c0195721476b85",
          "4f6cf471be7cbd2575cd5a1747aea8fe9dea83e51936beac3e68f66206922060"
          "c697ffa7af80ad6bb68f2cf4fc97416ee52abe",
          "e20b6655" },
};

static void
st_gcm(void)
{
        uint8_t key[32], iv[ST_MAX], aad[ST_MAX], pt[ST_MAX], ct[ST_MAX], tag[16];
        uint8_t out[ST_MAX], t[16];

        for (size_t v = 0; v < sizeof(gcm_vecs) / sizeof(gcm_vecs[0]); v++) {
                const struct aead_vec *e = &gcm_vecs[v];
                const size_t kl = unhex(e->key, key, sizeof(key));
                const size_t il = unhex(e->iv, iv, sizeof(iv));
                const size_t al = unhex(e->aad, aad, sizeof(aad));
                const size_t pl = unhex(e->pt, pt, sizeof(pt));
                const size_t cl = unhex(e->ct, ct, sizeof(ct));
                const size_t tl = unhex(e->tag, tag, sizeof(tag));
                struct ref_aes_key k;

                st_aes_key(&k, key, kl);
                if (cl != pl) {
                        fprintf(stderr, "ref_modes selftest: GCM %s: bad vector\n", e->name);
                        st_fail++;
                        continue;
                }
                /* every tag length from the published one down to 1: T = MSB_t(full tag) */
                for (size_t t_len = tl; t_len >= 1; t_len--) {
                        memset(out, 0xa5, sizeof(out));
                        memset(t, 0xa5, sizeof(t));
                        ref_gcm(ref_aes_enc, &k, 0, iv, il, aad, al, pt, out, pl, t, t_len);
                        st_check("GCM", e->name, "ciphertext", out, ct, pl);
                        st_check("GCM", e->name, "tag", t, tag, t_len);
                        /* nothing written beyond tag_len / len */
                        if ((t_len < 16 && t[t_len] != 0xa5) || out[pl] != 0xa5) {
                                fprintf(stderr, "ref_modes selftest FAIL: GCM %s overrun\n",
                                        e->name);
                                st_fail++;
                        }
                }
                /* decrypt direction, in place */
                memcpy(out, ct, cl);
                ref_gcm(ref_aes_enc, &k, 1, iv, il, aad, al, out, out, cl, t, tl);
                st_check("GCM", e->name, "decrypted text", out, pt, pl);
                st_check("GCM", e->name, "tag (decrypt)", t, tag, tl);
        }

        /* GHASH intermediate values printed for test case 2 in the GCM specification */
        {
                uint8_t h[16], c[16], x1[16], x2[16], lenblk[16], got[16];

                unhex("66e94bd4ef8a2c3b884cfa59ca342b2e", h, 16);
                unhex("0388dace60b6a392f328c2b971b2fe78", c, 16);
                unhex("5e2ec746917062882c85b0685353deb7", x1, 16);
                unhex("f38cbb1ad69223dcc3457ae5b6b0f885", x2, 16);
                unhex("00000000000000000000000000000080", lenblk, 16);
                ref_ghash_raw(h, NULL, c, 16, got);
                st_check("GHASH", "TC2", "X1", got, x1, 16);
                ref_ghash_raw(h, got, lenblk, 16, got);
                st_check("GHASH", "TC2", "GHASH(H,A,C)", got, x2, 16);
                /* a short message equals the same message zero padded */
                memset(lenblk, 0, 16);
                memcpy(lenblk, c, 5);
                ref_ghash_raw(h, x1, lenblk, 16, x2);
                ref_ghash_raw(h, x1, c, 5, got);
                st_check("GHASH", "TC2", "zero padding", got, x2, 16);
        }
}

/* ---- CCM: RFC 3610 section 8 packet vectors #1-#3, SP 800-38C appendix C examples 1-4 */
static const struct aead_vec ccm_vecs[] = {
        { "RFC3610 #1", "c0c1c2c3c4c5c6c7c8c9cacbcccdcecf", "00000003020100a0a1a2a3a4a5",
          "0001020304050607", "08090a0b0c0d0e0f101112131415161718191a1b1c1d1e",
          "588c979a61c663d2f066d0c2c0f989806d5f6b61dac384", "17e8d12cfdf926e0" },
        { "RFC3610 #2", "c0c1c2c3c4c5c6c7c8c9cacbcccdcecf", "00000004030201a0a1a2a3a4a5",
          "0001020304050607", "08090a0b0c0d0e0f101112131415161718191a1b1c1d1e1f",
          "72c91a36e135f8cf291ca894085c87e3cc15c439c9e43a3b", "a091d56e10400916" },
        { "RFC3610 #3", "c0c1c2c3c4c5c6c7c8c9cacbcccdcecf", "00000005040302a0a1a2a3a4a5",
          "0001020304050607", "08090a0b0c0d0e0f101112131415161718191a1b1c1d1e1f20",
          "51b1e5f44a197d1da46b0f8e2d282ae871e838bb64da859657", "4adaa76fbd9fb0c5" },
        { "SP800-38C ex1", "404142434445464748494a4b4c4d4e4f", "10111213141516",
          "0001020304050607", "20212223", "7162015b", "4dac255d" },
        { "SP800-38C ex2", "404142434445464748494a4b4c4d4e4f", "1011121314151617",
          "000102030405060708090a0b0c0d0e0f", "202122232425262728292a2b2c2d2e2f",
          "d2a1f0e051ea5f62081a7792073d593d", "1fc64fbfaccd" },
        { "SP800-38C ex3", "404142434445464748494a4b4c4d4e4f", "101112131415161718191a1b",
          "000102030405060708090a0b0c0d0e0f10111213",
          "202122232425262728292a2b2c2d2e2f3031323334353637",
          "e3b201a9f5b71a7a9b1ceaeccd97e70b6176aad9a4428aa5", "484392fbc1b09951" },
        /* no AAD, no payload (NIST CAVP DVPT128, as used by intel-ipsec-mb's KAT) */
        { "CAVP empty", "4ae701103c63deca5b5a3939d7d05992", "5a8aa485c316e9", "", "", "",
          "02209f55" },
};

static void
st_ccm_one(const char *name, const uint8_t *key, size_t kl, const uint8_t *nonce, size_t nl,
           const uint8_t *aad, size_t al, const uint8_t *pt, const uint8_t *ct, size_t pl,
           const uint8_t *tag, size_t tl)
{
        uint8_t out[ST_MAX], t[16];
        struct ref_aes_key k;

        st_aes_key(&k, key, kl);
        memset(out, 0xa5, sizeof(out));
        memset(t, 0xa5, sizeof(t));
        ref_ccm(ref_aes_enc, &k, 0, nonce, nl, aad, al, pt, out, pl, t, tl);
        st_check("CCM", name, "ciphertext", out, ct, pl);
        st_check("CCM", name, "tag", t, tag, tl);
        if ((tl < 16 && t[tl] != 0xa5) || out[pl] != 0xa5) {
                fprintf(stderr, "ref_modes selftest FAIL: CCM %s overrun\n", name);
                st_fail++;
        }
        /* decrypt direction, in place */
        copy_bytes(out, ct, pl);
        ref_ccm(ref_aes_enc, &k, 1, nonce, nl, aad, al, out, out, pl, t, tl);
        st_check("CCM", name, "decrypted text", out, pt, pl);
        st_check("CCM", name, "tag (decrypt)", t, tag, tl);
}

static void
st_ccm(void)
{
        uint8_t key[32], nonce[16], aad[ST_MAX], pt[ST_MAX], ct[ST_MAX], tag[16];

        for (size_t v = 0; v < sizeof(ccm_vecs) / sizeof(ccm_vecs[0]); v++) {
                const struct aead_vec *e = &ccm_vecs[v];
                const size_t kl = unhex(e->key, key, sizeof(key));
                const size_t nl = unhex(e->iv, nonce, sizeof(nonce));
                const size_t al = unhex(e->aad, aad, sizeof(aad));
                const size_t pl = unhex(e->pt, pt, sizeof(pt));
                const size_t cl = unhex(e->ct, ct, sizeof(ct));
                const size_t tl = unhex(e->tag, tag, sizeof(tag));

                if (cl != pl) {
                        fprintf(stderr, "ref_modes selftest: CCM %s: bad vector\n", e->name);
                        st_fail++;
                        continue;
                }
                st_ccm_one(e->name, key, kl, nonce, nl, aad, al, pt, ct, pl, tag, tl);
        }

        /* SP 800-38C example 4: 65536 bytes of AAD (0xff 0xfe || [a]_32 length encoding) */
        {
                uint8_t *big = malloc(65536);
                const size_t kl = unhex("404142434445464748494a4b4c4d4e4f", key, sizeof(key));
                const size_t nl = unhex("101112131415161718191a1b1c", nonce, sizeof(nonce));
                const size_t pl = unhex("202122232425262728292a2b2c2d2e2f"
                                        "303132333435363738393a3b3c3d3e3f",
                                        pt, sizeof(pt));
                const size_t tl = unhex("b4ac6bec93e8598e7f0dadbcea5b", tag, sizeof(tag));

                unhex("69915dad1e84c6376a68c2967e4dab615ae0fd1faec44cc484828529463ccf72", ct,
                      sizeof(ct));
                if (big == NULL) {
                        fprintf(stderr, "ref_modes selftest: out of memory\n");
                        st_fail++;
                        return;
                }
                for (size_t i = 0; i < 65536; i++)
                        big[i] = (uint8_t) i;
                st_ccm_one("SP800-38C ex4", key, kl, nonce, nl, big, 65536, pt, ct, pl, tag, tl);
                free(big);
        }
}

/* ---- CMAC: SP 800-38B appendix D (AES-128 examples 1-4, AES-256 examples 9-12), the
 *      updated NIST CMAC example files (20-byte message) and TS 33.401 annex C.2 (128-EIA2) */
struct mac_vec {
        const char *name;
        const char *key, *msg;
        uint64_t len_bits;
        const char *tag;
};

#define CMAC_K128 "2b7e151628aed2a6abf7158809cf4f3c"
#define CMAC_K256 "603deb1015ca71be2b73aef0857d77811f352c073b6108d72d9810a30914dff4"
#define CMAC_MSG                                                                                   \
        "6bc1bee22e409f96e93d7e117393172aae2d8a571e03ac9c9eb76fac45af8e51"                         \
        "30c81c46a35ce411e5fbc1191a0a52eff69f2445df4f9b17ad2b417be66c3710"

static const struct mac_vec cmac_vecs[] = {
        { "AES-128 Mlen=0", CMAC_K128, CMAC_MSG, 0, "bb1d6929e95937287fa37d129b756746" },
        { "AES-128 Mlen=128", CMAC_K128, CMAC_MSG, 128, "070a16b46b4d4144f79bdd9dd04a287c" },
        { "AES-128 Mlen=320", CMAC_K128, CMAC_MSG, 320, "dfa66747de9ae63030ca32611497c827" },
        { "AES-128 Mlen=512", CMAC_K128, CMAC_MSG, 512, "51f0bebf7e3b9d92fc49741779363cfe" },
        { "AES-256 Mlen=0", CMAC_K256, CMAC_MSG, 0, "028962f61b7bf89efc6b551f4667d983" },
        { "AES-256 Mlen=128", CMAC_K256, CMAC_MSG, 128, "28a7023f452e8f82bd4bf28d8c37c35c" },
        { "AES-256 Mlen=160", CMAC_K256, CMAC_MSG, 160, "156727dc0878944a023c1fe03bad6d93" },
        { "AES-256 Mlen=320", CMAC_K256, CMAC_MSG, 320, "aaf3d8f1de5640c232f5b169b9c911e6" },
        { "AES-256 Mlen=512", CMAC_K256, CMAC_MSG, 512, "e1992190549f6ed5696a2c056c315410" },
        /* 128-EIA2: message = COUNT | BEARER | DIRECTION | 0^26 | MESSAGE, length in bits */
        { "128-EIA2 set 1 (122 bits)", "2bd6459f82c5b300952c49104881ff48",
          "38a6f056c00000003332346263393840", 122, "118c6eb8" },
        { "128-EIA2 set 2 (128 bits)", "d3c5d592327fb11c4035c6680af8c6d1",
          "398a59b4d4000000484583d5afe082ae", 128, "b93787e6" },
        { "128-EIA2 set 3 (318 bits)", "7e5e94431e11d73828d739cc6ced4573",
          "36af6144c4000000b3d3c9170a4e1632f60f861013d22d84b726b6a278d802d1"
          "eeaf1321ba5929dc",
          318, "1f60b01d" },
        { "128-EIA2 set 4 (575 bits)", "d3419be821087acd02123a9248033359",
          "c7590ea9b8000000bbb057038809496bcff86d6fbc8ce5b135a06b166054f2d5"
          "65be8ace75dc851e0bcdd8f07141c495872fb5d8c0c66a8b6da556663e4e4612"
          "05d84580bee5bc7e",
          575, "6846a2f0" },
        { "128-EIA2 set 6 (447 bits)", "6832a65cff4473621ebdd4ba26a921fe",
          "36af6144c0000000d3c53839626820717765667620323837636240981ba6824c"
          "1bfb1ab485472029b71d808ce33e2cc3c0b5fc1f3de8a6dc",
          447, "f0668c1e" },
};

static void
st_cmac(void)
{
        uint8_t key[32], msg[ST_MAX], tag[16], t[16], k1[16], k2[16], e1[16], e2[16];
        struct ref_aes_key k;

        for (size_t v = 0; v < sizeof(cmac_vecs) / sizeof(cmac_vecs[0]); v++) {
                const struct mac_vec *e = &cmac_vecs[v];
                const size_t kl = unhex(e->key, key, sizeof(key));
                const size_t ml = unhex(e->msg, msg, sizeof(msg));
                const size_t tl = unhex(e->tag, tag, sizeof(tag));
                const size_t used = (size_t) ((e->len_bits + 7) / 8);

                st_aes_key(&k, key, kl);
                if (used > ml) {
                        fprintf(stderr, "ref_modes selftest: CMAC %s: bad vector\n", e->name);
                        st_fail++;
                        continue;
                }
                memset(t, 0xa5, sizeof(t));
                ref_cmac(ref_aes_enc, &k, msg, e->len_bits, t, tl);
                st_check("CMAC", e->name, "tag", t, tag, tl);
                if (tl < 16 && t[tl] != 0xa5) {
                        fprintf(stderr, "ref_modes selftest FAIL: CMAC %s overrun\n", e->name);
                        st_fail++;
                }
                /* bits of the last byte beyond len_bits must be ignored */
                if (e->len_bits % 8 != 0) {
                        msg[used - 1] |= (uint8_t) (0xff >> (e->len_bits % 8));
                        ref_cmac(ref_aes_enc, &k, msg, e->len_bits, t, tl);
                        st_check("CMAC", e->name, "tag (dirty trailing bits)", t, tag, tl);
                }
        }
        /* empty message with a NULL pointer */
        unhex(CMAC_K128, key, sizeof(key));
        st_aes_key(&k, key, 16);
        unhex("bb1d6929e95937287fa37d129b756746", tag, sizeof(tag));
        ref_cmac(ref_aes_enc, &k, NULL, 0, t, 16);
        st_check("CMAC", "AES-128 NULL message", "tag", t, tag, 16);

        /* sub-keys printed in SP 800-38B D.1 (AES-128) and D.3 (AES-256) */
        ref_cmac_subkeys(ref_aes_enc, &k, k1, k2);
        unhex("fbeed618357133667c85e08f7236a8de", e1, 16);
        unhex("f7ddac306ae266ccf90bc11ee46d513b", e2, 16);
        st_check("CMAC", "AES-128 subkeys", "K1", k1, e1, 16);
        st_check("CMAC", "AES-128 subkeys", "K2", k2, e2, 16);
        unhex(CMAC_K256, key, sizeof(key));
        st_aes_key(&k, key, 32);
        ref_cmac_subkeys(ref_aes_enc, &k, k1, k2);
        unhex("cad1ed03299eedac2e9a99808621502f", e1, 16);
        unhex("95a3da06533ddb585d3533010c42a0d9", e2, 16);
        st_check("CMAC", "AES-256 subkeys", "K1", k1, e1, 16);
        st_check("CMAC", "AES-256 subkeys", "K2", k2, e2, 16);
}

/* ---- AES-XCBC-MAC: RFC 3566 section 4.6, test cases 1-7 (full 16-byte values; the
 *      AES-XCBC-MAC-96 value is the first 12 bytes) */
static void
st_xcbc(void)
{
        static const struct {
                size_t len;
                const char *tag;
        } tc[7] = {
                { 0, "75f0251d528ac01c4573dfd584d79f29" },
                { 3, "5b376580ae2f19afe7219ceef172756f" },
                { 16, "d2a246fa349b68a79998a4394ff7a263" },
                { 20, "47f51b4564966215b8985c63055ed308" },
                { 32, "f54f0ec8d2b9f3d36807734bd5283fd4" },
                { 34, "becbb3bccdb518a30677d5481fb6b4d8" },
                { 1000, "f0dafee895db30253761103b5d84528f" },
        };
        uint8_t key[16], msg[ST_MAX], tag[16], t[16];
        char name[32];

        for (int i = 0; i < 16; i++)
                key[i] = (uint8_t) i;
        for (int v = 0; v < 7; v++) {
                /* test cases 1-6: message 00 01 02 ..; test case 7: 1000 zero bytes */
                for (size_t i = 0; i < tc[v].len; i++)
                        msg[i] = (v == 6) ? 0 : (uint8_t) i;
                unhex(tc[v].tag, tag, sizeof(tag));
                snprintf(name, sizeof(name), "RFC3566 #%d", v + 1);
                memset(t, 0xa5, sizeof(t));
                ref_xcbc(key, tc[v].len != 0 ? msg : NULL, tc[v].len, t, 12);
                st_check("XCBC", name, "96-bit tag", t, tag, 12);
                if (t[12] != 0xa5) {
                        fprintf(stderr, "ref_modes selftest FAIL: XCBC %s overrun\n", name);
                        st_fail++;
                }
                ref_xcbc(key, msg, tc[v].len, t, 16);
                st_check("XCBC", name, "128-bit tag", t, tag, 16);
        }
        /* K1..K3 are plain AES encryptions of 01.., 02.., 03..: check the derivation against
         * the definition using the block function directly */
        {
                uint8_t k1[16], k2[16], k3[16], c[16], e[16];
                struct ref_aes_key k;

                st_aes_key(&k, key, 16);
                ref_xcbc_keys(key, k1, k2, k3);
                memset(c, 1, 16);
                ref_aes_enc(&k, c, e);
                st_check("XCBC", "keys", "K1", k1, e, 16);
                memset(c, 2, 16);
                ref_aes_enc(&k, c, e);
                st_check("XCBC", "keys", "K2", k2, e, 16);
                memset(c, 3, 16);
                ref_aes_enc(&k, c, e);
                st_check("XCBC", "keys", "K3", k3, e, 16);
        }
}

/* ---- ChaCha20 / Poly1305 / AEAD: RFC 8439 sections 2.3.2, 2.4.2, 2.5.2, 2.6.2, 2.8.2,
 *      appendix A.3 (Poly1305 corner cases) and A.5 */
#define RFC8439_KEY_00_1F "000102030405060708090a0b0c0d0e0f101112131415161718191a1b1c1d1e1f"
#define RFC8439_KEY_80_9F "808182838485868788898a8b8c8d8e8f909192939495969798999a9b9c9d9e9f"
#define RFC8439_SUNSCREEN                                                                          \
        "4c616469657320616e642047656e746c656d656e206f662074686520636c6173"                         \
        "73206f66202739393a204966204920636f756c64206f6666657220796f75206f"                         \
        "6e6c79206f6e652074697020666f7220746865206675747572652c2073756e73"                         \
        "637265656e20776f756c642062652069742e"

static void
st_chacha20(void)
{
        uint8_t key[32], nonce[12], pt[ST_MAX], ct[ST_MAX], out[ST_MAX];
        size_t pl;

        /* 2.3.2: block function, counter 1 (keystream = encryption of zeros) */
        unhex(RFC8439_KEY_00_1F, key, sizeof(key));
        unhex("000000090000004a00000000", nonce, sizeof(nonce));
        unhex("10f1e7e4d13b5915500fdd1fa32071c4c7d1f4c733c068030422aa9ac3d46c4e"
              "d2826446079faa0914c2d705d98b02a2b5129cd1de164eb9cbd083e8a2503c4e",
              ct, sizeof(ct));
        memset(pt, 0, 64);
        ref_chacha20(key, 1, nonce, pt, out, 64);
        st_check("ChaCha20", "RFC8439 2.3.2", "block", out, ct, 64);

        /* 2.4.2: 114-byte message, initial counter 1 */
        unhex("000000000000004a00000000", nonce, sizeof(nonce));
        pl = unhex(RFC8439_SUNSCREEN, pt, sizeof(pt));
        unhex("6e2e359a2568f98041ba0728dd0d6981e97e7aec1d4360c20a27afccfd9fae0b"
              "f91b65c5524733ab8f593dabcd62b3571639d624e65152ab8f530c359f0861d8"
              "07ca0dbf500d6a6156a38e088a22b65e52bc514d16ccf806818ce91ab7793736"
              "5af90bbf74a35be6b40b8eedf2785e42874d",
              ct, sizeof(ct));
        memset(out, 0xa5, sizeof(out));
        ref_chacha20(key, 1, nonce, pt, out, pl);
        st_check("ChaCha20", "RFC8439 2.4.2", "ciphertext", out, ct, pl);
        if (out[pl] != 0xa5) {
                fprintf(stderr, "ref_modes selftest FAIL: ChaCha20 overrun\n");
                st_fail++;
        }
        ref_chacha20(key, 1, nonce, out, out, pl); /* in place, back to plaintext */
        st_check("ChaCha20", "RFC8439 2.4.2", "decrypt", out, pt, pl);

        /* 2.6.2: Poly1305 key generation = first 32 bytes of block 0 */
        unhex(RFC8439_KEY_80_9F, key, sizeof(key));
        unhex("000000000001020304050607", nonce, sizeof(nonce));
        unhex("8ad5a08b905f81cc815040274ab29471a833b637e3fd0da508dbb8e2fdd1a646", ct, sizeof(ct));
        memset(pt, 0, 32);
        ref_chacha20(key, 0, nonce, pt, out, 32);
        st_check("ChaCha20", "RFC8439 2.6.2", "one-time key", out, ct, 32);

        /* 32-bit counter wrap: block at counter 0xffffffff is followed by counter 0 */
        memset(pt, 0, 128);
        ref_chacha20(key, 0xffffffffu, nonce, pt, out, 128);
        st_check("ChaCha20", "counter wrap", "block 0", out + 64, ct, 32);
}

static const struct mac_vec poly_vecs[] = {
        { "RFC8439 2.5.2", "85d6be7857556d337f4452fe42d506a80103808afb0db2fd4abff6af4149f51b",
          "43727970746f6772617068696320466f72756d2052657365617263682047726f7570", 0,
          "a8061dc1305136c6c22b8baf0c0127a9" },
        { "RFC8439 A.3 #1", ZERO16 ZERO16, ZERO16 ZERO16 ZERO16 ZERO16, 0, ZERO16 },
        { "RFC8439 A.3 #4", "1c9240a5eb55d38af333888604f6b5f0473917c1402b80099dca5cbc207075c0",
          "2754776173206272696c6c69672c20616e642074686520736c6974687920746f"
          "7665730a446964206779726520616e642067696d626c6520696e207468652077"
          "6162653a0a416c6c206d696d737920776572652074686520626f726f676f7665"
          "732c0a416e6420746865206d6f6d65207261746873206f757467726162652e",
          0, "4541669a7eaaee61e708dc7cbcc5eb62" },
        { "RFC8439 A.3 #5", "02000000000000000000000000000000" ZERO16,
          "ffffffffffffffffffffffffffffffff", 0, "03000000000000000000000000000000" },
        { "RFC8439 A.3 #6", "02000000000000000000000000000000ffffffffffffffffffffffffffffffff",
          "02000000000000000000000000000000", 0, "03000000000000000000000000000000" },
        { "RFC8439 A.3 #7", "01000000000000000000000000000000" ZERO16,
          "fffffffffffffffffffffffffffffffff0ffffffffffffffffffffffffffffff"
          "11000000000000000000000000000000",
          0, "05000000000000000000000000000000" },
        { "RFC8439 A.3 #8", "01000000000000000000000000000000" ZERO16,
          "fffffffffffffffffffffffffffffffffbfefefefefefefefefefefefefefefe"
          "01010101010101010101010101010101",
          0, ZERO16 },
        { "RFC8439 A.3 #9", "02000000000000000000000000000000" ZERO16,
          "fdffffffffffffffffffffffffffffff", 0, "faffffffffffffffffffffffffffffff" },
        { "RFC8439 A.3 #10", "01000000000000000400000000000000" ZERO16,
          "e33594d7505e43b900000000000000003394d7505e4379cd0100000000000000"
          "0000000000000000000000000000000001000000000000000000000000000000",
          0, "14000000000000005500000000000000" },
        { "RFC8439 A.3 #11", "01000000000000000400000000000000" ZERO16,
          "e33594d7505e43b900000000000000003394d7505e4379cd0100000000000000"
          "00000000000000000000000000000000",
          0, "13000000000000000000000000000000" },
};

static void
st_poly1305(void)
{
        uint8_t key[32], msg[ST_MAX], tag[16], t[16];

        for (size_t v = 0; v < sizeof(poly_vecs) / sizeof(poly_vecs[0]); v++) {
                const struct mac_vec *e = &poly_vecs[v];
                const size_t ml = unhex(e->msg, msg, sizeof(msg));

                unhex(e->key, key, sizeof(key));
                unhex(e->tag, tag, sizeof(tag));
                ref_poly1305(key, msg, ml, t);
                st_check("Poly1305", e->name, "tag", t, tag, 16);
        }
}

static const struct aead_vec cp_vecs[] = {
        { "RFC8439 2.8.2", RFC8439_KEY_80_9F, "070000004041424344454647",
          "50515253c0c1c2c3c4c5c6c7", RFC8439_SUNSCREEN,
          "d31a8d34648e60db7b86afbc53ef7ec2a4aded51296e08fea9e2b5a736ee62d6"
          "3dbea45e8ca9671282fafb69da92728b1a71de0a9e060b2905d6a5b67ecd3b36"
          "92ddbd7f2d778b8c9803aee328091b58fab324e4fad675945585808b4831d7bc"
          "3ff4def08e4b7a9de576d26586cec64b6116",
          "1ae10b594f09e26a7e902ecbd0600691" },
        { "RFC8439 A.5", "1c9240a5eb55d38af333888604f6b5f0473917c1402b80099dca5cbc207075c0",
          "000000000102030405060708", "f33388860000000000004e91",
          "496e7465726e65742d4472616674732061726520647261667420646f63756d65"
          "6e74732076616c696420666f722061206d6178696d756d206f6620736978206d"
          "6f6e74687320616e64206d617920626520757064617465642c207265706c6163"
          "65642c206f72206f62736f6c65746564206279206f7468657220646f63756d65"
          "6e747320617420616e792074696d652e20497420697320696e617070726f7072"
          "6961746520746f2075736520496e7465726e65742d4472616674732061732072"
          "65666572656e6365206d6174657269616c206f7220746f206369746520746865"
          "6d206f74686572207468616e206173202fe2809c776f726b20696e2070726f67"
          "726573732e2fe2809d",
          "64a0861575861af460f062c79be643bd5e805cfd345cf389f108670ac76c8cb2"
          "4c6cfc18755d43eea09ee94e382d26b0bdb7b73c321b0100d4f03b7f355894cf"
          "332f830e710b97ce98c8a84abd0b948114ad176e008d33bd60f982b1ff37c855"
          "9797a06ef4f0ef61c186324e2b3506383606907b6a7c02b0f9f6157b53c867e4"
          "b9166c767b804d46a59b5216cde7a4e99040c5a40433225ee282a1b0a06c523e"
          "af4534d7f83fa1155b0047718cbc546a0d072b04b3564eea1b422273f548271a"
          "0bb2316053fa76991955ebd63159434ecebb4e466dae5a1073a6727627097a10"
          "49e617d91d361094fa68f0ff77987130305beaba2eda04df997b714d6c6f2c29"
          "a6ad5cb4022b02709b",
          "eead9d67890cbb22392336fea1851f38" },
};

static void
st_chacha20_poly1305(void)
{
        uint8_t key[32], nonce[12], aad[ST_MAX], pt[ST_MAX], ct[ST_MAX], tag[16];
        uint8_t out[ST_MAX], t[16];

        for (size_t v = 0; v < sizeof(cp_vecs) / sizeof(cp_vecs[0]); v++) {
                const struct aead_vec *e = &cp_vecs[v];
                const size_t al = unhex(e->aad, aad, sizeof(aad));
                const size_t pl = unhex(e->pt, pt, sizeof(pt));
                const size_t cl = unhex(e->ct, ct, sizeof(ct));

                unhex(e->key, key, sizeof(key));
                unhex(e->iv, nonce, sizeof(nonce));
                unhex(e->tag, tag, sizeof(tag));
                if (cl != pl) {
                        fprintf(stderr, "ref_modes selftest: AEAD %s: bad vector\n", e->name);
                        st_fail++;
                        continue;
                }
                memset(out, 0xa5, sizeof(out));
                ref_chacha20_poly1305(0, key, nonce, aad, al, pt, out, pl, t);
                st_check("ChaCha20-Poly1305", e->name, "ciphertext", out, ct, pl);
                st_check("ChaCha20-Poly1305", e->name, "tag", t, tag, 16);
                if (out[pl] != 0xa5) {
                        fprintf(stderr, "ref_modes selftest FAIL: AEAD %s overrun\n", e->name);
                        st_fail++;
                }
                memcpy(out, ct, cl);
                ref_chacha20_poly1305(1, key, nonce, aad, al, out, out, cl, t);
                st_check("ChaCha20-Poly1305", e->name, "decrypted text", out, pt, pl);
                st_check("ChaCha20-Poly1305", e->name, "tag (decrypt)", t, tag, 16);
        }
}

#ifdef REF_HAVE_OPENSSL
/* ---- randomised cross-checks against OpenSSL EVP (300 inputs per algorithm) */
#define XC_ROUNDS 300

static uint64_t xc_state;

static uint64_t
xc_rand(void)
{
        /* xorshift64* */
        xc_state ^= xc_state >> 12;
        xc_state ^= xc_state << 25;
        xc_state ^= xc_state >> 27;
        return xc_state * 0x2545f4914f6cdd1dULL;
}

/* uniform-ish value in lo..hi inclusive */
static size_t
xc_range(size_t lo, size_t hi)
{
        return lo + (size_t) (xc_rand() % (hi - lo + 1));
}

static void
xc_fill(uint8_t *p, size_t n)
{
        for (size_t i = 0; i < n; i++)
                p[i] = (uint8_t) (xc_rand() >> 32);
}

static void
xc_error(const char *what)
{
        fprintf(stderr, "ref_modes selftest FAIL: OpenSSL call failed (%s)\n", what);
        st_fail++;
}

static void
xc_gcm(void)
{
        uint8_t key[32], iv[64], aad[70], pt[200], ct[200], tag[16], out[200], t[16];
        char name[64];

        for (int r = 0; r < XC_ROUNDS; r++) {
                static const size_t keylens[3] = { 16, 24, 32 };
                const size_t kl = keylens[xc_range(0, 2)];
                /* make sure the corner values are visited */
                const size_t il = (r < 64) ? (size_t) r + 1 : xc_range(1, 64);
                const size_t al = (r == 0) ? 0 : xc_range(0, 70);
                const size_t pl = (r == 1) ? 0 : xc_range(0, 200);
                const size_t tl = xc_range(1, 16);
                const EVP_CIPHER *c = (kl == 16)   ? EVP_aes_128_gcm()
                                      : (kl == 24) ? EVP_aes_192_gcm()
                                                   : EVP_aes_256_gcm();
                EVP_CIPHER_CTX *e = EVP_CIPHER_CTX_new();
                struct ref_aes_key k;
                int ol = 0, ok;

                xc_fill(key, kl);
                xc_fill(iv, il);
                xc_fill(aad, al);
                xc_fill(pt, pl);
                ok = e != NULL && EVP_EncryptInit_ex(e, c, NULL, NULL, NULL) == 1 &&
                     EVP_CIPHER_CTX_ctrl(e, EVP_CTRL_AEAD_SET_IVLEN, (int) il, NULL) == 1 &&
                     EVP_EncryptInit_ex(e, NULL, NULL, key, iv) == 1;
                if (ok && al != 0)
                        ok = EVP_EncryptUpdate(e, NULL, &ol, aad, (int) al) == 1;
                if (ok && pl != 0)
                        ok = EVP_EncryptUpdate(e, ct, &ol, pt, (int) pl) == 1;
                ok = ok && EVP_EncryptFinal_ex(e, ct + pl, &ol) == 1 &&
                     EVP_CIPHER_CTX_ctrl(e, EVP_CTRL_AEAD_GET_TAG, 16, tag) == 1;
                EVP_CIPHER_CTX_free(e);
                if (!ok) {
                        xc_error("AES-GCM");
                        return;
                }
                snprintf(name, sizeof(name), "#%d key=%zu iv=%zu aad=%zu len=%zu tag=%zu", r, kl,
                         il, al, pl, tl);
                st_aes_key(&k, key, kl);
                ref_gcm(ref_aes_enc, &k, 0, iv, il, aad, al, pt, out, pl, t, tl);
                st_check("GCM vs OpenSSL", name, "ciphertext", out, ct, pl);
                st_check("GCM vs OpenSSL", name, "tag", t, tag, tl);
                ref_gcm(ref_aes_enc, &k, 1, iv, il, aad, al, ct, out, pl, t, tl);
                st_check("GCM vs OpenSSL", name, "decrypted text", out, pt, pl);
                st_check("GCM vs OpenSSL", name, "tag (decrypt)", t, tag, tl);
        }
}

static void
xc_ccm(void)
{
        uint8_t key[32], nonce[13], aad[46], pt[100], ct[100], tag[16], out[100], t[16];
        uint8_t dummy = 0;
        char name[64];

        for (int r = 0; r < XC_ROUNDS; r++) {
                static const size_t keylens[3] = { 16, 24, 32 };
                const size_t kl = keylens[xc_range(0, 2)];
                const size_t nl = xc_range(7, 13);
                const size_t tl = 2 * xc_range(2, 8);
                const size_t al = (r == 0) ? 0 : xc_range(0, 46);
                const size_t pl = (r == 1) ? 0 : xc_range(0, 100);
                const EVP_CIPHER *c = (kl == 16)   ? EVP_aes_128_ccm()
                                      : (kl == 24) ? EVP_aes_192_ccm()
                                                   : EVP_aes_256_ccm();
                EVP_CIPHER_CTX *e = EVP_CIPHER_CTX_new();
                struct ref_aes_key k;
                int ol = 0, ok;

                xc_fill(key, kl);
                xc_fill(nonce, nl);
                xc_fill(aad, al);
                xc_fill(pt, pl);
                ok = e != NULL && EVP_EncryptInit_ex(e, c, NULL, NULL, NULL) == 1 &&
                     EVP_CIPHER_CTX_ctrl(e, EVP_CTRL_AEAD_SET_IVLEN, (int) nl, NULL) == 1 &&
                     EVP_CIPHER_CTX_ctrl(e, EVP_CTRL_AEAD_SET_TAG, (int) tl, NULL) == 1 &&
                     EVP_EncryptInit_ex(e, NULL, NULL, key, nonce) == 1 &&
                     /* CCM needs the total payload length first */
                     EVP_EncryptUpdate(e, NULL, &ol, NULL, (int) pl) == 1;
                if (ok && al != 0)
                        ok = EVP_EncryptUpdate(e, NULL, &ol, aad, (int) al) == 1;
                /* the payload call is needed even for an empty payload (it produces the tag) */
                ok = ok && EVP_EncryptUpdate(e, pl != 0 ? ct : &dummy, &ol, pl != 0 ? pt : &dummy,
                                             (int) pl) == 1 &&
                     EVP_EncryptFinal_ex(e, ct + pl, &ol) == 1 &&
                     EVP_CIPHER_CTX_ctrl(e, EVP_CTRL_AEAD_GET_TAG, (int) tl, tag) == 1;
                EVP_CIPHER_CTX_free(e);
                if (!ok) {
                        xc_error("AES-CCM");
                        return;
                }
                snprintf(name, sizeof(name), "#%d key=%zu nonce=%zu aad=%zu len=%zu tag=%zu", r, kl,
                         nl, al, pl, tl);
                st_aes_key(&k, key, kl);
                ref_ccm(ref_aes_enc, &k, 0, nonce, nl, aad, al, pt, out, pl, t, tl);
                st_check("CCM vs OpenSSL", name, "ciphertext", out, ct, pl);
                st_check("CCM vs OpenSSL", name, "tag", t, tag, tl);
                ref_ccm(ref_aes_enc, &k, 1, nonce, nl, aad, al, ct, out, pl, t, tl);
                st_check("CCM vs OpenSSL", name, "decrypted text", out, pt, pl);
                st_check("CCM vs OpenSSL", name, "tag (decrypt)", t, tag, tl);
        }
}

static void
xc_cmac(void)
{
        uint8_t key[32], msg[100], tag[16], t[16];
        char name[64];
        EVP_MAC *mac = EVP_MAC_fetch(NULL, "CMAC", NULL);

        if (mac == NULL) {
                xc_error("EVP_MAC_fetch CMAC");
                return;
        }
        for (int r = 0; r < XC_ROUNDS; r++) {
                static const size_t keylens[3] = { 16, 24, 32 };
                static const char *const ciphers[3] = { "AES-128-CBC", "AES-192-CBC",
                                                        "AES-256-CBC" };
                const size_t ki = xc_range(0, 2);
                const size_t kl = keylens[ki];
                const size_t ml = (r <= 100) ? (size_t) r : xc_range(0, 100);
                const size_t tl = xc_range(1, 16);
                char cname[16];
                OSSL_PARAM params[2];
                EVP_MAC_CTX *m = EVP_MAC_CTX_new(mac);
                struct ref_aes_key k;
                size_t ol = 0;
                int ok;

                xc_fill(key, kl);
                xc_fill(msg, ml);
                snprintf(cname, sizeof(cname), "%s", ciphers[ki]);
                params[0] = OSSL_PARAM_construct_utf8_string(OSSL_MAC_PARAM_CIPHER, cname, 0);
                params[1] = OSSL_PARAM_construct_end();
                ok = m != NULL && EVP_MAC_init(m, key, kl, params) == 1;
                if (ok && ml != 0)
                        ok = EVP_MAC_update(m, msg, ml) == 1;
                ok = ok && EVP_MAC_final(m, tag, &ol, sizeof(tag)) == 1 && ol == 16;
                EVP_MAC_CTX_free(m);
                if (!ok) {
                        xc_error("CMAC");
                        break;
                }
                snprintf(name, sizeof(name), "#%d key=%zu len=%zu tag=%zu", r, kl, ml, tl);
                st_aes_key(&k, key, kl);
                ref_cmac(ref_aes_enc, &k, msg, (uint64_t) ml * 8, t, tl);
                st_check("CMAC vs OpenSSL", name, "tag", t, tag, tl);
        }
        EVP_MAC_free(mac);
}

static void
xc_chacha20_poly1305(void)
{
        uint8_t key[32], nonce[12], aad[70], pt[300], ct[300], tag[16], out[300], t[16];
        char name[64];

        for (int r = 0; r < XC_ROUNDS; r++) {
                const size_t al = (r == 0) ? 0 : xc_range(0, 70);
                const size_t pl = (r == 1) ? 0 : xc_range(0, 300);
                EVP_CIPHER_CTX *e = EVP_CIPHER_CTX_new();
                int ol = 0, ok;

                xc_fill(key, 32);
                xc_fill(nonce, 12);
                xc_fill(aad, al);
                xc_fill(pt, pl);
                ok = e != NULL &&
                     EVP_EncryptInit_ex(e, EVP_chacha20_poly1305(), NULL, NULL, NULL) == 1 &&
                     EVP_CIPHER_CTX_ctrl(e, EVP_CTRL_AEAD_SET_IVLEN, 12, NULL) == 1 &&
                     EVP_EncryptInit_ex(e, NULL, NULL, key, nonce) == 1;
                if (ok && al != 0)
                        ok = EVP_EncryptUpdate(e, NULL, &ol, aad, (int) al) == 1;
                if (ok && pl != 0)
                        ok = EVP_EncryptUpdate(e, ct, &ol, pt, (int) pl) == 1;
                ok = ok && EVP_EncryptFinal_ex(e, ct + pl, &ol) == 1 &&
                     EVP_CIPHER_CTX_ctrl(e, EVP_CTRL_AEAD_GET_TAG, 16, tag) == 1;
                EVP_CIPHER_CTX_free(e);
                if (!ok) {
                        xc_error("ChaCha20-Poly1305");
                        return;
                }
                snprintf(name, sizeof(name), "#%d aad=%zu len=%zu", r, al, pl);
                ref_chacha20_poly1305(0, key, nonce, aad, al, pt, out, pl, t);
                st_check("ChaCha20-Poly1305 vs OpenSSL", name, "ciphertext", out, ct, pl);
                st_check("ChaCha20-Poly1305 vs OpenSSL", name, "tag", t, tag, 16);
                ref_chacha20_poly1305(1, key, nonce, aad, al, ct, out, pl, t);
                st_check("ChaCha20-Poly1305 vs OpenSSL", name, "decrypted text", out, pt, pl);
                st_check("ChaCha20-Poly1305 vs OpenSSL", name, "tag (decrypt)", t, tag, 16);
        }
}
#endif /* REF_HAVE_OPENSSL */

int
ref_modes_selftest(void)
{
        st_fail = 0;
        st_checks = 0;

        st_gcm();
        st_ccm();
        st_cmac();
        st_xcbc();
        st_chacha20();
        st_poly1305();
        st_chacha20_poly1305();
#ifdef REF_HAVE_OPENSSL
        xc_state = 0x9e3779b97f4a7c15ULL; /* fixed seed: the run is reproducible */
        xc_gcm();
        xc_ccm();
        xc_cmac();
        xc_chacha20_poly1305();
#endif
        if (st_fail != 0)
                fprintf(stderr, "ref_modes selftest: %d of %d checks FAILED\n", st_fail,
                        st_checks);
        return st_fail == 0 ? 0 : -1;
}
