/*
 * ZUC reference model (test oracle).
 *
 * Written from the published specifications:
 *  - ETSI/SAGE "Specification of the 3GPP Confidentiality and Integrity Algorithms
 *    128-EEA3 & 128-EIA3", Document 1 (128-EEA3 and 128-EIA3) and Document 2 (ZUC), v1.6/1.7
 *  - "The ZUC-256 Stream Cipher" (ZUC design team, 2018) for the 256-bit key loading and the
 *    32/64/128-bit MAC
 * Only the original ZUC-256 initialisation with a 184-bit IV (17 bytes + 8 six-bit values) is
 * implemented, in its 25-byte and packed 23-byte encodings.
 *
 * Nothing here is derived from the code under /repo/lib. Clarity over speed: one LFSR step and
 * one F evaluation per 32-bit keystream word, LFSR arithmetic done with 64-bit integers and
 * a plain '%'.
 *
 * Conventions relevant when used as an oracle for intel-ipsec-mb jobs:
 *  - ZUC-128 functions take the 16-byte ZUC IV (what job->iv / u.ZUC_EIA3._iv point to); building
 *    it from COUNT/BEARER/DIRECTION is the caller's business (it differs between EEA3 and EIA3,
 *    see zv_eea3_iv() / zv_eia3_iv() in the self-test).
 *  - ZUC-256 25-byte IV: only the low 6 bits of bytes 17..24 are used; the 23-byte IV is the same
 *    184 bits with those eight 6-bit values packed MSB-first into bytes 17..22.
 *  - EEA3 works on whole bytes; a 3GPP bit LENGTH is handled by rounding up to bytes, the bits
 *    after LENGTH in the last byte are plain (input XOR keystream) junk.
 *  - MAC tags are the big-endian serialisation of the tag words (tag[0] = most significant byte
 *    of the first word); MAC lengths are in bits, message bits MSB-first within bytes.
 *  - ZUC-256 keystreams for cipher and for the three MAC sizes all differ (different
 *    d-constants): a short tag is not a truncation of a long one.
 */
#include "ref.h"

#include <stdio.h>
#include <stdlib.h>
#include <string.h>

/* ------------------------------------------------------------------ constants (ZUC spec) */

/* S-boxes S0 and S1, ZUC specification (Document 2) section 3.4.1, tables 3.1 and 3.2 */
static const uint8_t ZUC_S0[256] = {
        0x3e,0x72,0x5b,0x47,0xca,0xe0,0x00,0x33,0x04,0xd1,0x54,0x98,0x09,0xb9,0x6d,0xcb,
        0x7b,0x1b,0xf9,0x32,0xaf,0x9d,0x6a,0xa5,0xb8,0x2d,0xfc,0x1d,0x08,0x53,0x03,0x90,
        0x4d,0x4e,0x84,0x99,0xe4,0xce,0xd9,0x91,0xdd,0xb6,0x85,0x48,0x8b,0x29,0x6e,0xac,
        0xcd,0xc1,0xf8,0x1e,0x73,0x43,0x69,0xc6,0xb5,0xbd,0xfd,0x39,0x63,0x20,0xd4,0x38,
        0x76,0x7d,0xb2,0xa7,0xcf,0xed,0x57,0xc5,0xf3,0x2c,0xbb,0x14,0x21,0x06,0x55,0x9b,
        0xe3,0xef,0x5e,0x31,0x4f,0x7f,0x5a,0xa4,0x0d,0x82,0x51,0x49,0x5f,0xba,0x58,0x1c,
        0x4a,0x16,0xd5,0x17,0xa8,0x92,0x24,0x1f,0x8c,0xff,0xd8,0xae,0x2e,0x01,0xd3,0xad,
        0x3b,0x4b,0xda,0x46,0xeb,0xc9,0xde,0x9a,0x8f,0x87,0xd7,0x3a,0x80,0x6f,0x2f,0xc8,
        0xb1,0xb4,0x37,0xf7,0x0a,0x22,0x13,0x28,0x7c,0xcc,0x3c,0x89,0xc7,0xc3,0x96,0x56,
        0x07,0xbf,0x7e,0xf0,0x0b,0x2b,0x97,0x52,0x35,0x41,0x79,0x61,0xa6,0x4c,0x10,0xfe,
        0xbc,0x26,0x95,0x88,0x8a,0xb0,0xa3,0xfb,0xc0,0x18,0x94,0xf2,0xe1,0xe5,0xe9,0x5d,
        0xd0,0xdc,0x11,0x66,0x64,0x5c,0xec,0x59,0x42,0x75,0x12,0xf5,0x74,0x9c,0xaa,0x23,
        0x0e,0x86,0xab,0xbe,0x2a,0x02,0xe7,0x67,0xe6,0x44,0xa2,0x6c,0xc2,0x93,0x9f,0xf1,
        0xf6,0xfa,0x36,0xd2,0x50,0x68,0x9e,0x62,0x71,0x15,0x3d,0xd6,0x40,0xc4,0xe2,0x0f,
        0x8e,0x83,0x77,0x6b,0x25,0x05,0x3f,0x0c,0x30,0xea,0x70,0xb7,0xa1,0xe8,0xa9,0x65,
        0x8d,0x27,0x1a,0xdb,0x81,0xb3,0xa0,0xf4,0x45,0x7a,0x19,0xdf,0xee,0x78,0x34,0x60
};

static const uint8_t ZUC_S1[256] = {
        0x55,0xc2,0x63,0x71,0x3b,0xc8,0x47,0x86,0x9f,0x3c,0xda,0x5b,0x29,0xaa,0xfd,0x77,
        0x8c,0xc5,0x94,0x0c,0xa6,0x1a,0x13,0x00,0xe3,0xa8,0x16,0x72,0x40,0xf9,0xf8,0x42,
        0x44,0x26,0x68,0x96,0x81,0xd9,0x45,0x3e,0x10,0x76,0xc6,0xa7,0x8b,0x39,0x43,0xe1,
        0x3a,0xb5,0x56,0x2a,0xc0,0x6d,0xb3,0x05,0x22,0x66,0xbf,0xdc,0x0b,0xfa,0x62,0x48,
        0xdd,0x20,0x11,0x06,0x36,0xc9,0xc1,0xcf,0xf6,0x27,0x52,0xbb,0x69,0xf5,0xd4,0x87,
        0x7f,0x84,0x4c,0xd2,0x9c,0x57,0xa4,0xbc,0x4f,0x9a,0xdf,0xfe,0xd6,0x8d,0x7a,0xeb,
        0x2b,0x53,0xd8,0x5c,0xa1,0x14,0x17,0xfb,0x23,0xd5,0x7d,0x30,0x67,0x73,0x08,0x09,
        0xee,0xb7,0x70,0x3f,0x61,0xb2,0x19,0x8e,0x4e,0xe5,0x4b,0x93,0x8f,0x5d,0xdb,0xa9,
        0xad,0xf1,0xae,0x2e,0xcb,0x0d,0xfc,0xf4,0x2d,0x46,0x6e,0x1d,0x97,0xe8,0xd1,0xe9,
        0x4d,0x37,0xa5,0x75,0x5e,0x83,0x9e,0xab,0x82,0x9d,0xb9,0x1c,0xe0,0xcd,0x49,0x89,
        0x01,0xb6,0xbd,0x58,0x24,0xa2,0x5f,0x38,0x78,0x99,0x15,0x90,0x50,0xb8,0x95,0xe4,
        0xd0,0x91,0xc7,0xce,0xed,0x0f,0xb4,0x6f,0xa0,0xcc,0xf0,0x02,0x4a,0x79,0xc3,0xde,
        0xa3,0xef,0xea,0x51,0xe6,0x6b,0x18,0xec,0x1b,0x2c,0x80,0xf7,0x74,0xe7,0xff,0x21,
        0x5a,0x6a,0x54,0x1e,0x41,0x31,0x92,0x35,0xc4,0x33,0x07,0x0a,0xba,0x7e,0x0e,0x34,
        0x88,0xb1,0x98,0x7c,0xf3,0x3d,0x60,0x6c,0x7b,0xca,0xd3,0x1f,0x32,0x65,0x04,0x28,
        0x64,0xbe,0x85,0x9b,0x2f,0x59,0x8a,0xd7,0xb0,0x25,0xac,0xaf,0x12,0x03,0xe2,0xf2
};

/* ZUC-128 key loading constants d0..d15 (15 bits each), Document 2 section 3.5 */
static const uint16_t ZUC128_D[16] = { 0x44d7, 0x26bc, 0x626b, 0x135e, 0x5789, 0x35e2,
                                       0x7135, 0x09af, 0x4d78, 0x2f13, 0x6bc4, 0x1af1,
                                       0x5e26, 0x3c4d, 0x789a, 0x47ac };

/* ZUC-256 key loading constants d0..d15 (7 bits each): cipher, then MAC with 32/64/128-bit tag.
 * Only d0 and d2 differ between the four uses. */
static const uint8_t ZUC256_D[4][16] = {
        /* keystream / confidentiality */
        { 0x22, 0x2f, 0x24, 0x2a, 0x6d, 0x40, 0x40, 0x40, 0x40, 0x40, 0x40, 0x40, 0x40, 0x52, 0x10,
          0x30 },
        /* MAC, 32-bit tag */
        { 0x22, 0x2f, 0x25, 0x2a, 0x6d, 0x40, 0x40, 0x40, 0x40, 0x40, 0x40, 0x40, 0x40, 0x52, 0x10,
          0x30 },
        /* MAC, 64-bit tag */
        { 0x23, 0x2f, 0x24, 0x2a, 0x6d, 0x40, 0x40, 0x40, 0x40, 0x40, 0x40, 0x40, 0x40, 0x52, 0x10,
          0x30 },
        /* MAC, 128-bit tag */
        { 0x23, 0x2f, 0x25, 0x2a, 0x6d, 0x40, 0x40, 0x40, 0x40, 0x40, 0x40, 0x40, 0x40, 0x52, 0x10,
          0x30 }
};

/* ------------------------------------------------------------------ the ZUC core */

#define ZUC_P 0x7fffffffu /* 2^31 - 1 */

struct zuc_state {
        uint32_t s[16]; /* LFSR cells s0..s15, 31-bit values in 1..2^31-1 */
        uint32_t r1, r2; /* memory cells of F */
        uint32_t x[4];   /* output of the bit-reorganisation layer */
};

static uint32_t
rotl32(const uint32_t v, const unsigned n)
{
        return (v << n) | (v >> (32 - n));
}

/* New cell s16 = 2^15 s15 + 2^17 s13 + 2^21 s10 + 2^20 s4 + (1 + 2^8) s0 (+ u) mod (2^31 - 1);
 * the representative of 0 is 2^31 - 1. u = 0 gives LFSRWithWorkMode. */
static void
zuc_lfsr_step(struct zuc_state *z, const uint32_t u)
{
        const uint32_t *s = z->s;
        uint64_t v = ((uint64_t) s[15] << 15) + ((uint64_t) s[13] << 17) +
                     ((uint64_t) s[10] << 21) + ((uint64_t) s[4] << 20) +
                     ((uint64_t) s[0] << 8) + s[0] + u;
        uint32_t s16 = (uint32_t) (v % ZUC_P);

        if (s16 == 0)
                s16 = ZUC_P;
        memmove(&z->s[0], &z->s[1], 15 * sizeof(z->s[0]));
        z->s[15] = s16;
}

/* Bit reorganisation: H = bits 30..15, L = bits 15..0 of a cell */
static void
zuc_bit_reorg(struct zuc_state *z)
{
        const uint32_t *s = z->s;

        z->x[0] = ((s[15] & 0x7fff8000u) << 1) | (s[14] & 0xffffu);
        z->x[1] = ((s[11] & 0xffffu) << 16) | (s[9] >> 15);
        z->x[2] = ((s[7] & 0xffffu) << 16) | (s[5] >> 15);
        z->x[3] = ((s[2] & 0xffffu) << 16) | (s[0] >> 15);
}

static uint32_t
zuc_l1(const uint32_t x)
{
        return x ^ rotl32(x, 2) ^ rotl32(x, 10) ^ rotl32(x, 18) ^ rotl32(x, 24);
}

static uint32_t
zuc_l2(const uint32_t x)
{
        return x ^ rotl32(x, 8) ^ rotl32(x, 14) ^ rotl32(x, 22) ^ rotl32(x, 30);
}

/* S = (S0, S1, S0, S1) applied to the four bytes, most significant first */
static uint32_t
zuc_sbox(const uint32_t x)
{
        return ((uint32_t) ZUC_S0[x >> 24] << 24) | ((uint32_t) ZUC_S1[(x >> 16) & 0xff] << 16) |
               ((uint32_t) ZUC_S0[(x >> 8) & 0xff] << 8) | (uint32_t) ZUC_S1[x & 0xff];
}

/* Nonlinear function F(X0, X1, X2): returns W and updates R1, R2 */
static uint32_t
zuc_f(struct zuc_state *z)
{
        const uint32_t w = (z->x[0] ^ z->r1) + z->r2;
        const uint32_t w1 = z->r1 + z->x[1];
        const uint32_t w2 = z->r2 ^ z->x[2];

        z->r1 = zuc_sbox(zuc_l1((w1 << 16) | (w2 >> 16)));
        z->r2 = zuc_sbox(zuc_l2((w2 << 16) | (w1 >> 16)));
        return w;
}

/* Initialisation stage once s0..s15 are loaded, then the first (discarded) working step */
static void
zuc_run_init(struct zuc_state *z)
{
        z->r1 = 0;
        z->r2 = 0;
        for (int i = 0; i < 32; i++) {
                zuc_bit_reorg(z);
                const uint32_t w = zuc_f(z);

                zuc_lfsr_step(z, w >> 1);
        }
        zuc_bit_reorg(z);
        (void) zuc_f(z);
        zuc_lfsr_step(z, 0);
}

/* One 32-bit keystream word Z = F(X0, X1, X2) xor X3 */
static uint32_t
zuc_next(struct zuc_state *z)
{
        zuc_bit_reorg(z);
        const uint32_t w = zuc_f(z) ^ z->x[3];

        zuc_lfsr_step(z, 0);
        return w;
}

/* ZUC-128 key loading: s_i = k_i || d_i || iv_i (8 + 15 + 8 bits) */
static void
zuc128_init(struct zuc_state *z, const uint8_t key[16], const uint8_t iv[16])
{
        for (int i = 0; i < 16; i++)
                z->s[i] = ((uint32_t) key[i] << 23) | ((uint32_t) ZUC128_D[i] << 8) | iv[i];
        zuc_run_init(z);
}

/* Normalise a ZUC-256 IV to IV0..IV16 (bytes) and IV17..IV24 (6-bit values).
 * 25-byte form: iv[17..24] hold the 6-bit values in their low 6 bits (upper 2 bits ignored).
 * 23-byte form: the 48 bits of iv[17..22] are IV17 || IV18 || ... || IV24, MSB first. */
static void
zuc256_unpack_iv(const uint8_t *iv, const size_t iv_len, uint8_t out[25])
{
        memcpy(out, iv, 17);
        if (iv_len == 23) {
                uint64_t bits = 0;

                for (int i = 17; i < 23; i++)
                        bits = (bits << 8) | iv[i];
                for (int i = 0; i < 8; i++)
                        out[17 + i] = (uint8_t) ((bits >> (42 - 6 * i)) & 0x3f);
        } else {
                if (iv_len != 25) {
                        fprintf(stderr, "ref_zuc: unsupported ZUC-256 IV length %zu\n", iv_len);
                        abort();
                }
                for (int i = 17; i < 25; i++)
                        out[i] = iv[i] & 0x3f;
        }
}

static int
zuc256_d_index(const unsigned tag_len)
{
        switch (tag_len) {
        case 0:
                return 0;
        case 4:
                return 1;
        case 8:
                return 2;
        case 16:
                return 3;
        default:
                fprintf(stderr, "ref_zuc: unsupported ZUC-256 tag length %u\n", tag_len);
                abort();
        }
}

/* 8 || 7 || 8 || 8 bit concatenation making a 31-bit cell */
static uint32_t
zuc256_cell(const uint8_t a, const uint8_t b7, const uint8_t c, const uint8_t d)
{
        return ((uint32_t) a << 23) | ((uint32_t) (b7 & 0x7f) << 16) | ((uint32_t) c << 8) | d;
}

/* ZUC-256 key/IV loading, "The ZUC-256 Stream Cipher" section 2 (184-bit IV) */
static void
zuc256_init(struct zuc_state *z, const uint8_t k[32], const uint8_t *iv_in, const size_t iv_len,
            const unsigned tag_len)
{
        const uint8_t *d = ZUC256_D[zuc256_d_index(tag_len)];
        uint8_t iv[25];
        uint32_t *s = z->s;

        zuc256_unpack_iv(iv_in, iv_len, iv);

        s[0] = zuc256_cell(k[0], d[0], k[21], k[16]);
        s[1] = zuc256_cell(k[1], d[1], k[22], k[17]);
        s[2] = zuc256_cell(k[2], d[2], k[23], k[18]);
        s[3] = zuc256_cell(k[3], d[3], k[24], k[19]);
        s[4] = zuc256_cell(k[4], d[4], k[25], k[20]);
        s[5] = zuc256_cell(iv[0], d[5] | iv[17], k[5], k[26]);
        s[6] = zuc256_cell(iv[1], d[6] | iv[18], k[6], k[27]);
        s[7] = zuc256_cell(iv[10], d[7] | iv[19], k[7], iv[2]);
        s[8] = zuc256_cell(k[8], d[8] | iv[20], iv[3], iv[11]);
        s[9] = zuc256_cell(k[9], d[9] | iv[21], iv[12], iv[4]);
        s[10] = zuc256_cell(iv[5], d[10] | iv[22], k[10], k[28]);
        s[11] = zuc256_cell(k[11], d[11] | iv[23], iv[6], iv[13]);
        s[12] = zuc256_cell(k[12], d[12] | iv[24], iv[7], iv[14]);
        s[13] = zuc256_cell(k[13], d[13], iv[15], iv[8]);
        s[14] = zuc256_cell(k[14], d[14] | (k[31] >> 4), iv[16], iv[9]);
        s[15] = zuc256_cell(k[15], d[15] | (k[31] & 0x0f), k[30], k[29]);
        zuc_run_init(z);
}

/* ------------------------------------------------------------------ helpers */

/* out = in xor keystream, keystream words serialised big-endian; whole bytes only */
static void
zuc_xor_stream(struct zuc_state *z, const uint8_t *in, uint8_t *out, const size_t len)
{
        for (size_t i = 0; i < len; i += 4) {
                const uint32_t w = zuc_next(z);

                for (size_t j = 0; j < 4 && i + j < len; j++)
                        out[i + j] = in[i + j] ^ (uint8_t) (w >> (24 - 8 * j));
        }
}

static uint32_t *
zuc_alloc_words(const uint64_t nwords)
{
        uint32_t *p = calloc((size_t) nwords + 1, sizeof(*p));

        if (p == NULL) {
                fprintf(stderr, "ref_zuc: out of memory\n");
                abort();
        }
        return p;
}

/* the 32 keystream bits z[pos], ..., z[pos+31] of the keystream bit string (MSB first).
 * Always reads ks[pos / 32 + 1] (even when pos is a multiple of 32, where it is not needed):
 * buffers from zuc_alloc_words() have one spare word for that. */
static uint32_t
zuc_window(const uint32_t *ks, const uint64_t pos)
{
        const uint64_t j = pos >> 5;
        const unsigned r = (unsigned) (pos & 31);
        const uint64_t two_words = ((uint64_t) ks[j] << 32) | ks[j + 1];

        return (uint32_t) ((two_words << r) >> 32);
}

/* Universal-hash core shared by 128-EIA3 and the ZUC-256 MAC:
 * XOR of the 32-bit keystream windows starting at bit (base + i) for every i < len_bits with
 * message bit i set (bit 0 = MSB of msg[0]). Bits of the last byte beyond len_bits are masked
 * off, bytes beyond it are never read.
 *
 * Equivalent to "for every i: if (bit i) t ^= zuc_window(ks, base + i)" (the self-test checks
 * that); done a message byte at a time and without branching on message bits because that is
 * about 3x quicker on random data. 'base' is a multiple of 32 for every caller, so the 8
 * windows of one message byte start at bit offset 0, 8, 16 or 24 of a keystream word and all fit
 * in the 64 bits ks[j] || ks[j+1] (24 + 7 + 32 <= 64). */
static uint32_t
zuc_mac_accumulate(const uint32_t *ks, const uint64_t base, const uint8_t *msg,
                   const uint64_t len_bits)
{
        uint32_t t = 0;

        if (base % 8 != 0)
                abort();
        for (uint64_t n = 0; n * 8 < len_bits; n++) {
                const uint64_t pos = base + n * 8; /* keystream bit paired with message bit 8n */
                const uint64_t left = len_bits - n * 8;
                const uint64_t j = pos >> 5;
                /* keystream bits pos, pos+1, ... left-aligned in a 64-bit register */
                const uint64_t w = (((uint64_t) ks[j] << 32) | ks[j + 1]) << (pos & 31);
                uint32_t m = msg[n];

                if (left < 8)
                        m &= 0xff00u >> left;
                for (unsigned b = 0; b < 8; b++) {
                        const uint32_t bit = (m >> (7 - b)) & 1u;

                        t ^= (uint32_t) (w >> (32 - b)) & (0u - bit);
                }
        }
        return t;
}

static void
store_be32(uint8_t *p, const uint32_t v)
{
        p[0] = (uint8_t) (v >> 24);
        p[1] = (uint8_t) (v >> 16);
        p[2] = (uint8_t) (v >> 8);
        p[3] = (uint8_t) v;
}

/* ------------------------------------------------------------------ public functions */

void
ref_zuc128_keystream(const uint8_t key[16], const uint8_t iv[16], uint32_t *ks, size_t nwords)
{
        struct zuc_state z;

        zuc128_init(&z, key, iv);
        for (size_t i = 0; i < nwords; i++)
                ks[i] = zuc_next(&z);
}

void
ref_zuc256_keystream(const uint8_t key[32], const uint8_t *iv, size_t iv_len, unsigned tag_len,
                     uint32_t *ks, size_t nwords)
{
        struct zuc_state z;

        zuc256_init(&z, key, iv, iv_len, tag_len);
        for (size_t i = 0; i < nwords; i++)
                ks[i] = zuc_next(&z);
}

void
ref_zuc128_eea3(const uint8_t key[16], const uint8_t iv[16], const uint8_t *in, uint8_t *out,
                size_t len)
{
        struct zuc_state z;

        zuc128_init(&z, key, iv);
        zuc_xor_stream(&z, in, out, len);
}

void
ref_zuc256_eea3(const uint8_t key[32], const uint8_t *iv, size_t iv_len, const uint8_t *in,
                uint8_t *out, size_t len)
{
        struct zuc_state z;

        zuc256_init(&z, key, iv, iv_len, 0);
        zuc_xor_stream(&z, in, out, len);
}

/* 128-EIA3 (Document 1 section 4): L = ceil((LENGTH + 64) / 32) keystream words;
 * T = xor of z_i for every set message bit i, T ^= z_LENGTH, MAC = T ^ z_{32(L-1)},
 * where z_i is the 32-bit word starting at keystream bit i. */
void
ref_zuc128_eia3(const uint8_t key[16], const uint8_t iv[16], const uint8_t *msg, uint64_t len_bits,
                uint8_t tag[4])
{
        const uint64_t nwords = (len_bits + 64 + 31) / 32;
        uint32_t *ks = zuc_alloc_words(nwords);
        uint32_t t;

        ref_zuc128_keystream(key, iv, ks, (size_t) nwords);
        t = zuc_mac_accumulate(ks, 0, msg, len_bits);
        t ^= zuc_window(ks, len_bits);
        t ^= ks[nwords - 1];
        store_be32(tag, t);
        free(ks);
}

/* ZUC-256 MAC with a t-bit tag ("The ZUC-256 Stream Cipher" section 3), t = 32, 64, 128:
 * L = ceil(l / 32) + 2 * t/32 keystream words; Tag = z[0..t-1];
 * for every set message bit i: Tag ^= z[t+i .. t+i+t-1]; finally Tag ^= z[t+l .. t+l+t-1].
 * Done here one 32-bit tag word at a time (tag word k sees the windows shifted by 32k bits). */
void
ref_zuc256_eia3(const uint8_t key[32], const uint8_t *iv, size_t iv_len, const uint8_t *msg,
                uint64_t len_bits, uint8_t *tag, size_t tag_len)
{
        const uint64_t t_bits = (uint64_t) tag_len * 8;
        const uint64_t nwords = (len_bits + 31) / 32 + 2 * (t_bits / 32);
        uint32_t *ks;

        if (tag_len != 4 && tag_len != 8 && tag_len != 16) {
                fprintf(stderr, "ref_zuc: unsupported ZUC-256 MAC tag length %zu\n", tag_len);
                abort();
        }
        ks = zuc_alloc_words(nwords);
        ref_zuc256_keystream(key, iv, iv_len, (unsigned) tag_len, ks, (size_t) nwords);
        for (uint64_t k = 0; k < t_bits / 32; k++) {
                const uint64_t base = t_bits + 32 * k;
                uint32_t t = ks[k];

                t ^= zuc_mac_accumulate(ks, base, msg, len_bits);
                t ^= zuc_window(ks, base + len_bits);
                store_be32(tag + 4 * k, t);
        }
        free(ks);
}

/* ------------------------------------------------------------------ self-test */

/*
 * Published vectors. Sources: ETSI/SAGE 128-EEA3 & 128-EIA3 Document 3 "Implementor's Test
 * Data" (v1.1) for ZUC-128; "The ZUC-256 Stream Cipher" and the ZUC-256 test data circulated
 * with it for ZUC-256. Values transcribed from the KAT files shipped with intel-ipsec-mb
 * (test/kat-app/zuc_e[ei]a3_{128,256}.json.c), test-case ids (tc) kept.
 * All byte strings are hex.
 */
struct zv_eea3_128 {
        unsigned tc;
        const char *key;
        uint32_t count; /* COUNT, BEARER, DIRECTION of 128-EEA3 (used when iv16 == NULL) */
        uint8_t bearer;
        uint8_t dir;
        const char *iv16; /* raw 16-byte ZUC IV (plain keystream tests) */
        size_t bits;      /* LENGTH in bits */
        const char *in;
        const char *out;
};

struct zv_eia3_128 {
        unsigned tc;
        const char *key;
        uint32_t count;
        uint8_t bearer;
        uint8_t dir;
        size_t bits;
        const char *msg;
        const char *tag;
};

struct zv_eea3_256 {
        unsigned tc;
        const char *key;
        size_t iv_len; /* 25 or 23 */
        const char *iv;
        size_t len; /* bytes */
        const char *ks;
};

struct zv_eia3_256 {
        unsigned tc;
        const char *key;
        size_t iv_len;
        const char *iv;
        size_t bits;
        const char *msg; /* NULL: message is 'bits' bits of the repeated byte 'fill' */
        uint8_t fill;
        size_t tag_len;
        const char *tag;
};

/* ---- 128-EEA3 (ETSI/SAGE Document 3 test sets 1-5, keystream tests, LFSR corner case) */
static const struct zv_eea3_128 zv_eea3_128[] = {
        { 1, "173d14ba5003731d7a60049470f00a29",
          0x66035492u, 0x0f, 0, NULL, 193,
          "6cf65340735552ab0c9752fa6f9025fe0bd675d9005875b200",
          "a6c85fc66afb8533aafc2518dfe784940ee1e4b030238cc800" },
        { 2, "e5bd3ea0eb55ade866c6ac58bd54302a",
          0x00056823u, 0x18, 1, NULL, 800,
          "14a8ef693d678507bbe7270a7f67ff5006c3525b9807e467c4e56000ba338f5d"
          "429559036751822246c80d3b38f07f4be2d8ff5805f5132229bde93bbbdcaf38"
          "2bf1ee972fbf9977bada8945847a2a6c9ad34a667554e04d1f7fa2c33241bd8f"
          "01ba220d",
          "131d43e0dea1be5c5a1bfd971d852cbf712d7b4f57961fea3208afa8bca433f4"
          "56ad09c7417e58bc69cf8866d1353f74865e80781d202dfb3ecff7fcbc3b190f"
          "e82a204ed0e350fc0f6f2613b2f2bca6df5a473a57a4a00d985ebad880d6f238"
          "64a07b01" },
        { 3, "d4552a8fd6e61cc81a2009141a29c10b",
          0x76452ec1u, 0x02, 1, NULL, 1570,
          "38f07f4be2d8ff5805f5132229bde93bbbdcaf382bf1ee972fbf9977bada8945"
          "847a2a6c9ad34a667554e04d1f7fa2c33241bd8f01ba220d3ca4ec41e074595f"
          "54ae2b454fd971432043601965cca85c2417ed6cbec3bada84fc8a579aea7837"
          "b0271177242a64dc0a9de71a8edee86ca3d47d033d6bf539804eca86c584a905"
          "2de46ad3fced65543bd90207372b27afb79234f5ff43ea870820e2c2b78a8aae"
          "61cce52a0515e348d196664a3456b182a07c406e4a20791271cfeda165d535ec"
          "5ea2d4df40",
          "8383b0229fcc0b9d2295ec41c977e9c2bb72e220378141f9c8318f3a270dfbcd"
          "ee6411c2b3044f176dc6e00f8960f97afacd131ad6a3b49b16b7babcf2a509eb"
          "b16a75dcab14ff275dbeeea1a2b155f9d52c26452d0187c310a4ee55beaa78ab"
          "4024615ba9f5d5adc7728f73560671f013e5e550085d3291df7d5fecedded559"
          "641b6c2f585233bc71e9602bd2305855bbd25ffa7f17ecbc042daae38c1f57ad"
          "8e8ebd37346f71befdbb7432e0e0bb2cfc09bcd96570cb0c0c39df5e29294e82"
          "703a637f80" },
        { 4, "db84b4fbccda563b66227bfe456f0f77",
          0xe4850fe1u, 0x10, 1, NULL, 2798,
          "e539f3b8973240da03f2b8aa05ee0a00dbafc0e182055dfe3d7383d92cef40e9"
          "2928605d52d05f4f9018a1f189ae3997ce19155fb1221db8bb0951a853ad852c"
          "e16cff07382c93a157de00ddb125c7539fd85045e4ee07e0c43f9e9d6f414fc4"
          "d1c62917813f74c00fc83f3e2ed7c45ba5835264b43e0b20afda6b3053bfb642"
          "3b7fce25479ff5f139dd9b5b995558e2a56be18dd581cd017c735e6f0d0d97c4"
          "ddc1d1da70c6db4a12cc92778e2fbbd6f3ba52af91c9c6b64e8da4f7a2c266d0"
          "2d001753df08960393c5d56888bf49eb5c16d9a80427a416bcb597df5bfe6f13"
          "890a07ee1340e6476b0d9aa8f822ab0fd1ab0d204f40b7ce6f2e136eb67485e5"
          "07804d504588ad37ffd816568b2dc40311dfb654cdead47e2385c3436203dd83"
          "6f9c64d97462ad5dfa63b5cfe08acb9532866f5ca787566fca93e6b1693ee15c"
          "f6f7a2d689d9741798dc1c238e1be650733b18fb34ff880e16bbd21b47ac",
          "4bbfa91ba25d47db9a9f190d962a19ab323926b351fbd39e351e05da8b8925e3"
          "0b1cce0d1221101095815cc7cb6319509ec0d67940491987e13f0affac332aa6"
          "aa64626d3e9a1917519e0b97b655c6a165e44ca9feac0790d2a321ad3d86b79c"
          "5138739fa38d887ec7def449ce8abdd3e7f8dc4ca9e7b73314ad310f9025e619"
          "46b3a56dc649ec0da0d63943dff592cf962a7efb2c8524e35a2a6e7879d62604"
          "ef268695fa4003027e22e6083077522064bd4a5b906b5f531274f235ed506cff"
          "0154c754928a0ce5476f2cb1020a1222d32c1455ecaef1e368fb344d1735bfbe"
          "deb71d0a33a2a54b1da5a294e679144ddf11eb1a3de8cf0cc061917974f35c1d"
          "9ca0ac81807f8fcce6199a6c7712da865021b04ce0439516f1a526ccda9fd9ab"
          "bd53c3a684f9ae1e7ee6b11da138ea826c5516b5aadf1abbe36fa7fff92e3a11"
          "76064e8d95f2e4882b5500b93228b2194a475c1a27f63f9ffd264989a1bc" },
        { 5, "e13fed21b46e4e7ec31253b2bb17b3e0",
          0x2738cdaau, 0x1a, 0, NULL, 4019,
          "8d74e20d54894e06d3cb13cb3933065e8674be62adb1c72b3a646965ab63cb7b"
          "7854dfdc27e84929f49c64b872a490b13f957b64827e71f41fbd4269a42c97f8"
          "24537027f86e9f4ad82d1df451690fdd98b6d03f3a0ebe3a312d6b840ba5a182"
          "0b2a2c9709c090d245ed267cf845ae41fa975d3333ac3009fd40eba9eb5b8857"
          "14b768b697138baf21380eca49f644d48689e4215760b906739f0d2b3f091133"
          "ca15d981cbe401baf72d05ace05cccb2d297f4ef6a5f58d91246cfa77215b892"
          "ab441d5278452795ccb7f5d79057a1c4f77f80d46db2033cb79bedf8e60551ce"
          "10c667f62a97abafabbcd6772018df96a282ea737ce2cb331211f60d5354ce78"
          "f9918d9c206ca042c9b62387dd709604a50af16d8d35a8906be484cf2e74a928"
          "9940364353249b27b4c9ae29eddfc7da6418791a4e7baa0660fa64511f2d685c"
          "c3a5ff70e0d2b74292e3b8a0cd6b04b1c790b8ead2703708540dea2fc09c3da7"
          "70f65449e84d817a4f551055e19ab85018a0028b71a144d96791e9a357793350"
          "4eee0060340c69d274e1bf9d805dcbcc1a6faa976800b6ff2b671dc463652fa8"
          "a33ee50974c1c21be01eabb2167430269d72ee511c9dde30797c9a25d86ce74f"
          "5b961be5fdfb6807814039e7137636bd1d7fa9e09efd2007505906a5ac45dfde"
          "ed7757bbee745749c29633350bee0ea6f409df45801600",
          "94eaa4aa30a57137ddf09b97b25618a20a13e2f10fa5bf8161a879cc2ae797a6"
          "b4cf2d9df31debb9905ccfec97de605d21c61ab8531b7f3c9da5f03931f8a064"
          "2de48211f5f52ffea10f392a047669985da454a28f080961a6c2b62daa17f33c"
          "d60a4971f48d2d909394a55f48117ace43d708e6b77d3dc46d8bc017d4d1abb7"
          "7b7428c042b06f2f99d8d07c9879d99600127a31985f1099bbd7d6c1519ede8f"
          "5eeb4a610b349ac01ea2350691756bd105c974a53eddb35d1d4100b012e522ab"
          "41f4c5f2fde76b59cb8b96d885cfe4080d1328a0d636cc0edc05800b76acca8f"
          "ef672084d1f52a8bbd8e0993320992c7ffbae17c408441e0ee883fc8a8b05e22"
          "f5ff7f8d1b48c74c468c467a028f09fd7ce91109a570a2d5c4d5f4fa18c5dd3e"
          "4562afe24ef771901f59af645898acef088abae07e92d52eb2de55045bb1b7c4"
          "164ef2d7a6cac15eeb926d7ea2f08b66e1f759f3aee44614725aa3c7482b3084"
          "4c143ff85b53f1e583c501257dddd096b81268daa303f17234c2333541f0bb8e"
          "190648c5807c866d7193228609adb948686f7de294a802cc38f7fe5208f5ea31"
          "96d0167b9bdd02f0d2a5221ca508f893af5c4b4bb9f4f520fd84289b3dbe7e61"
          "497a7e2a584037ea637b6981127174af57b471df4b2768fd79c1540fb3edf2ea"
          "22cb69bec0cf8d933d9c6fdd645e850591cca3d62c0cc0" },
        { 6, "00000000000000000000000000000000",
          0, 0, 0, "00000000000000000000000000000000", 64,
          "0000000000000000",
          "27bede74018082da" },
        { 7, "ffffffffffffffffffffffffffffffff",
          0, 0, 0, "ffffffffffffffffffffffffffffffff", 64,
          "0000000000000000",
          "0657cfa07096398b" },
        { 8, "3d4c4be96a82fdaeb58f641db17b455b",
          0, 0, 0, "84319aa8de6915ca1f6bda6bfbd8c766", 64,
          "0000000000000000",
          "14f1c2723279c419" },
        { 9, "4d320bfad4c285bfd6b8bd00f39d8b41",
          0, 0, 0, "52959daba0bf176ece2dc315049eb574", 64,
          "0000000000000000",
          "ed4400e70633e5c5" },
        { 10, "000102030405060708090a0b0c0d0e0f",
          0xcf50724bu, 0x00, 0, NULL, 296,
          "0000000000000000000000000000000000000000000000000000000000000000"
          "0000000000",
          "f555336501312ed77208c8fc30b5a44a7d097d6e744e1040075f4785126999d5"
          "6eb23b972a" },
};

/* ---- 128-EIA3 */
static const struct zv_eia3_128 zv_eia3_128[] = {
        { 1, "00000000000000000000000000000000",
          0x00000000u, 0x00, 0, 1,
          "00",
          "c8a9595e" },
        { 2, "47054125561eb2dda94059da05097850",
          0x561eb2ddu, 0x14, 0, 90,
          "000000000000000000000000",
          "6719a088" },
        { 3, "c9e6cec4607c72db000aefa88385ab0a",
          0xa94059dau, 0x0a, 1, 577,
          "983b41d47d780c9e1ad11d7eb70391b1de0b35da2dc62f83e7b78d6306ca0ea0"
          "7e941b7be91348f9fcb170e2217fecd97f9f68adb16e5d7d21e569d280ed775c"
          "ebde3f4093c5388100",
          "fae8ff0b" },
        { 4, "c8a48262d0c2e2bac4b96ef77e80ca59",
          0x05097850u, 0x10, 1, 2079,
          "b546430bf87b4f1ee834704cd6951c36e26f108cf731788f48dc34f1678c0522"
          "1c8fa7ff2f39f477e7e49ef60a4ec2c3de24312a96aa26e1cfba57563838b297"
          "f47e8510c779fd6654b143386fa639d31edbd6c06e47d159d94362f26aeeedee"
          "0e4f49d9bf8412995415bfad56ee82d1ca7463abf085b082b09904d6d990d43c"
          "f2e062f40839d93248b1eb92cdfed5300bc148280430b6d0caa094b6ec8911ab"
          "7dc36824b824dc0af6682b0935fde7b492a14dc2f43648038da2cf79170d2d50"
          "133fd49416cb6e33bea90b8bf4559b03732a01ea290e6d074f79bb83c10e5800"
          "15cc1a85b36b5501046e9c4bdcae5135690b8666bd54b7a703ea7b6f220a5469"
          "a568027e",
          "004ac4d6" },
        { 5, "6b8b08ee79e0b5982d6d128ea9f220cb",
          0x561eb2ddu, 0x1c, 0, 5670,
          "5bad724710ba1c56d5a315f8d40f6e093780be8e8de07b6992432018e08ed96a"
          "5734af8bad8a575d3a1f162f85045cc770925571d9f5b94e454a77c16e72936b"
          "f016ae157499f0543b5d52caa6dbeab697d2bb73e41b8075dce79b4b86044f66"
          "1d4485a543dd78606e0419e8059859d3cb2b67ce0977603f81ff839e33185954"
          "4cfbc8d00fef1a4c8510fb547d6b06c611ef44f1bce107cfa45a06aab360152b"
          "28dc1ebe6f7fe09b0516f9a5b02a1bd84bb0181e2e89e19bd8125930d178682f"
          "3862dc51b636f04e720c47c3ce51ad70d94b9b2255fbae906549f499f8c6d399"
          "47ed5e5df8e2def113253e7b08d0a76b6bfc68c812f375c79b8fe5fd85976aa6"
          "d46b4a2339d8ae5147f680fbe70f978b38effd7b2f7866a22554e193a94e98a6"
          "8b74bd25bb2b3f5fb0a5fd59887f9ab68159b7178d5b7b677cb546bf41eadca2"
          "16fc10850128f8bdef5c8d89f96afa4fa8b54885565ed838a950fee5f1c3b0a4"
          "f6fb71e54dfd169e82cecc7266c850e67c5ef0ba960f5214060e71eb172a75fc"
          "1486835cbea6534465b055c96a72e4105224182325d830414b40214daa8091d2"
          "e0fb010ae15c6de90850973bdf1e423be148a237b87a0c9f34d4b47605b803d7"
          "43a86a90399a4af396d3a1200a62f3d9507962e8e5bee6d3da2bb3f7237664ac"
          "7a292823900bc63503b29e80d63f6067bf8e1716ac25beba350deb62a99fe031"
          "85eb4f69937ecd387941fda544ba67db0911774938b01827bcc69c92b3f772a9"
          "d2859ef003398b1f6bbad7b574f7989a1d10b2df798e0dbf30d6587464d24878"
          "cd00c0eaee8a1a0cc753a27979e11b41db1de3d5038afaf49f5c682c3748d8a3"
          "a9ec54e6a371275f1683510f8e4f90938f9ab6e134c2cfdf4841cba88e0cff2b"
          "0bcc8e6adcb71109b5198fecf1bb7e5c531aca50a56a8a3b6de59862d41fa113"
          "d9cd957808f08571d9a4bb792af271f6cc6dbb8dc7ec36e36be1ed308164c31c"
          "7c0afc541c",
          "0ca12792" },
        { 6, "000102030405060708090a0b0c0d0e0f",
          0x01234567u, 0x0a, 0, 63,
          "5bad724710ba1c56",
          "849acadb" },
        { 7, "c9e6cec4607c72db000aefa88385ab0a",
          0xa94059dau, 0x0a, 1, 62,
          "983b41d47d780c9e",
          "81175581" },
        { 8, "c9e6cec4607c72db000aefa88385ab0a",
          0xa94059dau, 0x0a, 0, 512,
          "983b41d47d780c9e1ad11d7eb70391b1de0b35da2dc62f83e7b78d6306ca0ea0"
          "7e941b7be91348f9fcb170e2217fecd97f9f68adb16e5d7d21e569d280ed775c",
          "bbaf2fc3" },
        { 9, "000102030405060708090a0b0c0d0e0f",
          0x01234567u, 0x0a, 0, 64,
          "5bad724710ba1c56",
          "1b3d0f74" },
        { 10, "c9e6cec4607c72db000aefa88385ab0a",
          0xa94059dau, 0x0a, 1, 480,
          "983b41d47d780c9e1ad11d7eb70391b1de0b35da2dc62f83e7b78d6306ca0ea0"
          "7e941b7be91348f9fcb170e2217fecd97f9f68adb16e5d7d21e569d2",
          "395c1192" },
};

/* ---- ZUC-256 keystream / EEA3 (plaintext is all-zero, so 'ks' is the keystream) */
static const struct zv_eea3_256 zv_eea3_256[] = {
        { 1, "0000000000000000000000000000000000000000000000000000000000000000",
          25, "00000000000000000000000000000000000000000000000000", 80,
          "58d03ad62e032ce2dafc683a39bdcb0352a2bc67f1b7de74163ce3a101ef5558"
          "9639d75b95fa681b7f090df756391ccc903b7612744d544c17bc3fad8b163b08"
          "21787c0b97775bb84943c6bbe8ad8afd" },
        { 2, "8f8ef9d8fb0ace2b23194842cb5c6d981e716874e1dfebe0f2460271bb690d9e",
          23, "2ce8870f8c7f472a022d24cd233f4d0a400d12ddc41626", 192,
          "c1ce46d24e786f97cfc0a53cec506e17e08c7e3384982bc168972483037c0dc5"
          "19a1e8b1b7534f3b8aa3ce9b3dd01af77dae4c6be4e3127063c94ccf1ff718df"
          "f17d96e460a83bf5717d2a871d82ed92c5e76ed93c010d87133b1a92a2831a5b"
          "9afb811ddbbd82013b320e2c673c14139d58f1889de5d6e348aa43c208a664a8"
          "ad71267ee7ed0c58d327425e10b003621830dedb45cd78ddee4fa145a6bfc137"
          "3e475c1bb68b638749c41b9eea01622a4465170feecc7fe6ab0546257ddc401e" },
        { 3, "92f927e8ab4846db2fa361367e89e117c9995763e0e44cce20038a9c9a44ca64",
          23, "7d51fb42f87e62fa6025b92b4ed61c2ecc6c65181e9d04", 96,
          "e414f92645c62e12b0e133f6a79622fb0fe0075c6ebe101b37e4f71c94cff173"
          "02646140b4f1fbcf8cc6a2dad73fb4cca87b13aad26e2a1b0a07ef8841fb6c10"
          "3f4160b34c7d009c722f4aa2c10cf46fbfedecafebbcc82a5460487dfe20386a" },
        { 4, "a772f5fe9d81d1cf228e45536775acc9041957550f6c39f9c51b1e9ebb22a2f5",
          23, "ce5111839b644d205192713b4347f938790fd259bc35d3", 48,
          "896369ca77d305f7a3cbf6bab38c144fc373f4f0f50cf1ad0f41654840475eef"
          "adea1c3c15a0d27225141d6fa00fe89a" },
        { 5, "f8a0454f6dea746e4cd16eb0c3a21f57eb6f352d6a025b3532ba473f1f0eddc9",
          23, "0790eb7d096dc1f18647ea57e4b892b14e3b2d62aa536f", 48,
          "c6023c5853c9aeba0a4710dc857613820866bc3e9c2db242203a0a0c491de944"
          "7387e5609d98fff133c3d03d49fc7707" },
        { 6, "ffffffffffffffffffffffffffffffffffffffffffffffffffffffffffffffff",
          25, "ffffffffffffffffffffffffffffffffff3f3f3f3f3f3f3f3f", 80,
          "3356cbaed1a1c18b6baa4ffe343f777c9e15128f251ab65b949f7b26ef7157f2"
          "96dd2fa9df95e3ee7a5be02ec32ba585505af316c2f9ded27cdbd935e441ce11"
          "15fd0a80bb7aef6768989416b8fac8c2" },
        { 7, "67c6697351ff4aec29cdbaabf2fbe3467cc254f81be8e78d765a2e63339fc99a",
          25, "ffffffffffffffffffffffffffffffffff3f3f3f3f3f3f3f3f", 80,
          "b7a0405ed0e5e447ba13f2b5a9ed8a25e43e8e62d7b3e646c571a1c6cd76ea59"
          "3a493de2f9529100af206960cce84b380bb842cd1b12acd98950874685d15766"
          "fa658598ffb7893f34ff9ff13d80e854" },
        { 8, "c254f81be8e78d765a2e63339fc99a66320db73158a35a255d051758e95ed4ab",
          25, "67c6697351ff4aec29cdbaabf2fbe3467c3f3f3f3f3f3f3f3f", 80,
          "8d59003cb98fe279c7e88535efe5b551dea5ecb1cadc555a3cd3a9b4322234d9"
          "42e2994a9b87fd467354dc68eae8d4badc1cb74413a0a0a218863f3592d11c8c"
          "aeffa31b4ee86fc64937f98ac6907c36" },
        { 9, "8d765a2e63339fc99a66320db73158a35a255d051758e95ed4abb2cdc69bb454",
          25, "67c6697351ff4aec29cdbaabf2fbe3467c30251338063e2327", 80,
          "d82e40782c03a71a90a505c58e61268be25f61f61fd46d040d9e487838f32f97"
          "46004eaccc930943921a174238f88c9b7e90c29f4a160c2a433bbbd950ee85d9"
          "7d1e3ab557fb56d8b4345c5c0b486737" },
        { 10, "67c6697351ff4aec29cdbaabf2fbe3467cc254f81be8e78d765a2e63339fc99a",
          23, "ffffffffffffffffffffffffffffffffffffffffffffff", 80,
          "b7a0405ed0e5e447ba13f2b5a9ed8a25e43e8e62d7b3e646c571a1c6cd76ea59"
          "3a493de2f9529100af206960cce84b380bb842cd1b12acd98950874685d15766"
          "fa658598ffb7893f34ff9ff13d80e854" },
};

static const char zv_m256_0[] =
          "05a8c34b709c97716770a5a30860ca250a8bb5c1c9d58c7dfb003bc09de1099f"
          "cc228cf6126fb91ec9454343257a2bba644b8c9177c8fdce01cfab6be6c24880"
          "8277adb8b98d1fd7480b734d989612d5f186fda112509a380737d5a3d021fe55"
          "7a8fffe04f259c73010666ff10a4ddd42abf0f5aa22964d999c846e646484d56"
          "e90217a814281322f0d443bea064d5289927245d7c2546d6df2c05705a55cdf6"
          "e7db3d9467fa6715e3849626eef422af2fa46eda2f4aa0cd107285b6453b22b8"
          "1fe03cf96429b446";
static const char zv_m256_1[] =
          "f66e2154b960b590dc35afb99d03f9be58f87c5c03db722ea634ff438dcfd4a7"
          "2a52ae3ab8c711d819d394668410f08145c50b05e689c6c9b4257bb78942d46c"
          "1afd0042809d105e68d6021307550824e59e6bf3ea04d7d78f0a48028c98d568"
          "ee119322";
static const char zv_m256_2[] =
          "ad2a9a9a7eb8b972c550e8285e17daa24c9aeb6172c6a7065432a65bc58bd7a2"
          "e05e18f5418ea86e50d9de672804ee22a572";
static const char zv_m256_3[] =
          "f7c3c482e72076a2785de1cba53f7d7ca3840b69ff3b19b56b9f250435ad893b"
          "adbaa5e1e84ea4f549849a2c71b1d6c11bdc";

/* ---- ZUC-256 MAC, tags of 4, 8 and 16 bytes; msg == NULL means 'bits' bits of the byte 'fill' */
static const struct zv_eia3_256 zv_eia3_256[] = {
        { 1, "0000000000000000000000000000000000000000000000000000000000000000",
          25, "00000000000000000000000000000000000000000000000000",
          400, NULL, 0x00, 4,
          "9b972a74" },
        { 2, "0000000000000000000000000000000000000000000000000000000000000000",
          25, "00000000000000000000000000000000000000000000000000",
          400, NULL, 0x00, 8,
          "673e54990034d38c" },
        { 3, "8f8ef9d8fb0ace2b23194842cb5c6d981e716874e1dfebe0f2460271bb690d9e",
          23, "2ce8870f8c7f472a022d24cd233f4d0a400d12ddc41626",
          1600, zv_m256_0, 0, 4,
          "8d748b71" },
        { 4, "0000000000000000000000000000000000000000000000000000000000000000",
          25, "00000000000000000000000000000000000000000000000000",
          400, NULL, 0x00, 16,
          "d85e54bbcb9600967084c952a1654b26" },
        { 5, "92f927e8ab4846db2fa361367e89e117c9995763e0e44cce20038a9c9a44ca64",
          23, "7d51fb42f87e62fa6025b92b4ed61c2ecc6c65181e9d04",
          800, zv_m256_1, 0, 4,
          "f2effbf7" },
        { 6, "a772f5fe9d81d1cf228e45536775acc9041957550f6c39f9c51b1e9ebb22a2f5",
          23, "ce5111839b644d205192713b4347f938790fd259bc35d3",
          400, zv_m256_2, 0, 4,
          "183df5f7" },
        { 7, "f8a0454f6dea746e4cd16eb0c3a21f57eb6f352d6a025b3532ba473f1f0eddc9",
          23, "0790eb7d096dc1f18647ea57e4b892b14e3b2d62aa536f",
          400, zv_m256_3, 0, 4,
          "b8bf0213" },
        { 8, "0000000000000000000000000000000000000000000000000000000000000000",
          25, "00000000000000000000000000000000000000000000000000",
          4000, NULL, 0x11, 4,
          "8754f5cf" },
        { 9, "ffffffffffffffffffffffffffffffffffffffffffffffffffffffffffffffff",
          25, "ffffffffffffffffffffffffffffffffff3f3f3f3f3f3f3f3f",
          400, NULL, 0x00, 4,
          "1f3079b4" },
        { 10, "ffffffffffffffffffffffffffffffffffffffffffffffffffffffffffffffff",
          25, "ffffffffffffffffffffffffffffffffff3f3f3f3f3f3f3f3f",
          4000, NULL, 0x11, 4,
          "5c7c8b88" },
        { 11, "ffffffffffffffffffffffffffffffffffffffffffffffffffffffffffffffff",
          23, "ffffffffffffffffffffffffffffffffffffffffffffff",
          400, NULL, 0x00, 4,
          "1f3079b4" },
        { 12, "0000000000000000000000000000000000000000000000000000000000000000",
          25, "00000000000000000000000000000000000000000000000000",
          4000, NULL, 0x11, 8,
          "130dc225e72240cc" },
        { 13, "0000000000000000000000000000000000000000000000000000000000000000",
          25, "00000000000000000000000000000000000000000000000000",
          272, NULL, 0x00, 4,
          "e7381d2a" },
        { 14, "0000000000000000000000000000000000000000000000000000000000000000",
          25, "00000000000000000000000000000000000000000000000000",
          272, NULL, 0x01, 4,
          "567b05fa" },
        { 15, "0000000000000000000000000000000000000000000000000000000000000000",
          25, "00000000000000000000000000000000000000000000000000",
          5120, NULL, 0x11, 4,
          "72c47d50" },
        { 16, "8f8ef9d8fb0ace2b23194842cb5c6d981e716874e1dfebe0f2460271bb690d9e",
          23, "2ce8870f8c7f472a022d24cd233f4d0a400d12ddc41626",
          1600, zv_m256_0, 0, 8,
          "e51df20a9e7406ac" },
        { 17, "ffffffffffffffffffffffffffffffffffffffffffffffffffffffffffffffff",
          23, "ffffffffffffffffffffffffffffffffffffffffffffff",
          400, NULL, 0x00, 16,
          "a35bb274b567c48b28319f111af34fbd" },
        { 18, "92f927e8ab4846db2fa361367e89e117c9995763e0e44cce20038a9c9a44ca64",
          23, "7d51fb42f87e62fa6025b92b4ed61c2ecc6c65181e9d04",
          800, zv_m256_1, 0, 8,
          "5a99e923faf1ecbb" },
        { 19, "a772f5fe9d81d1cf228e45536775acc9041957550f6c39f9c51b1e9ebb22a2f5",
          23, "ce5111839b644d205192713b4347f938790fd259bc35d3",
          400, zv_m256_2, 0, 8,
          "50a0c424a925f45b" },
        { 20, "f8a0454f6dea746e4cd16eb0c3a21f57eb6f352d6a025b3532ba473f1f0eddc9",
          23, "0790eb7d096dc1f18647ea57e4b892b14e3b2d62aa536f",
          400, zv_m256_3, 0, 8,
          "2cfca3593350d8ee" },
        { 21, "ffffffffffffffffffffffffffffffffffffffffffffffffffffffffffffffff",
          25, "ffffffffffffffffffffffffffffffffff3f3f3f3f3f3f3f3f",
          400, NULL, 0x00, 8,
          "8c71394d39957725" },
        { 22, "ffffffffffffffffffffffffffffffffffffffffffffffffffffffffffffffff",
          25, "ffffffffffffffffffffffffffffffffff3f3f3f3f3f3f3f3f",
          4000, NULL, 0x11, 8,
          "ea1dee544bb6223b" },
        { 23, "ffffffffffffffffffffffffffffffffffffffffffffffffffffffffffffffff",
          23, "ffffffffffffffffffffffffffffffffffffffffffffff",
          400, NULL, 0x00, 8,
          "8c71394d39957725" },
        { 24, "0000000000000000000000000000000000000000000000000000000000000000",
          25, "00000000000000000000000000000000000000000000000000",
          272, NULL, 0x00, 8,
          "03a6e4a494e7260c" },
        { 25, "0000000000000000000000000000000000000000000000000000000000000000",
          25, "00000000000000000000000000000000000000000000000000",
          272, NULL, 0x01, 8,
          "dc6b62687e90f100" },
        { 26, "0000000000000000000000000000000000000000000000000000000000000000",
          25, "00000000000000000000000000000000000000000000000000",
          5120, NULL, 0x11, 8,
          "a53b6cd650efb573" },
        { 27, "8f8ef9d8fb0ace2b23194842cb5c6d981e716874e1dfebe0f2460271bb690d9e",
          23, "2ce8870f8c7f472a022d24cd233f4d0a400d12ddc41626",
          1600, zv_m256_0, 0, 16,
          "4d405d6ef7f8afadd6717103df922820" },
        { 28, "92f927e8ab4846db2fa361367e89e117c9995763e0e44cce20038a9c9a44ca64",
          23, "7d51fb42f87e62fa6025b92b4ed61c2ecc6c65181e9d04",
          800, zv_m256_1, 0, 16,
          "0bfb8fff65af6a69eadebd94797b08a5" },
        { 29, "a772f5fe9d81d1cf228e45536775acc9041957550f6c39f9c51b1e9ebb22a2f5",
          23, "ce5111839b644d205192713b4347f938790fd259bc35d3",
          400, zv_m256_2, 0, 16,
          "4bded315a480a7e402e4c44890fe62f5" },
        { 30, "f8a0454f6dea746e4cd16eb0c3a21f57eb6f352d6a025b3532ba473f1f0eddc9",
          23, "0790eb7d096dc1f18647ea57e4b892b14e3b2d62aa536f",
          400, zv_m256_3, 0, 16,
          "9c6ed5f96395a728e16bb28a0e5b9072" },
        { 31, "0000000000000000000000000000000000000000000000000000000000000000",
          25, "00000000000000000000000000000000000000000000000000",
          4000, NULL, 0x11, 16,
          "df1e8307b31cc62beca1ac6f8190c22f" },
        { 32, "ffffffffffffffffffffffffffffffffffffffffffffffffffffffffffffffff",
          25, "ffffffffffffffffffffffffffffffffff3f3f3f3f3f3f3f3f",
          400, NULL, 0x00, 16,
          "a35bb274b567c48b28319f111af34fbd" },
        { 33, "ffffffffffffffffffffffffffffffffffffffffffffffffffffffffffffffff",
          25, "ffffffffffffffffffffffffffffffffff3f3f3f3f3f3f3f3f",
          4000, NULL, 0x11, 16,
          "3a83b554be408ca5494124ed9d473205" },
        { 34, "0000000000000000000000000000000000000000000000000000000000000000",
          25, "00000000000000000000000000000000000000000000000000",
          272, NULL, 0x00, 16,
          "4107039b7d83b8b657c234b3d1a7206a" },
        { 35, "0000000000000000000000000000000000000000000000000000000000000000",
          25, "00000000000000000000000000000000000000000000000000",
          272, NULL, 0x01, 16,
          "dbc676add9b2232da3c5f2fdf0fbe98a" },
        { 36, "0000000000000000000000000000000000000000000000000000000000000000",
          25, "00000000000000000000000000000000000000000000000000",
          5120, NULL, 0x11, 16,
          "e7bc9c1b0279277b23484bcf2e70e95b" },
};

#define ZV_COUNT(a) (sizeof(a) / sizeof((a)[0]))
#define ZV_MAX_BYTES 1024

static int
zv_hexval(const char c)
{
        if (c >= '0' && c <= '9')
                return c - '0';
        if (c >= 'a' && c <= 'f')
                return c - 'a' + 10;
        return -1;
}

/* decode a hex string into buf (capacity cap); returns the number of bytes */
static size_t
zv_hex(const char *hex, uint8_t *buf, const size_t cap)
{
        size_t n = 0;

        while (hex[0] != '\0' && hex[1] != '\0') {
                const int hi = zv_hexval(hex[0]), lo = zv_hexval(hex[1]);

                if (hi < 0 || lo < 0 || n >= cap) {
                        fprintf(stderr, "ref_zuc_selftest: bad embedded vector\n");
                        abort();
                }
                buf[n++] = (uint8_t) (hi * 16 + lo);
                hex += 2;
        }
        return n;
}

/* compare the first 'bits' bits (MSB first) */
static int
zv_bits_equal(const uint8_t *a, const uint8_t *b, const size_t bits)
{
        if (memcmp(a, b, bits / 8) != 0)
                return 0;
        if (bits % 8) {
                const uint8_t mask = (uint8_t) (0xff00u >> (bits % 8));

                if ((a[bits / 8] ^ b[bits / 8]) & mask)
                        return 0;
        }
        return 1;
}

/* 128-EEA3 IV (Document 1 section 3.3):
 * IV[0..3] = COUNT (big-endian), IV[4] = BEARER || DIRECTION || 00, IV[5..7] = 0,
 * IV[8..15] = IV[0..7] */
static void
zv_eea3_iv(const uint32_t count, const uint8_t bearer, const uint8_t dir, uint8_t iv[16])
{
        memset(iv, 0, 16);
        store_be32(iv, count);
        iv[4] = (uint8_t) (((bearer & 0x1f) << 3) | ((dir & 1) << 2));
        memcpy(iv + 8, iv, 8);
}

/* 128-EIA3 IV (Document 1 section 4.3):
 * IV[0..3] = COUNT, IV[4] = BEARER || 000, IV[5..7] = 0, IV[8] = IV[0] ^ (DIRECTION << 7),
 * IV[9..13] = IV[1..5], IV[14] = IV[6] ^ (DIRECTION << 7), IV[15] = IV[7] */
static void
zv_eia3_iv(const uint32_t count, const uint8_t bearer, const uint8_t dir, uint8_t iv[16])
{
        memset(iv, 0, 16);
        store_be32(iv, count);
        iv[4] = (uint8_t) ((bearer & 0x1f) << 3);
        memcpy(iv + 8, iv, 8);
        iv[8] ^= (uint8_t) ((dir & 1) << 7);
        iv[14] ^= (uint8_t) ((dir & 1) << 7);
}

/* 23-byte packed ZUC-256 IV -> equivalent 25-byte IV */
static void
zv_iv23_to_iv25(const uint8_t iv23[23], uint8_t iv25[25])
{
        memcpy(iv25, iv23, 17);
        iv25[17] = iv23[17] >> 2;
        iv25[18] = (uint8_t) (((iv23[17] & 0x03) << 4) | (iv23[18] >> 4));
        iv25[19] = (uint8_t) (((iv23[18] & 0x0f) << 2) | (iv23[19] >> 6));
        iv25[20] = iv23[19] & 0x3f;
        iv25[21] = iv23[20] >> 2;
        iv25[22] = (uint8_t) (((iv23[20] & 0x03) << 4) | (iv23[21] >> 4));
        iv25[23] = (uint8_t) (((iv23[21] & 0x0f) << 2) | (iv23[22] >> 6));
        iv25[24] = iv23[22] & 0x3f;
}

static int
zv_fail(const char *what, const unsigned tc, const char *detail)
{
        fprintf(stderr, "ref_zuc_selftest: FAIL %s tc %u%s%s\n", what, tc, detail[0] ? ": " : "",
                detail);
        return 1;
}

static int
zv_sbox_is_permutation(const uint8_t box[256])
{
        uint8_t seen[256] = { 0 };

        for (int i = 0; i < 256; i++)
                seen[box[i]] = 1;
        for (int i = 0; i < 256; i++)
                if (!seen[i])
                        return 0;
        return 1;
}

static int
zv_test_eea3_128(void)
{
        int fails = 0;

        for (size_t i = 0; i < ZV_COUNT(zv_eea3_128); i++) {
                const struct zv_eea3_128 *v = &zv_eea3_128[i];
                uint8_t key[16], iv[16], in[ZV_MAX_BYTES], exp[ZV_MAX_BYTES], out[ZV_MAX_BYTES];
                const size_t len = (v->bits + 7) / 8; /* byte-rounded: trailing bits are junk */

                zv_hex(v->key, key, sizeof(key));
                if (v->iv16 != NULL)
                        zv_hex(v->iv16, iv, sizeof(iv));
                else
                        zv_eea3_iv(v->count, v->bearer, v->dir, iv);
                if (zv_hex(v->in, in, sizeof(in)) != len || zv_hex(v->out, exp, sizeof(exp)) != len)
                        return zv_fail("128-EEA3", v->tc, "vector length");

                ref_zuc128_eea3(key, iv, in, out, len);
                if (!zv_bits_equal(out, exp, v->bits))
                        fails += zv_fail("128-EEA3", v->tc, "encrypt");

                /* decrypt in place; the bits past LENGTH must come back too (pure XOR) */
                ref_zuc128_eea3(key, iv, out, out, len);
                if (memcmp(out, in, len) != 0)
                        fails += zv_fail("128-EEA3", v->tc, "in-place decrypt");

                /* the raw keystream interface must agree with the cipher */
                if (v->bits % 32 == 0) {
                        uint32_t ks[ZV_MAX_BYTES / 4];
                        uint8_t ser[ZV_MAX_BYTES];

                        ref_zuc128_keystream(key, iv, ks, len / 4);
                        for (size_t w = 0; w < len / 4; w++) {
                                store_be32(ser + 4 * w, ks[w]);
                                for (int b = 0; b < 4; b++)
                                        ser[4 * w + (size_t) b] ^= in[4 * w + (size_t) b];
                        }
                        if (memcmp(ser, exp, len) != 0)
                                fails += zv_fail("ZUC-128 keystream", v->tc, "");
                }
        }
        return fails;
}

static int
zv_test_eia3_128(void)
{
        int fails = 0;

        for (size_t i = 0; i < ZV_COUNT(zv_eia3_128); i++) {
                const struct zv_eia3_128 *v = &zv_eia3_128[i];
                uint8_t key[16], iv[16], msg[ZV_MAX_BYTES], exp[4], tag[4];
                const size_t len = (v->bits + 7) / 8;

                zv_hex(v->key, key, sizeof(key));
                zv_eia3_iv(v->count, v->bearer, v->dir, iv);
                if (zv_hex(v->msg, msg, sizeof(msg)) != len ||
                    zv_hex(v->tag, exp, sizeof(exp)) != 4)
                        return zv_fail("128-EIA3", v->tc, "vector length");

                ref_zuc128_eia3(key, iv, msg, v->bits, tag);
                if (memcmp(tag, exp, 4) != 0)
                        fails += zv_fail("128-EIA3", v->tc, "tag");

                /* bits of the last byte beyond LENGTH must not matter */
                if (v->bits % 8) {
                        msg[len - 1] ^= (uint8_t) (0xffu >> (v->bits % 8));
                        ref_zuc128_eia3(key, iv, msg, v->bits, tag);
                        if (memcmp(tag, exp, 4) != 0)
                                fails += zv_fail("128-EIA3", v->tc, "trailing bits not ignored");
                }
        }
        return fails;
}

static int
zv_test_eea3_256(int *n_iv23)
{
        int fails = 0;

        for (size_t i = 0; i < ZV_COUNT(zv_eea3_256); i++) {
                const struct zv_eea3_256 *v = &zv_eea3_256[i];
                uint8_t key[32], iv[25], iv25[25], exp[ZV_MAX_BYTES], out[ZV_MAX_BYTES];
                uint8_t zero[ZV_MAX_BYTES] = { 0 };
                uint32_t ks[ZV_MAX_BYTES / 4];

                zv_hex(v->key, key, sizeof(key));
                if (zv_hex(v->iv, iv, sizeof(iv)) != v->iv_len ||
                    zv_hex(v->ks, exp, sizeof(exp)) != v->len || v->len % 4)
                        return zv_fail("ZUC-256", v->tc, "vector length");

                ref_zuc256_keystream(key, iv, v->iv_len, 0, ks, v->len / 4);
                for (size_t w = 0; w < v->len / 4; w++)
                        store_be32(out + 4 * w, ks[w]);
                if (memcmp(out, exp, v->len) != 0)
                        fails += zv_fail("ZUC-256 keystream", v->tc, "");

                ref_zuc256_eea3(key, iv, v->iv_len, zero, out, v->len);
                if (memcmp(out, exp, v->len) != 0)
                        fails += zv_fail("ZUC-256 EEA3", v->tc, "");

                /* odd length: prefix property, and nothing written past len */
                memset(out, 0xa5, sizeof(out));
                ref_zuc256_eea3(key, iv, v->iv_len, zero, out, v->len - 3);
                if (memcmp(out, exp, v->len - 3) != 0 || out[v->len - 3] != 0xa5)
                        fails += zv_fail("ZUC-256 EEA3", v->tc, "odd length");

                if (v->iv_len == 23) {
                        zv_iv23_to_iv25(iv, iv25);
                        ref_zuc256_eea3(key, iv25, 25, zero, out, v->len);
                        if (memcmp(out, exp, v->len) != 0)
                                fails += zv_fail("ZUC-256 EEA3", v->tc, "23- vs 25-byte IV");
                        (*n_iv23)++;
                } else {
                        /* upper two bits of iv[17..24] are ignored */
                        memcpy(iv25, iv, 25);
                        for (int b = 17; b < 25; b++)
                                iv25[b] |= 0xc0;
                        ref_zuc256_eea3(key, iv25, 25, zero, out, v->len);
                        if (memcmp(out, exp, v->len) != 0)
                                fails += zv_fail("ZUC-256 EEA3", v->tc, "IV upper bits");
                }
        }
        return fails;
}

static int
zv_test_eia3_256(int n_by_tag[3], int *n_iv23)
{
        int fails = 0;

        for (size_t i = 0; i < ZV_COUNT(zv_eia3_256); i++) {
                const struct zv_eia3_256 *v = &zv_eia3_256[i];
                uint8_t key[32], iv[25], iv25[25], msg[ZV_MAX_BYTES], exp[16], tag[16];
                const size_t len = (v->bits + 7) / 8;

                zv_hex(v->key, key, sizeof(key));
                if (zv_hex(v->iv, iv, sizeof(iv)) != v->iv_len || len > sizeof(msg) ||
                    zv_hex(v->tag, exp, sizeof(exp)) != v->tag_len)
                        return zv_fail("ZUC-256 MAC", v->tc, "vector length");
                if (v->msg == NULL)
                        memset(msg, v->fill, len);
                else if (zv_hex(v->msg, msg, sizeof(msg)) != len)
                        return zv_fail("ZUC-256 MAC", v->tc, "message length");

                memset(tag, 0, sizeof(tag));
                ref_zuc256_eia3(key, iv, v->iv_len, msg, v->bits, tag, v->tag_len);
                if (memcmp(tag, exp, v->tag_len) != 0)
                        fails += zv_fail("ZUC-256 MAC", v->tc,
                                         v->tag_len == 4   ? "4-byte tag"
                                         : v->tag_len == 8 ? "8-byte tag"
                                                           : "16-byte tag");
                n_by_tag[v->tag_len == 4 ? 0 : v->tag_len == 8 ? 1 : 2]++;

                if (v->iv_len == 23) {
                        zv_iv23_to_iv25(iv, iv25);
                        ref_zuc256_eia3(key, iv25, 25, msg, v->bits, tag, v->tag_len);
                        if (memcmp(tag, exp, v->tag_len) != 0)
                                fails += zv_fail("ZUC-256 MAC", v->tc, "23- vs 25-byte IV");
                        (*n_iv23)++;
                }
        }
        return fails;
}

/* bit i (MSB first) of a keystream given as 32-bit words */
static unsigned
zv_ks_bit(const uint32_t *ks, const uint64_t i)
{
        return (ks[i / 32] >> (31 - i % 32)) & 1u;
}

/* Literal, one-bit-at-a-time reading of the two MAC definitions; tag bit b is
 *   128-EIA3:   xor_{i: m_i = 1} z[i + b]  ^  z[LENGTH + b]  ^  z[32 (L - 1) + b]
 *   ZUC-256:    z[b]  ^  xor_{i: m_i = 1} z[t + i + b]  ^  z[t + l + b]
 * 'first' is z[b] (ZUC-256) or absent, 'last' is the final-word term (128-EIA3) or absent. */
static void
zv_naive_mac(const uint32_t *ks, const int has_first, const uint64_t base, const int has_last,
             const uint64_t last_pos, const uint8_t *msg, const uint64_t len_bits, uint8_t *tag,
             const size_t tag_len)
{
        memset(tag, 0, tag_len);
        for (uint64_t b = 0; b < tag_len * 8; b++) {
                unsigned v = has_first ? zv_ks_bit(ks, b) : 0;

                for (uint64_t i = 0; i < len_bits; i++)
                        if ((msg[i / 8] >> (7 - i % 8)) & 1)
                                v ^= zv_ks_bit(ks, base + i + b);
                v ^= zv_ks_bit(ks, base + len_bits + b);
                if (has_last)
                        v ^= zv_ks_bit(ks, last_pos + b);
                tag[b / 8] |= (uint8_t) (v << (7 - b % 8));
        }
}

/* No published ZUC-256 MAC vector has a bit length that is not a multiple of 8 (and only a few
 * 128-EIA3 ones do), so every bit length 0..300 is compared with the naive evaluation above, and
 * the bits/bytes after the end of the message are checked to be ignored. */
static int
zv_test_mac_bit_lengths(void)
{
        static const size_t tag_lens[3] = { 4, 8, 16 };
        int fails = 0;
        uint8_t key[32], iv[25], msg[64], junk[64];
        uint32_t ks[32];

        for (int i = 0; i < 32; i++)
                key[i] = (uint8_t) (0x3d + 7 * i);
        for (int i = 0; i < 25; i++)
                iv[i] = (uint8_t) ((0x91 + 11 * i) & (i < 17 ? 0xff : 0x3f));
        for (int i = 0; i < 64; i++)
                msg[i] = (uint8_t) (i * 37 + 1);

        for (uint64_t bits = 0; bits <= 300; bits++) {
                uint8_t tag[16], exp[16];

                /* everything after bit 'bits' inverted */
                memcpy(junk, msg, sizeof(junk));
                for (uint64_t i = bits; i < 8 * sizeof(junk); i++)
                        junk[i / 8] ^= (uint8_t) (0x80u >> (i % 8));

                /* 128-EIA3: L = ceil((LENGTH + 64) / 32) */
                ref_zuc128_keystream(key, iv, ks, 32);
                zv_naive_mac(ks, 0, 0, 1, 32 * ((bits + 64 + 31) / 32 - 1), msg, bits, exp, 4);
                ref_zuc128_eia3(key, iv, msg, bits, tag);
                if (memcmp(tag, exp, 4) != 0)
                        fails += zv_fail("128-EIA3 vs naive evaluation, bits", (unsigned) bits, "");
                ref_zuc128_eia3(key, iv, junk, bits, tag);
                if (memcmp(tag, exp, 4) != 0)
                        fails += zv_fail("128-EIA3 trailing bits, bits", (unsigned) bits, "");

                for (int t = 0; t < 3; t++) {
                        const size_t tl = tag_lens[t];

                        ref_zuc256_keystream(key, iv, 25, (unsigned) tl, ks, 32);
                        zv_naive_mac(ks, 1, tl * 8, 0, 0, msg, bits, exp, tl);
                        ref_zuc256_eia3(key, iv, 25, msg, bits, tag, tl);
                        if (memcmp(tag, exp, tl) != 0)
                                fails += zv_fail("ZUC-256 MAC vs naive evaluation, bits",
                                                 (unsigned) bits, "");
                        ref_zuc256_eia3(key, iv, 25, junk, bits, tag, tl);
                        if (memcmp(tag, exp, tl) != 0)
                                fails += zv_fail("ZUC-256 MAC trailing bits, bits",
                                                 (unsigned) bits, "");
                }
        }
        return fails;
}

int
ref_zuc_selftest(void)
{
        int fails = 0;
        int n_mac[3] = { 0, 0, 0 };
        int n_iv23_cipher = 0, n_iv23_mac = 0;

        if (!zv_sbox_is_permutation(ZUC_S0) || !zv_sbox_is_permutation(ZUC_S1))
                fails += zv_fail("S-box permutation check", 0, "");

        fails += zv_test_eea3_128();
        fails += zv_test_eia3_128();
        fails += zv_test_eea3_256(&n_iv23_cipher);
        fails += zv_test_eia3_256(n_mac, &n_iv23_mac);
        fails += zv_test_mac_bit_lengths();

        /* make sure the vector set really covers what it is meant to cover */
        if (n_mac[0] == 0 || n_mac[1] == 0 || n_mac[2] == 0 || n_iv23_cipher == 0 ||
            n_iv23_mac == 0)
                fails += zv_fail("vector coverage", 0, "");

        if (fails)
                fprintf(stderr, "ref_zuc_selftest: %d failure(s)\n", fails);
        return fails;
}
