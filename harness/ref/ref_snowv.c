/*
 * Reference model: SNOW-V stream cipher and SNOW-V-GCM AEAD mode.
 *
 * Written from: P. Ekdahl, T. Johansson, A. Maximov, J. Yang, "A new SNOW stream cipher called
 * SNOW-V", IACR ToSC 2019(3).  Independent of the code under /repo/lib.
 *
 * Conventions (all taken from the paper and confirmed with the paper's test vectors):
 *  - key = 32 bytes, IV = 16 bytes.  Key/IV bytes are loaded into the 16-bit LFSR cells little
 *    endian: cell i of a 128-bit group takes bytes 2i (low) and 2i+1 (high).
 *      (a15..a8) = key[0..15], (a7..a0) = iv[0..15], (b15..b8) = key[16..31],
 *      (b7..b0)  = 0, or the ASCII string "AlexEkd JingThom" in the AEAD variant.
 *  - a 128-bit word (R1,R2,R3,T1,T2,z) is handled as 16 bytes, byte 0 least significant; this is
 *    also the order in which keystream bytes are output and the AES state byte order
 *    (byte i -> row i%4, column i/4, as for the AESENC instruction).
 *  - SNOW-V-GCM: H = keystream block 0, endpad = keystream block 1, the message is XORed with
 *    keystream blocks 2.., tag = GHASH_H(AAD || pad || C || pad || [8*|AAD|]_64 || [8*|C|]_64)
 *    XOR endpad, GHASH with the bit order of NIST SP 800-38D.
 */
#include <stdio.h>
#include <string.h>

#include "ref.h"

/* ------------------------------------------------------------------------------------------ */
/* AES S-box (FIPS-197 figure 7); verified algebraically by the self-test */
static const uint8_t aes_sbox[256] = {
        0x63, 0x7c, 0x77, 0x7b, 0xf2, 0x6b, 0x6f, 0xc5, 0x30, 0x01, 0x67, 0x2b, 0xfe, 0xd7, 0xab, 0x76,
        0xca, 0x82, 0xc9, 0x7d, 0xfa, 0x59, 0x47, 0xf0, 0xad, 0xd4, 0xa2, 0xaf, 0x9c, 0xa4, 0x72, 0xc0,
        0xb7, 0xfd, 0x93, 0x26, 0x36, 0x3f, 0xf7, 0xcc, 0x34, 0xa5, 0xe5, 0xf1, 0x71, 0xd8, 0x31, 0x15,
        0x04, 0xc7, 0x23, 0xc3, 0x18, 0x96, 0x05, 0x9a, 0x07, 0x12, 0x80, 0xe2, 0xeb, 0x27, 0xb2, 0x75,
        0x09, 0x83, 0x2c, 0x1a, 0x1b, 0x6e, 0x5a, 0xa0, 0x52, 0x3b, 0xd6, 0xb3, 0x29, 0xe3, 0x2f, 0x84,
        0x53, 0xd1, 0x00, 0xed, 0x20, 0xfc, 0xb1, 0x5b, 0x6a, 0xcb, 0xbe, 0x39, 0x4a, 0x4c, 0x58, 0xcf,
        0xd0, 0xef, 0xaa, 0xfb, 0x43, 0x4d, 0x33, 0x85, 0x45, 0xf9, 0x02, 0x7f, 0x50, 0x3c, 0x9f, 0xa8,
        0x51, 0xa3, 0x40, 0x8f, 0x92, 0x9d, 0x38, 0xf5, 0xbc, 0xb6, 0xda, 0x21, 0x10, 0xff, 0xf3, 0xd2,
        0xcd, 0x0c, 0x13, 0xec, 0x5f, 0x97, 0x44, 0x17, 0xc4, 0xa7, 0x7e, 0x3d, 0x64, 0x5d, 0x19, 0x73,
        0x60, 0x81, 0x4f, 0xdc, 0x22, 0x2a, 0x90, 0x88, 0x46, 0xee, 0xb8, 0x14, 0xde, 0x5e, 0x0b, 0xdb,
        0xe0, 0x32, 0x3a, 0x0a, 0x49, 0x06, 0x24, 0x5c, 0xc2, 0xd3, 0xac, 0x62, 0x91, 0x95, 0xe4, 0x79,
        0xe7, 0xc8, 0x37, 0x6d, 0x8d, 0xd5, 0x4e, 0xa9, 0x6c, 0x56, 0xf4, 0xea, 0x65, 0x7a, 0xae, 0x08,
        0xba, 0x78, 0x25, 0x2e, 0x1c, 0xa6, 0xb4, 0xc6, 0xe8, 0xdd, 0x74, 0x1f, 0x4b, 0xbd, 0x8b, 0x8a,
        0x70, 0x3e, 0xb5, 0x66, 0x48, 0x03, 0xf6, 0x0e, 0x61, 0x35, 0x57, 0xb9, 0x86, 0xc1, 0x1d, 0x9e,
        0xe1, 0xf8, 0x98, 0x11, 0x69, 0xd9, 0x8e, 0x94, 0x9b, 0x1e, 0x87, 0xe9, 0xce, 0x55, 0x28, 0xdf,
        0x8c, 0xa1, 0x89, 0x0d, 0xbf, 0xe6, 0x42, 0x68, 0x41, 0x99, 0x2d, 0x0f, 0xb0, 0x54, 0xbb, 0x16
};

/* multiplication by x in GF(2^8) mod x^8+x^4+x^3+x+1 */
static uint8_t
gf8_xtime(uint8_t v)
{
        return (uint8_t) ((v << 1) ^ ((v & 0x80) ? 0x1b : 0x00));
}

/* one AES encryption round with an all-zero round key:
 * out = MixColumns(ShiftRows(SubBytes(in))) */
static void
aes_round_zero_key(const uint8_t in[16], uint8_t out[16])
{
        uint8_t t[16];

        /* SubBytes + ShiftRows: row r of the state is rotated left by r columns */
        for (int c = 0; c < 4; c++)
                for (int r = 0; r < 4; r++)
                        t[4 * c + r] = aes_sbox[in[4 * ((c + r) & 3) + r]];

        /* MixColumns: column (s0,s1,s2,s3) -> (2s0+3s1+s2+s3, s0+2s1+3s2+s3, ...) */
        for (int c = 0; c < 4; c++) {
                const uint8_t *s = &t[4 * c];

                for (int r = 0; r < 4; r++) {
                        const uint8_t s0 = s[r], s1 = s[(r + 1) & 3], s2 = s[(r + 2) & 3],
                                      s3 = s[(r + 3) & 3];

                        out[4 * c + r] = (uint8_t) (gf8_xtime(s0) ^ (gf8_xtime(s1) ^ s1) ^ s2 ^ s3);
                }
        }
}

/* ------------------------------------------------------------------------------------------ */
struct snowv {
        uint16_t a[16], b[16];            /* LFSR-A, LFSR-B; a[0] is the cell shifted out next */
        uint8_t r1[16], r2[16], r3[16];   /* FSM registers, byte 0 least significant */
};

static uint32_t
ld32le(const uint8_t *p)
{
        return (uint32_t) p[0] | ((uint32_t) p[1] << 8) | ((uint32_t) p[2] << 16) |
               ((uint32_t) p[3] << 24);
}

static void
st32le(uint8_t *p, uint32_t v)
{
        p[0] = (uint8_t) v;
        p[1] = (uint8_t) (v >> 8);
        p[2] = (uint8_t) (v >> 16);
        p[3] = (uint8_t) (v >> 24);
}

/* out = x [+]32 y : four parallel additions modulo 2^32 */
static void
add32x4(const uint8_t x[16], const uint8_t y[16], uint8_t out[16])
{
        for (int i = 0; i < 4; i++)
                st32le(&out[4 * i], ld32le(&x[4 * i]) + ld32le(&y[4 * i]));
}

/* multiply a field element of F_2^16 = F_2[x]/g(x) by x; 'poly' = g(x) without the x^16 term */
static uint16_t
mul_x16(uint16_t v, uint16_t poly)
{
        return (uint16_t) ((v << 1) ^ ((v & 0x8000) ? poly : 0));
}

/* multiply by x^-1; 'poly_inv' = (g(x) + 1) / x, i.e. x^-1 expressed in the polynomial basis */
static uint16_t
div_x16(uint16_t v, uint16_t poly_inv)
{
        return (uint16_t) ((v >> 1) ^ ((v & 1) ? poly_inv : 0));
}

/* g_A(x) = x^16 + x^15 + x^12 + x^11 + x^8 + x^3 + x^2 + x + 1 */
#define SNOWV_GA     0x990f
#define SNOWV_GA_INV 0xcc87 /* (g_A(x) + 1) / x */
/* g_B(x) = x^16 + x^15 + x^14 + x^11 + x^8 + x^6 + x^5 + x + 1 */
#define SNOWV_GB     0xc963
#define SNOWV_GB_INV 0xe4b1

/* one LFSR step (both registers):
 *   a(t+16) = b(t) + alpha a(t) + a(t+1) + alpha^-1 a(t+8)
 *   b(t+16) = a(t) + beta  b(t) + b(t+3) + beta^-1  b(t+8) */
static void
lfsr_step(struct snowv *s)
{
        const uint16_t na = (uint16_t) (s->b[0] ^ mul_x16(s->a[0], SNOWV_GA) ^ s->a[1] ^
                                        div_x16(s->a[8], SNOWV_GA_INV));
        const uint16_t nb = (uint16_t) (s->a[0] ^ mul_x16(s->b[0], SNOWV_GB) ^ s->b[3] ^
                                        div_x16(s->b[8], SNOWV_GB_INV));

        memmove(&s->a[0], &s->a[1], 15 * sizeof(s->a[0]));
        memmove(&s->b[0], &s->b[1], 15 * sizeof(s->b[0]));
        s->a[15] = na;
        s->b[15] = nb;
}

/* serialise 8 consecutive LFSR cells as a 128-bit word (cell 0 least significant) */
static void
tap128(const uint16_t *cells, uint8_t out[16])
{
        for (int i = 0; i < 8; i++) {
                out[2 * i] = (uint8_t) (cells[i] & 0xff);
                out[2 * i + 1] = (uint8_t) (cells[i] >> 8);
        }
}

/* produce z(t), then update the FSM and clock the LFSRs 8 times */
static void
snowv_clock(struct snowv *s, uint8_t z[16])
{
        static const uint8_t sigma[16] = { 0, 4, 8, 12, 1, 5, 9, 13, 2, 6, 10, 14, 3, 7, 11, 15 };
        uint8_t t1[16], t2[16], tmp[16], sum[16], new_r2[16], new_r3[16];

        tap128(&s->b[8], t1); /* T1 = (b15..b8) */
        tap128(&s->a[0], t2); /* T2 = (a7..a0) */

        /* z = (R1 [+] T1) xor R2 */
        add32x4(s->r1, t1, tmp);
        for (int i = 0; i < 16; i++)
                z[i] = tmp[i] ^ s->r2[i];

        /* R1' = sigma(R2 [+] (R3 xor T2)), R2' = AES_R(R1), R3' = AES_R(R2) */
        for (int i = 0; i < 16; i++)
                tmp[i] = s->r3[i] ^ t2[i];
        add32x4(s->r2, tmp, sum);
        aes_round_zero_key(s->r1, new_r2);
        aes_round_zero_key(s->r2, new_r3);
        for (int i = 0; i < 16; i++)
                s->r1[i] = sum[sigma[i]];
        memcpy(s->r2, new_r2, 16);
        memcpy(s->r3, new_r3, 16);

        for (int i = 0; i < 8; i++)
                lfsr_step(s);
}

static void
snowv_init(struct snowv *s, const uint8_t key[32], const uint8_t iv[16], int aead_mode)
{
        static const char aead_const[] = "AlexEkd JingThom"; /* (b7..b0) in the AEAD variant */

        for (int i = 0; i < 8; i++) {
                s->a[i] = (uint16_t) (iv[2 * i] | (iv[2 * i + 1] << 8));
                s->a[8 + i] = (uint16_t) (key[2 * i] | (key[2 * i + 1] << 8));
                s->b[i] = 0;
                if (aead_mode)
                        s->b[i] = (uint16_t) ((uint8_t) aead_const[2 * i] |
                                              ((uint8_t) aead_const[2 * i + 1] << 8));
                s->b[8 + i] = (uint16_t) (key[16 + 2 * i] | (key[16 + 2 * i + 1] << 8));
        }
        memset(s->r1, 0, 16);
        memset(s->r2, 0, 16);
        memset(s->r3, 0, 16);

        for (int t = 1; t <= 16; t++) {
                uint8_t z[16];

                snowv_clock(s, z);
                /* (a15..a8) ^= z */
                for (int i = 0; i < 8; i++)
                        s->a[8 + i] ^= (uint16_t) (z[2 * i] | (z[2 * i + 1] << 8));
                if (t == 15)
                        for (int i = 0; i < 16; i++)
                                s->r1[i] ^= key[i];
                if (t == 16)
                        for (int i = 0; i < 16; i++)
                                s->r1[i] ^= key[16 + i];
        }
}

/* out = in XOR keystream (in == NULL: out = keystream); in may alias out */
static void
snowv_xor(struct snowv *s, const uint8_t *in, uint8_t *out, size_t len)
{
        size_t off = 0;

        while (off < len) {
                uint8_t z[16];
                const size_t n = (len - off < 16) ? len - off : 16;

                snowv_clock(s, z);
                for (size_t i = 0; i < n; i++)
                        out[off + i] = (uint8_t) ((in != NULL ? in[off + i] : 0) ^ z[i]);
                off += n;
        }
}

void
ref_snowv_keystream(const uint8_t key[32], const uint8_t iv[16], int aead_mode, uint8_t *ks,
                    size_t nbytes)
{
        struct snowv s;

        snowv_init(&s, key, iv, aead_mode);
        snowv_xor(&s, NULL, ks, nbytes);
}

void
ref_snowv(const uint8_t key[32], const uint8_t iv[16], const uint8_t *in, uint8_t *out, size_t len)
{
        struct snowv s;

        snowv_init(&s, key, iv, 0);
        snowv_xor(&s, in, out, len);
}

/* ------------------------------------------------------------------------------------------ */
/* GHASH (NIST SP 800-38D): blocks are bit strings, bit 0 = most significant bit of byte 0 */
struct gf128 {
        uint64_t hi, lo; /* hi = bytes 0..7 big-endian, lo = bytes 8..15 big-endian */
};

static struct gf128
gf128_load(const uint8_t b[16])
{
        struct gf128 v = { 0, 0 };

        for (int i = 0; i < 8; i++) {
                v.hi = (v.hi << 8) | b[i];
                v.lo = (v.lo << 8) | b[8 + i];
        }
        return v;
}

static void
gf128_store(struct gf128 v, uint8_t b[16])
{
        for (int i = 0; i < 8; i++) {
                b[i] = (uint8_t) (v.hi >> (56 - 8 * i));
                b[8 + i] = (uint8_t) (v.lo >> (56 - 8 * i));
        }
}

/* GHASH key H expanded to the 128 multiples V_i = H * x^i that SP 800-38D algorithm 1 (X * Y)
 * steps through: V_0 = H, V_(i+1) = V_i >> 1, XOR R if the bit shifted out was set */
struct ghash_key {
        struct gf128 v[128];
};

static void
ghash_key_expand(struct ghash_key *k, const uint8_t h[16])
{
        struct gf128 v = gf128_load(h);

        for (int i = 0; i < 128; i++) {
                const uint64_t lsb = v.lo & 1;

                k->v[i] = v;
                v.lo = (v.lo >> 1) | (v.hi << 63);
                v.hi >>= 1;
                if (lsb)
                        v.hi ^= 0xe100000000000000ULL; /* R = 11100001 || 0^120 */
        }
}

/* X * H: Z = XOR of V_i over the set bits x_i of X (bit 0 = leftmost bit of the block) */
static struct gf128
ghash_mul_h(struct gf128 x, const struct ghash_key *k)
{
        struct gf128 z = { 0, 0 };

        for (int i = 0; i < 128; i++) {
                const uint64_t xi = (i < 64) ? (x.hi >> (63 - i)) & 1 : (x.lo >> (127 - i)) & 1;
                const uint64_t mask = 0 - xi;

                z.hi ^= k->v[i].hi & mask;
                z.lo ^= k->v[i].lo & mask;
        }
        return z;
}

/* absorb msg, zero padded to a whole number of blocks */
static struct gf128
ghash_absorb(struct gf128 y, const struct ghash_key *k, const uint8_t *msg, size_t len)
{
        size_t off = 0;

        while (off < len) {
                uint8_t blk[16] = { 0 };
                const size_t n = (len - off < 16) ? len - off : 16;
                struct gf128 x;

                memcpy(blk, msg + off, n);
                x = gf128_load(blk);
                y.hi ^= x.hi;
                y.lo ^= x.lo;
                y = ghash_mul_h(y, k);
                off += n;
        }
        return y;
}

void
ref_snowv_aead(int decrypt, const uint8_t key[32], const uint8_t iv[16], const uint8_t *aad,
               size_t aad_len, const uint8_t *in, uint8_t *out, size_t len, uint8_t tag[16])
{
        struct snowv s;
        uint8_t hkey[16], endpad[16], sbytes[16];
        struct ghash_key h;
        struct gf128 y = { 0, 0 };

        snowv_init(&s, key, iv, 1);
        snowv_clock(&s, hkey);   /* z(0): GHASH key */
        snowv_clock(&s, endpad); /* z(1): final tag mask */
        ghash_key_expand(&h, hkey);

        y = ghash_absorb(y, &h, aad, aad_len);
        if (decrypt) {
                /* hash the ciphertext before it is (possibly in place) decrypted */
                y = ghash_absorb(y, &h, in, len);
                snowv_xor(&s, in, out, len);
        } else {
                snowv_xor(&s, in, out, len);
                y = ghash_absorb(y, &h, out, len);
        }
        /* final block: [len(A)]_64 || [len(C)]_64, lengths in bits, big endian */
        y.hi ^= (uint64_t) aad_len * 8;
        y.lo ^= (uint64_t) len * 8;
        y = ghash_mul_h(y, &h);

        gf128_store(y, sbytes);
        for (int i = 0; i < 16; i++)
                tag[i] = sbytes[i] ^ endpad[i];
}

/* ------------------------------------------------------------------------------------------ */
/* self-test */

#define ST_MAX 160 /* largest embedded field in bytes */

static size_t
unhex(const char *hex, uint8_t *out, size_t max)
{
        size_t n = 0;

        while (hex[0] != '\0' && hex[1] != '\0' && n < max) {
                unsigned v = 0;

                for (int k = 0; k < 2; k++) {
                        const char c = hex[k];

                        v <<= 4;
                        if (c >= '0' && c <= '9')
                                v |= (unsigned) (c - '0');
                        else if (c >= 'a' && c <= 'f')
                                v |= (unsigned) (c - 'a' + 10);
                        else if (c >= 'A' && c <= 'F')
                                v |= (unsigned) (c - 'A' + 10);
                }
                out[n++] = (uint8_t) v;
                hex += 2;
        }
        return n;
}

static void
dump(const char *what, const uint8_t *p, size_t n)
{
        fprintf(stderr, "    %s:", what);
        for (size_t i = 0; i < n; i++)
                fprintf(stderr, "%s%02x", (i % 32 == 0 && n > 32) ? "\n      " : "", p[i]);
        fprintf(stderr, "\n");
}

static int
check(const char *name, unsigned id, const char *what, const uint8_t *got, const uint8_t *exp,
      size_t n)
{
        if (n == 0 || memcmp(got, exp, n) == 0)
                return 0;
        fprintf(stderr, "ref_snowv_selftest: %s vector %u: %s mismatch\n", name, id, what);
        dump("expected", exp, n);
        dump("got     ", got, n);
        return 1;
}

/* SNOW-V keystream / cipher vectors: test vectors 1-3 of the paper (128 keystream bytes each) and
 * short-message vectors, as collected in /repo/test/kat-app/snow_v_test.json.c */
struct snowv_vec {
        unsigned id;
        const char *key, *iv, *pt, *ct;
};

static const struct snowv_vec snowv_vecs[] = {
        { 1, /* snow_v_test.json.c tcId 1, 128 bytes */
          "0000000000000000000000000000000000000000000000000000000000000000",
          "00000000000000000000000000000000",
          "0000000000000000000000000000000000000000000000000000000000000000"
          "0000000000000000000000000000000000000000000000000000000000000000"
          "0000000000000000000000000000000000000000000000000000000000000000"
          "0000000000000000000000000000000000000000000000000000000000000000",
          "69ca6daf9ae3b72db134a85a837e419dec08aad39d7b0f009b60b28c534300ed"
          "84abf594fb08a7f1f3a2df18e617683b481fa378079dcf04db53b5d629a9eb9d"
          "031c159dccd0a50c4d5dbf5115d87039c0d03ca1370c19400347a0b4d2e9dbe5"
          "cbca608214a26582cf680916b3451321954fdf3084af02f6a8e2481de6bf8279" },
        { 2, /* snow_v_test.json.c tcId 2, 128 bytes */
          "ffffffffffffffffffffffffffffffffffffffffffffffffffffffffffffffff",
          "ffffffffffffffffffffffffffffffff",
          "0000000000000000000000000000000000000000000000000000000000000000"
          "0000000000000000000000000000000000000000000000000000000000000000"
          "0000000000000000000000000000000000000000000000000000000000000000"
          "0000000000000000000000000000000000000000000000000000000000000000",
          "307609fb101012544bc175e317fb25ff330d0de25af6aad10505b89b1e09a8ec"
          "dd4672ccbb98c7f2c4e24af5272836c87cc73a8176b39ce9303b3e764e9be3e7"
          "48f7651a7c7e813fd52490231e56f7c144e438e77711a6b0bafb60450c62d7d9"
          "b9241d1244fcb49da1e52b8013decdd48604fffc62676e703b3ab849cba6ea09" },
        { 3, /* snow_v_test.json.c tcId 3, 128 bytes */
          "505152535455565758595a5b5c5d5e5f0a1a2a3a4a5a6a7a8a9aaabacadaeafa",
          "0123456789abcdeffedcba9876543210",
          "0000000000000000000000000000000000000000000000000000000000000000"
          "0000000000000000000000000000000000000000000000000000000000000000"
          "0000000000000000000000000000000000000000000000000000000000000000"
          "0000000000000000000000000000000000000000000000000000000000000000",
          "aa81eafb8b8616ce3e5ce2222461c50a6ab4487756de4bd31c904f3d978afe56"
          "334f10dddf2b9531769a71050be4385fc2b6192c7a857be8b4fc28b709f08f11"
          "f20649e2eef24980f86c4c113641fed2f3f6fa2b91951206b801db15466517a6"
          "330adda6b35b265efd722e8677b48bfc15b44118de52d073b0ad0fe7594d6291" },
        { 11, /* snow_v_test.json.c tcId 11, 1 bytes */
          "abb2cdc69bb454110e827441213ddc8770e93ea141e1fc673e017e97eadc6b96",
          "8f385c2aecb03bfb32af3c54ec18db5c",
          "89",
          "12" },
        { 18, /* snow_v_test.json.c tcId 18, 2 bytes */
          "021afe43fbfaaa3afb29d1e6053c7c9475d8be6189f95cbba8990f95b1ebf1b3",
          "05eff700e9a13ae5ca0bcbd0484764bd",
          "d4b6",
          "46de" },
        { 25, /* snow_v_test.json.c tcId 25, 3 bytes */
          "1f231ea81c7b64c514735ac55e4b79633b706424119e09dcaad4acf21b10af3b",
          "33cde3504847155cbb6f2219ba9b7df5",
          "8367d8",
          "d3158d" },
        { 32, /* snow_v_test.json.c tcId 32, 4 bytes */
          "0be11a1c7f23f829f8a41b13b5ca4ee8983238e0794d3d34bc5f4e77facb6c05",
          "ac86212baa1a55a2be70b5733b045cd3",
          "7709d1a5",
          "164c52a5" },
        { 39, /* snow_v_test.json.c tcId 39, 5 bytes */
          "3694b3afe2f0e49e4f321549fd824ea90870d4b28a2954489a0abcd50e18a844",
          "ac5bf38e4cd72d9b0942e506c433afcd",
          "cd1668baac",
          "d461947087" },
        { 46, /* snow_v_test.json.c tcId 46, 6 bytes */
          "a3847f2dadd47647de321cec4ac430f62023856cfbb20704f4ec0bb920ba86c3",
          "3e05f1ecd96733b79950a3e314d3d934",
          "08cf61c9c380",
          "cd4a379bc48b" },
        { 53, /* snow_v_test.json.c tcId 53, 7 bytes */
          "f75ea0f210a8f6059401beb4bc4478fa4969e623d01ada696a7e4c7e5125b348",
          "84533a94fb319990325744ee9bbce9e5",
          "0287617c13629e",
          "bfc89e4ccf933e" },
        { 60, /* snow_v_test.json.c tcId 60, 8 bytes */
          "25cf08f5e9e25e5360aad2b2d085fa54d835e8d466826498d9a8877565705a8a",
          "3f62802944de7ca5894e5759d351adac",
          "014df000108b67cf",
          "346caac1a338ad4e" },
        { 67, /* snow_v_test.json.c tcId 67, 9 bytes */
          "869580ec17e485f18c0c66f17cc07cbb22fce466da610b63af62bc83b4692f3a",
          "ffaf271693ac071fb86d11342d8def4f",
          "0dd8fd8b16c2a1a4e3",
          "cd39b49cdf0c8aae75" },
};

/* SNOW-V-GCM vectors of the paper, as collected in /repo/test/kat-app/snow_v_aead.json.c */
struct snowv_aead_vec {
        unsigned id;
        const char *key, *iv, *aad, *pt, *ct, *tag;
};

static const struct snowv_aead_vec snowv_aead_vecs[] = {
        { 1, /* snow_v_aead.json.c tcId 1: aad 0, msg 0 bytes */
          "0000000000000000000000000000000000000000000000000000000000000000",
          "00000000000000000000000000000000",
          "",
          "",
          "",
          "029a624cdaa4d46cb9a0ef4046956c9f" },
        { 2, /* snow_v_aead.json.c tcId 2: aad 0, msg 0 bytes */
          "505152535455565758595a5b5c5d5e5f0a1a2a3a4a5a6a7a8a9aaabacadaeafa",
          "0123456789abcdeffedcba9876543210",
          "",
          "",
          "",
          "fc7cac574c49feae6150315b9685424c" },
        { 3, /* snow_v_aead.json.c tcId 3: aad 16, msg 0 bytes */
          "0000000000000000000000000000000000000000000000000000000000000000",
          "00000000000000000000000000000000",
          "30313233343536373839616263646566",
          "",
          "",
          "5a5aa5fbd635ef1ae129614203e10384" },
        { 4, /* snow_v_aead.json.c tcId 4: aad 16, msg 0 bytes */
          "505152535455565758595a5b5c5d5e5f0a1a2a3a4a5a6a7a8a9aaabacadaeafa",
          "0123456789abcdeffedcba9876543210",
          "30313233343536373839616263646566",
          "",
          "",
          "250ec8d77a022c087adf08b65adcbb1a" },
        { 5, /* snow_v_aead.json.c tcId 5: aad 0, msg 10 bytes */
          "505152535455565758595a5b5c5d5e5f0a1a2a3a4a5a6a7a8a9aaabacadaeafa",
          "0123456789abcdeffedcba9876543210",
          "",
          "30313233343536373839",
          "dd7e01b2b424a2ef8250",
          "ddfe4e31e7bfe6902331ec5ce319d90d" },
        { 6, /* snow_v_aead.json.c tcId 6: aad 15, msg 33 bytes */
          "505152535455565758595a5b5c5d5e5f0a1a2a3a4a5a6a7a8a9aaabacadaeafa",
          "0123456789abcdeffedcba9876543210",
          "41414420746573742076616c756521",
          "3031323334353637383961626364656620536e6f77562d41454144206d6f6465"
          "21",
          "dd7e01b2b424a2ef82502707e87a32c152b0d01818fd7f12243eb5a15659e91b"
          "4c",
          "907ea6a5b73a51de747c3e9ad9ee029b" },
};

/* recompute the AES S-box from its definition: multiplicative inverse in GF(2^8) followed by the
 * affine map b_i = a_i + a_(i+4) + a_(i+5) + a_(i+6) + a_(i+7) + c_i, c = 0x63 */
static int
check_aes_sbox(void)
{
        int fails = 0;

        for (unsigned x = 0; x < 256; x++) {
                uint8_t inv = 0, r;

                for (unsigned y = 1; y < 256 && x != 0; y++) {
                        /* product x*y by shift-and-add */
                        uint8_t p = 0, a = (uint8_t) x, b = (uint8_t) y;

                        while (b) {
                                if (b & 1)
                                        p ^= a;
                                a = gf8_xtime(a);
                                b >>= 1;
                        }
                        if (p == 1) {
                                inv = (uint8_t) y;
                                break;
                        }
                }
#define ROTL8(v, n) ((uint8_t) (((v) << (n)) | ((v) >> (8 - (n)))))
                r = (uint8_t) (inv ^ ROTL8(inv, 1) ^ ROTL8(inv, 2) ^ ROTL8(inv, 3) ^
                               ROTL8(inv, 4) ^ 0x63);
#undef ROTL8
                if (r != aes_sbox[x]) {
                        fprintf(stderr, "ref_snowv_selftest: AES S-box[0x%02x] = 0x%02x, "
                                        "definition gives 0x%02x\n", x, aes_sbox[x], r);
                        fails++;
                }
        }
        return fails;
}

int
ref_snowv_selftest(void)
{
        int fails = 0;
        uint8_t key[32], iv[16], aad[ST_MAX], pt[ST_MAX], ct[ST_MAX], tag[16];
        uint8_t out[ST_MAX + 1], ks[ST_MAX + 1], otag[16];

        fails += check_aes_sbox();

        for (size_t i = 0; i < sizeof(snowv_vecs) / sizeof(snowv_vecs[0]); i++) {
                const struct snowv_vec *v = &snowv_vecs[i];
                const size_t len = unhex(v->pt, pt, sizeof(pt));

                if (unhex(v->key, key, 32) != 32 || unhex(v->iv, iv, 16) != 16 ||
                    unhex(v->ct, ct, sizeof(ct)) != len) {
                        fprintf(stderr, "ref_snowv_selftest: bad embedded vector %u\n", v->id);
                        fails++;
                        continue;
                }
                /* encrypt */
                out[len] = 0xa5;
                ref_snowv(key, iv, pt, out, len);
                fails += check("SNOW-V", v->id, "ciphertext", out, ct, len);
                if (out[len] != 0xa5) {
                        fprintf(stderr, "ref_snowv_selftest: vector %u: overrun\n", v->id);
                        fails++;
                }
                /* decrypt, in place */
                memcpy(out, ct, len);
                ref_snowv(key, iv, out, out, len);
                fails += check("SNOW-V", v->id, "decryption", out, pt, len);
                /* raw keystream interface */
                ks[len] = 0x5a;
                ref_snowv_keystream(key, iv, 0, ks, len);
                for (size_t k = 0; k < len; k++)
                        ks[k] ^= pt[k];
                fails += check("SNOW-V", v->id, "keystream", ks, ct, len);
                if (ks[len] != 0x5a) {
                        fprintf(stderr, "ref_snowv_selftest: vector %u: ks overrun\n", v->id);
                        fails++;
                }
        }

        for (size_t i = 0; i < sizeof(snowv_aead_vecs) / sizeof(snowv_aead_vecs[0]); i++) {
                const struct snowv_aead_vec *v = &snowv_aead_vecs[i];
                const size_t aad_len = unhex(v->aad, aad, sizeof(aad));
                const size_t len = unhex(v->pt, pt, sizeof(pt));

                if (unhex(v->key, key, 32) != 32 || unhex(v->iv, iv, 16) != 16 ||
                    unhex(v->ct, ct, sizeof(ct)) != len || unhex(v->tag, tag, 16) != 16) {
                        fprintf(stderr, "ref_snowv_selftest: bad embedded AEAD vector %u\n", v->id);
                        fails++;
                        continue;
                }
                /* encrypt */
                memset(otag, 0, sizeof(otag));
                ref_snowv_aead(0, key, iv, aad, aad_len, pt, out, len, otag);
                fails += check("SNOW-V-GCM", v->id, "ciphertext", out, ct, len);
                fails += check("SNOW-V-GCM", v->id, "tag (encrypt)", otag, tag, 16);
                /* decrypt */
                memset(otag, 0, sizeof(otag));
                ref_snowv_aead(1, key, iv, aad, aad_len, ct, out, len, otag);
                fails += check("SNOW-V-GCM", v->id, "plaintext", out, pt, len);
                fails += check("SNOW-V-GCM", v->id, "tag (decrypt)", otag, tag, 16);
                /* decrypt in place */
                memset(otag, 0, sizeof(otag));
                memcpy(out, ct, len);
                ref_snowv_aead(1, key, iv, aad, aad_len, out, out, len, otag);
                fails += check("SNOW-V-GCM", v->id, "plaintext (in place)", out, pt, len);
                fails += check("SNOW-V-GCM", v->id, "tag (in place)", otag, tag, 16);
                /* the AEAD keystream is the aead_mode keystream: H, endpad, then the pad */
                ref_snowv_keystream(key, iv, 1, ks, 32 + len);
                for (size_t k = 0; k < len; k++)
                        ks[32 + k] ^= pt[k];
                fails += check("SNOW-V-GCM", v->id, "aead_mode keystream", ks + 32, ct, len);
        }

        /* the two initialisation variants must differ */
        memset(key, 0, sizeof(key));
        memset(iv, 0, sizeof(iv));
        ref_snowv_keystream(key, iv, 0, out, 16);
        ref_snowv_keystream(key, iv, 1, ks, 16);
        if (memcmp(out, ks, 16) == 0) {
                fprintf(stderr, "ref_snowv_selftest: aead_mode has no effect\n");
                fails++;
        }

        return fails;
}
