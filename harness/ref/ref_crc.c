/* Bitwise CRC model (Rocksoft parameters). Parameters of the twelve CRCs are taken from the
 * standards they come from (IEEE 802.3, RFC 3309/4960, IEEE 802.16, 3GPP TS 36.212,
 * ITU-T X.25, 3GPP TS 25.435/25.427/25.415, IEEE 802.16 HCS). */
#include "ref.h"
#include <stdio.h>
#include <string.h>

static uint32_t
reflect(uint32_t v, unsigned w)
{
        uint32_t r = 0;
        for (unsigned i = 0; i < w; i++)
                if (v & (1u << i))
                        r |= 1u << (w - 1 - i);
        return r;
}
uint32_t
ref_crc(const struct ref_crc_params *p, const uint8_t *msg, size_t len)
{
        const unsigned w = p->width;
        const uint32_t top = 1u << (w - 1), mask = (w == 32) ? 0xffffffffu : ((1u << w) - 1);
        uint32_t crc = p->init & mask;
        for (size_t i = 0; i < len; i++) {
                uint8_t b = msg[i];
                if (p->refin)
                        b = (uint8_t) reflect(b, 8);
                for (int k = 7; k >= 0; k--) {
                        uint32_t bit = (b >> k) & 1;
                        uint32_t msb = (crc & top) ? 1 : 0;
                        crc = (crc << 1) & mask;
                        if (msb ^ bit)
                                crc ^= p->poly;
                }
        }
        if (p->refout)
                crc = reflect(crc, w);
        return (crc ^ p->xorout) & mask;
}
int
ref_crc_selftest(void)
{
        static const uint8_t m[] = "123456789";
        static const struct {
                struct ref_crc_params p;
                uint32_t check;
        } t[] = {
                { { "CRC-32/ISO-HDLC", 32, 0x04c11db7, 0xffffffff, 1, 1, 0xffffffff }, 0xcbf43926 },
                { { "CRC-32/ISCSI", 32, 0x1edc6f41, 0xffffffff, 1, 1, 0xffffffff }, 0xe3069283 },
                { { "CRC-32/BZIP2", 32, 0x04c11db7, 0xffffffff, 0, 0, 0xffffffff }, 0xfc891918 },
                { { "CRC-24/LTE-A", 24, 0x864cfb, 0, 0, 0, 0 }, 0xcde703 },
                { { "CRC-24/LTE-B", 24, 0x800063, 0, 0, 0, 0 }, 0x23ef52 },
                { { "CRC-16/IBM-SDLC", 16, 0x1021, 0xffff, 1, 1, 0xffff }, 0x906e },
                { { "CRC-16/UMTS", 16, 0x8005, 0, 0, 0, 0 }, 0xfee8 },
                { { "CRC-11/UMTS", 11, 0x307, 0, 0, 0, 0 }, 0x061 },
                { { "CRC-10/ATM", 10, 0x233, 0, 0, 0, 0 }, 0x199 },
                { { "CRC-8/SMBUS", 8, 0x07, 0, 0, 0, 0 }, 0xf4 },
                { { "CRC-7/UMTS", 7, 0x45, 0, 0, 0, 0 }, 0x61 },
                { { "CRC-6/G-704", 6, 0x03, 0, 1, 1, 0 }, 0x06 },
        };
        int bad = 0;
        for (unsigned i = 0; i < sizeof t / sizeof t[0]; i++) {
                uint32_t c = ref_crc(&t[i].p, m, 9);
                if (c != t[i].check) {
                        fprintf(stderr, "ref_crc: %s check value %#x expected %#x\n", t[i].p.name, c,
                                t[i].check);
                        bad++;
                }
        }
        return bad;
}
