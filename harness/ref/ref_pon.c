/*
 * Independent reference model of the intel-ipsec-mb PON mode (AES-128-CTR + Ethernet FCS + BIP +
 * XGEM HEC). See ref_pon.h for the semantics. Everything is computed bit by bit / byte by byte
 * from the definitions; no table or constant here is taken from the library implementation.
 */
#include <string.h>
#include "ref_pon.h"

/* ------------------------------------------------------------------ byte order helpers */
static uint64_t
ld_be64(const uint8_t *p)
{
        uint64_t v = 0;

        for (int i = 0; i < 8; i++)
                v = (v << 8) | p[i];
        return v;
}

static void
st_be64(uint8_t *p, uint64_t v)
{
        for (int i = 7; i >= 0; i--) {
                p[i] = (uint8_t) v;
                v >>= 8;
        }
}

static uint32_t
swap32(uint32_t v)
{
        return (v >> 24) | ((v >> 8) & 0x0000ff00u) | ((v << 8) & 0x00ff0000u) | (v << 24);
}

static uint64_t
swap64(uint64_t v)
{
        return ((uint64_t) swap32((uint32_t) v) << 32) | swap32((uint32_t) (v >> 32));
}

/* ------------------------------------------------------------------ HEC (G.987.3 9.1.2) */
/* generator x^12 + x^10 + x^8 + x^5 + x^4 + x^3 + 1, the x^12 term is implicit */
#define HEC_GEN_LOW 0x539u /* x^10 + x^8 + x^5 + x^4 + x^3 + 1 */

/* remainder of data(x) * x^12 divided by g(x); data has nbits bits, MSB first */
static uint32_t
hec_bch12(uint64_t data, int nbits)
{
        uint32_t r = 0;

        for (int i = nbits - 1; i >= 0; i--) {
                const uint32_t fb = ((r >> 11) ^ (uint32_t) (data >> i)) & 1u;

                r = (r << 1) & 0xfffu;
                if (fb)
                        r ^= HEC_GEN_LOW;
        }
        return r;
}

static uint32_t
parity64(uint64_t v)
{
        uint32_t p = 0;

        while (v) {
                p ^= (uint32_t) (v & 1u);
                v >>= 1;
        }
        return p;
}

uint64_t
ref_pon_hec64_be(uint64_t hdr)
{
        const uint64_t data = hdr >> 13; /* 51 protected bits */
        uint64_t w = (data << 13) | ((uint64_t) hec_bch12(data, 51) << 1);

        return w | parity64(w); /* last bit makes the weight of the 64 bits even */
}

uint32_t
ref_pon_hec32_be(uint32_t hdr)
{
        const uint32_t data = hdr >> 13; /* 19 protected bits */
        uint32_t w = (data << 13) | (hec_bch12(data, 19) << 1);

        return w | parity64(w);
}

uint32_t
ref_pon_hec32(uint32_t hdr_without_hec)
{
        return swap32(ref_pon_hec32_be(swap32(hdr_without_hec)));
}

uint64_t
ref_pon_hec64(uint64_t hdr_without_hec)
{
        return swap64(ref_pon_hec64_be(swap64(hdr_without_hec)));
}

/* ------------------------------------------------------------------ Ethernet FCS */
uint32_t
ref_pon_crc32(const uint8_t *msg, size_t len)
{
        uint32_t c = 0xffffffffu;

        for (size_t i = 0; i < len; i++) {
                c ^= msg[i];
                for (int b = 0; b < 8; b++)
                        c = (c >> 1) ^ ((c & 1u) ? 0xedb88320u : 0u);
        }
        return ~c;
}

/* ------------------------------------------------------------------ BIP */
/* XOR of the 32-bit words of msg; returned so that storing it little-endian gives
 * out[i] = XOR of msg[4k + i] */
static uint32_t
bip32(const uint8_t *msg, size_t len)
{
        uint8_t x[4] = { 0, 0, 0, 0 };

        for (size_t i = 0; i < len; i++)
                x[i & 3] ^= msg[i];
        return (uint32_t) x[0] | ((uint32_t) x[1] << 8) | ((uint32_t) x[2] << 16) |
               ((uint32_t) x[3] << 24);
}

/* ------------------------------------------------------------------ AES-CTR, 128-bit BE counter */
static void
ctr128(ref_pon_blk_fn enc, const void *ctx, const uint8_t iv[16], uint8_t *buf, size_t len)
{
        uint8_t cb[16], ks[16];

        memcpy(cb, iv, 16);
        for (size_t off = 0; off < len; off += 16) {
                const size_t n = (len - off < 16) ? len - off : 16;

                enc(ctx, cb, ks);
                for (size_t i = 0; i < n; i++)
                        buf[off + i] ^= ks[i];
                for (int i = 15; i >= 0; i--) /* +1 mod 2^128, big-endian */
                        if (++cb[i] != 0)
                                break;
        }
}

/* ------------------------------------------------------------------ the PON job */
int
ref_pon(ref_pon_blk_fn enc, const void *ctx, int decrypt, const uint8_t iv[16], uint8_t *frame,
        size_t frame_len, size_t cipher_len, uint32_t *bip, uint32_t *crc)
{
        if (frame == NULL || frame_len < 8 || (frame_len & 3) != 0 || (cipher_len & 3) != 0 ||
            cipher_len > frame_len - 8)
                return -1;
        if (cipher_len != 0 && (enc == NULL || iv == NULL))
                return -1;

        uint8_t *payload = frame + 8;
        const size_t pli = (size_t) (ld_be64(frame) >> 50); /* HEC update never changes PLI */
        const int have_crc = pli > 4;
        uint32_t b, c = 0;

        if (have_crc && pli > (cipher_len != 0 ? cipher_len : frame_len - 8))
                return -1;

        if (!decrypt) {
                st_be64(frame, ref_pon_hec64_be(ld_be64(frame)));
                if (have_crc) {
                        c = ref_pon_crc32(payload, pli - 4);
                        payload[pli - 4] = (uint8_t) c;
                        payload[pli - 3] = (uint8_t) (c >> 8);
                        payload[pli - 2] = (uint8_t) (c >> 16);
                        payload[pli - 1] = (uint8_t) (c >> 24);
                }
                if (cipher_len != 0)
                        ctr128(enc, ctx, iv, payload, cipher_len);
                b = bip32(frame, frame_len);
        } else {
                b = bip32(frame, frame_len);
                if (cipher_len != 0)
                        ctr128(enc, ctx, iv, payload, cipher_len);
                if (have_crc)
                        c = ref_pon_crc32(payload, pli - 4);
        }
        if (bip != NULL)
                *bip = b;
        if (crc != NULL)
                *crc = c;
        return have_crc;
}

/* ================================================================== self test */
/* A minimal AES-128 (FIPS-197) for the self test only; S-box derived from its definition. */
struct st_aes {
        uint8_t sbox[256];
        uint8_t rk[176];
};

static uint8_t
st_xtime(uint8_t a)
{
        return (uint8_t) ((a << 1) ^ ((a & 0x80) ? 0x1b : 0));
}

static uint8_t
st_gmul(uint8_t a, uint8_t b)
{
        uint8_t r = 0;

        while (b) {
                if (b & 1)
                        r ^= a;
                a = st_xtime(a);
                b >>= 1;
        }
        return r;
}

static uint8_t
st_rotl8(uint8_t v, int n)
{
        return (uint8_t) ((v << n) | (v >> (8 - n)));
}

static void
st_aes_init(struct st_aes *a, const uint8_t key[16])
{
        for (int x = 0; x < 256; x++) {
                uint8_t inv = 0;

                for (int y = 1; y < 256 && x != 0; y++)
                        if (st_gmul((uint8_t) x, (uint8_t) y) == 1) {
                                inv = (uint8_t) y;
                                break;
                        }
                a->sbox[x] = (uint8_t) (inv ^ st_rotl8(inv, 1) ^ st_rotl8(inv, 2) ^
                                        st_rotl8(inv, 3) ^ st_rotl8(inv, 4) ^ 0x63);
        }
        memcpy(a->rk, key, 16);
        uint8_t rcon = 1;
        for (int i = 4; i < 44; i++) {
                uint8_t t[4];

                memcpy(t, a->rk + 4 * (i - 1), 4);
                if ((i & 3) == 0) {
                        const uint8_t t0 = t[0];

                        t[0] = a->sbox[t[1]] ^ rcon;
                        t[1] = a->sbox[t[2]];
                        t[2] = a->sbox[t[3]];
                        t[3] = a->sbox[t0];
                        rcon = st_xtime(rcon);
                }
                for (int j = 0; j < 4; j++)
                        a->rk[4 * i + j] = a->rk[4 * (i - 4) + j] ^ t[j];
        }
}

static void
st_aes_enc(const void *ctx, const uint8_t in[16], uint8_t out[16])
{
        const struct st_aes *a = (const struct st_aes *) ctx;
        uint8_t s[16], t[16];

        for (int i = 0; i < 16; i++)
                s[i] = in[i] ^ a->rk[i];
        for (int round = 1; round <= 10; round++) {
                /* SubBytes + ShiftRows: byte (row r, column c) lives at index 4c + r */
                for (int c = 0; c < 4; c++)
                        for (int r = 0; r < 4; r++)
                                t[4 * c + r] = a->sbox[s[4 * ((c + r) & 3) + r]];
                if (round != 10) {
                        for (int c = 0; c < 4; c++) {
                                const uint8_t *p = t + 4 * c;
                                const uint8_t all = p[0] ^ p[1] ^ p[2] ^ p[3];

                                for (int r = 0; r < 4; r++)
                                        s[4 * c + r] = (uint8_t) (p[r] ^ all ^
                                                                  st_xtime(p[r] ^ p[(r + 1) & 3]));
                        }
                } else {
                        memcpy(s, t, 16);
                }
                for (int i = 0; i < 16; i++)
                        s[i] ^= a->rk[16 * round + i];
        }
        memcpy(out, s, 16);
}

/* ---- PON vectors (intel-ipsec-mb test/kat-app/pon_test.c, data only) */
static const uint8_t st_key[16] = { 0x11, 0x22, 0x33, 0x44, 0x55, 0x66, 0x77, 0x88,
                                    0x99, 0xAA, 0xBB, 0xCC, 0xDD, 0xEE, 0xFF, 0x00 };
static const uint8_t st_iv1[16] = { 0, 0, 0, 0, 0, 0, 0, 4, 0, 0, 0, 0, 0, 0, 0, 4 };
static const uint8_t st_iv9[16] = { 0 };

static const uint8_t st_in1[] = { 0x00, 0x20, 0x27, 0x11, 0x00, 0x00, 0x21, 0x23,
                                  0x01, 0x02, 0x03, 0x04, 0xcd, 0xfb, 0x3c, 0xb6 };
static const uint8_t st_out1[] = { 0x00, 0x20, 0x27, 0x11, 0x00, 0x00, 0x21, 0x23,
                                   0xC7, 0x62, 0x82, 0xCA, 0x3E, 0x92, 0xC8, 0x5A };

static const uint8_t st_in2[] = { 0x00, 0x40, 0x27, 0x11, 0x00, 0x00, 0x29, 0x3C,
                                  0x01, 0x02, 0x03, 0x04, 0x05, 0x06, 0x01, 0x01,
                                  0x01, 0x01, 0x01, 0x01, 0x00, 0x14, 0xa9, 0x04 };
static const uint8_t st_out2[] = { 0x00, 0x40, 0x27, 0x11, 0x00, 0x00, 0x29, 0x3C,
                                   0xC7, 0x62, 0x82, 0xCA, 0xF6, 0x6F, 0xF5, 0xED,
                                   0xB7, 0x90, 0x1E, 0x02, 0xEA, 0x38, 0xA1, 0x78 };

static const uint8_t st_in3[] = {
        0x01, 0x00, 0x27, 0x11, 0x00, 0x00, 0x33, 0x0B, 0x01, 0x02, 0x03, 0x04, 0x05, 0x06, 0x01,
        0x01, 0x01, 0x01, 0x01, 0x01, 0x81, 0x00, 0x00, 0x01, 0x08, 0x00, 0x45, 0x00, 0x00, 0x6A,
        0xB0, 0x7E, 0x00, 0x00, 0x04, 0x06, 0x83, 0xBD, 0xC0, 0xA8, 0x00, 0x01, 0xC0, 0xA8, 0x01,
        0x01, 0x04, 0xD2, 0x16, 0x2E, 0x12, 0x34, 0x56, 0x78, 0x12, 0x34, 0x56, 0x90, 0x50, 0x10,
        0x20, 0x00, 0xA6, 0x33, 0x00, 0x00, 0x30, 0x31, 0x53, 0xc1, 0xe6, 0x0c
};
static const uint8_t st_out3[] = {
        0x01, 0x00, 0x27, 0x11, 0x00, 0x00, 0x33, 0x0B, 0xC7, 0x62, 0x82, 0xCA, 0xF6, 0x6F, 0xF5,
        0xED, 0xB7, 0x90, 0x1E, 0x02, 0x6B, 0x2C, 0x08, 0x7D, 0x3C, 0x90, 0xE8, 0x2C, 0x44, 0x30,
        0x03, 0x29, 0x5F, 0x88, 0xA9, 0xD6, 0x1E, 0xF9, 0xD1, 0xF1, 0xD6, 0x16, 0x8C, 0x72, 0xA4,
        0xCD, 0xD2, 0x8F, 0x63, 0x26, 0xC9, 0x66, 0xB0, 0x65, 0x24, 0x9B, 0x60, 0x5B, 0x18, 0x60,
        0xBD, 0xD5, 0x06, 0x13, 0x40, 0xC9, 0x60, 0x64, 0x36, 0x5F, 0x86, 0x8C
};

static const uint8_t st_in4[] = {
        0x01, 0x10, 0x27, 0x11, 0x00, 0x00, 0x3C, 0x18, 0x01, 0x02, 0x03, 0x04, 0x05, 0x06, 0x01,
        0x01, 0x01, 0x01, 0x01, 0x01, 0x81, 0x00, 0x00, 0x01, 0x08, 0x00, 0x45, 0x00, 0x00, 0x6A,
        0x70, 0x63, 0x00, 0x00, 0x04, 0x06, 0xC3, 0xD8, 0xC0, 0xA8, 0x00, 0x01, 0xC0, 0xA8, 0x01,
        0x01, 0x04, 0xD2, 0x16, 0x2E, 0x12, 0x34, 0x56, 0x78, 0x12, 0x34, 0x56, 0x90, 0x50, 0x10,
        0x20, 0x00, 0xA6, 0x33, 0x00, 0x00, 0x30, 0x31, 0x32, 0x33, 0x34, 0x35, 0x49, 0x0d, 0x52,
        0xab
};
static const uint8_t st_out4[] = {
        0x01, 0x10, 0x27, 0x11, 0x00, 0x00, 0x3C, 0x18, 0xC7, 0x62, 0x82, 0xCA, 0xF6, 0x6F, 0xF5,
        0xED, 0xB7, 0x90, 0x1E, 0x02, 0x6B, 0x2C, 0x08, 0x7D, 0x3C, 0x90, 0xE8, 0x2C, 0x44, 0x30,
        0xC3, 0x34, 0x5F, 0x88, 0xA9, 0xD6, 0x5E, 0x9C, 0xD1, 0xF1, 0xD6, 0x16, 0x8C, 0x72, 0xA4,
        0xCD, 0xD2, 0x8F, 0x63, 0x26, 0xC9, 0x66, 0xB0, 0x65, 0x24, 0x9B, 0x60, 0x5B, 0x18, 0x60,
        0xBD, 0xD5, 0x06, 0x13, 0x40, 0xC9, 0x60, 0x64, 0x57, 0xAD, 0x54, 0xB5, 0xD9, 0xEA, 0x01,
        0xB2
};

static const uint8_t st_in9[] = { 0x00, 0x39, 0x03, 0xfd, 0x00, 0x00, 0xb3, 0x6a,
                                  0x08, 0x09, 0x0a, 0x0b, 0x0c, 0x0d, 0x0e, 0x0f,
                                  0x10, 0x11, 0x8c, 0xd0, 0x9a, 0x8b, 0x55, 0x55 };
static const uint8_t st_out9[] = { 0x00, 0x39, 0x03, 0xfd, 0x00, 0x00, 0xb3, 0x6a,
                                   0x73, 0xe0, 0x5d, 0x5d, 0x32, 0x9c, 0x3b, 0xfa,
                                   0x6b, 0x66, 0xf6, 0x8e, 0x5b, 0xd5, 0xab, 0xcd };

static const uint8_t st_in10[] = { 0x00, 0x05, 0x03, 0xfd, 0x00, 0x00, 0xb9, 0xb4,
                                   0x08, 0x55, 0x55, 0x55, 0x55, 0x55, 0x55, 0x55 };
static const uint8_t st_out10[] = { 0x00, 0x05, 0x03, 0xfd, 0x00, 0x00, 0xb9, 0xb4,
                                    0x73, 0xbc, 0x02, 0x03, 0x6b, 0xc4, 0x60, 0xa0 };

static const uint8_t st_in13[] = { 0x00, 0x11, 0x03, 0xfd, 0x00, 0x00, 0xbf, 0xff,
                                   0x08, 0x09, 0x0a, 0x0b, 0x55, 0x55, 0x55, 0x55 };
static const uint8_t st_out13[] = { 0x00, 0x11, 0x03, 0xfd, 0x00, 0x00, 0xbf, 0xff,
                                    0x73, 0xe0, 0x5d, 0x5d, 0x6b, 0xc4, 0x60, 0xa0 };

static const struct st_pon_vec {
        const uint8_t *iv; /* NULL: no ciphering (msg_len_to_cipher = 0) */
        const uint8_t *in;
        const uint8_t *out;
        size_t len;
        uint32_t bip;
} st_vecs[13] = {
        { st_iv1, st_in1, st_out1, sizeof(st_in1), 0xA24CD0F9 },    /* 1 */
        { st_iv1, st_in2, st_out2, sizeof(st_in2), 0x70C6E56C },    /* 2 */
        { st_iv1, st_in3, st_out3, sizeof(st_in3), 0xFBADE0DF },    /* 3 */
        { st_iv1, st_in4, st_out4, sizeof(st_in4), 0x7EB18D27 },    /* 4 */
        { NULL, st_in1, st_in1, sizeof(st_in1), 0x8039D9CC },       /* 5 */
        { NULL, st_in2, st_in2, sizeof(st_in2), 0x2DA45105 },       /* 6 */
        { NULL, st_in3, st_in3, sizeof(st_in3), 0xABC2D56A },       /* 7 */
        { NULL, st_in4, st_in4, sizeof(st_in4), 0x378D5F02 },       /* 8 */
        { st_iv9, st_in9, st_out9, sizeof(st_in9), 0x738bf671 },    /* 9 */
        { st_iv9, st_in10, st_out10, sizeof(st_in10), 0xead87d18 }, /* 10 */
        { NULL, st_in9, st_in9, sizeof(st_in9), 0x166da78e },       /* 11 */
        { NULL, st_in10, st_in10, sizeof(st_in10), 0x49ba055d },    /* 12 */
        { st_iv9, st_in13, st_out13, sizeof(st_in13), 0xff813518 }, /* 13 */
};

/* ---- HEC vectors (intel-ipsec-mb test/kat-app/hec_test.c, data only): completed headers as
 * little-endian loads of the wire bytes */
static const uint32_t st_hec32[] = { 0x660e4758, 0xcc076e69, 0xcb1f206b, 0xa611502d, 0x4e1b7320,
                                     0x0a196148, 0xda034e4f, 0x5e116970, 0xea11646a, 0xd70a6820,
                                     0xa3186574, 0x41156375, 0x0d077061, 0x9b1e6f20, 0x6601657a,
                                     0x5d1d6570, 0x130f2066, 0x631f696e, 0x6013656e, 0x2e02614d,
                                     0x1b012e61, 0xd4182064, 0x9a0a6572, 0x2f162020 };
static const uint64_t st_hec64[] = {
        0x550a4e4f502d4758, 0x48172c696e614b20, 0x8b0c696b616f7269, 0x7415702073617720,
        0x47025320656f4a20, 0x220a69616b754d20, 0x8e12656375646f72, 0x231a202c6874696d,
        0x731a65766144202c, 0x181a6e6168742064, 0x6e0a726168636952, 0x790f2c646f6f4820,
        0x0517206f7420736b, 0x6e17646f6f472064, 0xf2044c2069655720, 0x15094320616e6e41,
        0x000f44202c6e6f73, 0xe9056e61202c6e69, 0x9f156146202c6975, 0x80174b2073696e65,
        0x471c6320666f2064, 0x7203206563697262, 0x441f736d69746f68, 0x05042c657372756f,
        0x3d03616772756f42, 0x5f157559202c796b, 0x01066b6e61724620, 0x6017754a202c7472,
        0xe805207569716e61, 0x97186e6566664520, 0xa808696863692d6e, 0xd21748202c6f754c,
        0x8604726567726562
};

#define ST_MAXLEN 96

int
ref_pon_selftest(void)
{
        struct st_aes aes;
        int check = 0;

        /* 1: FIPS-197 appendix C.1 */
        {
                static const uint8_t k[16] = { 0, 1, 2, 3, 4, 5, 6, 7, 8, 9, 10, 11, 12, 13, 14, 15 };
                static const uint8_t pt[16] = { 0x00, 0x11, 0x22, 0x33, 0x44, 0x55, 0x66, 0x77,
                                                0x88, 0x99, 0xaa, 0xbb, 0xcc, 0xdd, 0xee, 0xff };
                static const uint8_t ct[16] = { 0x69, 0xc4, 0xe0, 0xd8, 0x6a, 0x7b, 0x04, 0x30,
                                                0xd8, 0xcd, 0xb7, 0x80, 0x70, 0xb4, 0xc5, 0x5a };
                uint8_t o[16];

                check++;
                st_aes_init(&aes, k);
                st_aes_enc(&aes, pt, o);
                if (memcmp(o, ct, 16) != 0)
                        return check;
        }
        /* 2: CRC-32 check value */
        check++;
        if (ref_pon_crc32((const uint8_t *) "123456789", 9) != 0xCBF43926u)
                return check;

        /* 3: SP 800-38A F.5.1 CTR-AES128, first two blocks (counter carry not exercised) and a
         * 128-bit wrap: counter ff..ff followed by 00..00 */
        {
                static const uint8_t k[16] = { 0x2b, 0x7e, 0x15, 0x16, 0x28, 0xae, 0xd2, 0xa6,
                                               0xab, 0xf7, 0x15, 0x88, 0x09, 0xcf, 0x4f, 0x3c };
                static const uint8_t ctr[16] = { 0xf0, 0xf1, 0xf2, 0xf3, 0xf4, 0xf5, 0xf6, 0xf7,
                                                 0xf8, 0xf9, 0xfa, 0xfb, 0xfc, 0xfd, 0xfe, 0xff };
                static const uint8_t pt[32] = { 0x6b, 0xc1, 0xbe, 0xe2, 0x2e, 0x40, 0x9f, 0x96,
                                                0xe9, 0x3d, 0x7e, 0x11, 0x73, 0x93, 0x17, 0x2a,
                                                0xae, 0x2d, 0x8a, 0x57, 0x1e, 0x03, 0xac, 0x9c,
                                                0x9e, 0xb7, 0x6f, 0xac, 0x45, 0xaf, 0x8e, 0x51 };
                static const uint8_t ct[32] = { 0x87, 0x4d, 0x61, 0x91, 0xb6, 0x20, 0xe3, 0x26,
                                                0x1b, 0xef, 0x68, 0x64, 0x99, 0x0d, 0xb6, 0xce,
                                                0x98, 0x06, 0xf6, 0x6b, 0x79, 0x70, 0xfd, 0xff,
                                                0x86, 0x17, 0x18, 0x7b, 0xb9, 0xff, 0xfd, 0xff };
                uint8_t buf[32], ones[16], zero[16], e0[16], e1[16];

                check++;
                st_aes_init(&aes, k);
                memcpy(buf, pt, 32);
                ctr128(st_aes_enc, &aes, ctr, buf, 32);
                if (memcmp(buf, ct, 32) != 0)
                        return check;
                memset(ones, 0xff, 16);
                memset(zero, 0, 16);
                memset(buf, 0, 32);
                ctr128(st_aes_enc, &aes, ones, buf, 32);
                st_aes_enc(&aes, ones, e0);
                st_aes_enc(&aes, zero, e1);
                if (memcmp(buf, e0, 16) != 0 || memcmp(buf + 16, e1, 16) != 0)
                        return check;
        }

        /* 4..: HEC */
        for (size_t i = 0; i < sizeof(st_hec32) / sizeof(st_hec32[0]); i++) {
                check++;
                /* clear the 13 HEC bits (wire bits 12..0 = LE-load bits 31..24 and 20..16) */
                if (ref_pon_hec32(st_hec32[i] & ~0xff1f0000u) != st_hec32[i])
                        return check;
                /* garbage in the HEC field must be ignored */
                if (ref_pon_hec32(st_hec32[i] ^ 0x5a0b0000u) != st_hec32[i])
                        return check;
                if (ref_pon_hec32_be(swap32(st_hec32[i]) | 0x1fffu) != swap32(st_hec32[i]))
                        return check;
        }
        for (size_t i = 0; i < sizeof(st_hec64) / sizeof(st_hec64[0]); i++) {
                check++;
                if (ref_pon_hec64(st_hec64[i] & ~0xff1f000000000000ull) != st_hec64[i])
                        return check;
                if (ref_pon_hec64(st_hec64[i] ^ 0xa515000000000000ull) != st_hec64[i])
                        return check;
                if (ref_pon_hec64_be(swap64(st_hec64[i]) & ~0x1fffull) != swap64(st_hec64[i]))
                        return check;
                /* codeword property: the first 63 bits are divisible by g(x), weight is even */
                if (hec_bch12(swap64(st_hec64[i]) >> 1, 63) != 0 ||
                    parity64(swap64(st_hec64[i])) != 0)
                        return check;
        }

        /* PON vectors, both directions */
        st_aes_init(&aes, st_key);
        for (int v = 0; v < 13; v++) {
                const struct st_pon_vec *t = &st_vecs[v];
                const size_t clen = (t->iv != NULL) ? t->len - 8 : 0;
                const size_t pli = (size_t) (ld_be64(t->in) >> 50);
                uint32_t crc_in_msg = 0, bip, crc;
                uint8_t buf[ST_MAXLEN];
                int rc;

                if (pli > 4)
                        crc_in_msg = (uint32_t) t->in[8 + pli - 4] |
                                     ((uint32_t) t->in[8 + pli - 3] << 8) |
                                     ((uint32_t) t->in[8 + pli - 2] << 16) |
                                     ((uint32_t) t->in[8 + pli - 1] << 24);

                /* encrypt: HEC and CRC corrupted on input, must be rewritten */
                check++;
                memset(buf, 0xff, sizeof(buf));
                memcpy(buf, t->in, t->len);
                buf[7] ^= 0xff;
                buf[6] ^= 0x1f;
                if (pli > 4)
                        for (size_t i = 0; i < 4; i++)
                                buf[8 + pli - 4 + i] ^= 0xff;
                bip = crc = 0x12345678;
                rc = ref_pon(st_aes_enc, &aes, 0, t->iv, buf, t->len, clen, &bip, &crc);
                if (rc != (pli > 4) || memcmp(buf, t->out, t->len) != 0 || bip != t->bip ||
                    crc != crc_in_msg)
                        return check;
                for (size_t i = t->len; i < sizeof(buf); i++)
                        if (buf[i] != 0xff)
                                return check;

                /* decrypt */
                check++;
                memset(buf, 0xff, sizeof(buf));
                memcpy(buf, t->out, t->len);
                bip = crc = 0x12345678;
                rc = ref_pon(st_aes_enc, &aes, 1, t->iv, buf, t->len, clen, &bip, &crc);
                if (rc != (pli > 4) || memcmp(buf, t->in, t->len) != 0 || bip != t->bip ||
                    crc != crc_in_msg)
                        return check;
                for (size_t i = t->len; i < sizeof(buf); i++)
                        if (buf[i] != 0xff)
                                return check;
        }

        /* parameter checks */
        {
                uint8_t buf[16] = { 0x00, 0x24 /* PLI 9 */, 0, 0, 0, 0, 0, 0 };

                check++;
                if (ref_pon(NULL, NULL, 0, NULL, buf, 16, 0, NULL, NULL) != -1 || /* PLI > 8 */
                    ref_pon(NULL, NULL, 0, NULL, buf, 14, 0, NULL, NULL) != -1 ||
                    ref_pon(NULL, NULL, 0, NULL, buf, 4, 0, NULL, NULL) != -1 ||
                    ref_pon(NULL, NULL, 0, NULL, buf, 16, 12, NULL, NULL) != -1 ||
                    ref_pon(NULL, NULL, 0, NULL, buf, 16, 8, NULL, NULL) != -1)
                        return check;
        }
        return 0;
}
