/*
 * Reference models for SNOW 3G (UEA2/UIA2) and KASUMI (f8/f9), written from the 3GPP
 * specifications:
 *   - "Specification of the 3GPP Confidentiality and Integrity Algorithms UEA2 & UIA2",
 *     Document 1 (UEA2 and UIA2) and Document 2 (SNOW 3G)
 *   - 3GPP TS 35.201 (f8 and f9) and TS 35.202 (KASUMI)
 * Independent of the code under /repo/lib. Plain C, word at a time, no SIMD.
 *
 * Parameter conventions are those of the intel-ipsec-mb API (see ref.h):
 *   SNOW 3G key   : 16 bytes, K3|K2|K1|K0, each word big-endian (CK/IK as in the 3GPP test data)
 *   SNOW 3G IV    : 16 bytes, IV3|IV2|IV1|IV0, each word big-endian
 *                   f8: COUNT | BEARER<<27|DIR<<26 | COUNT | BEARER<<27|DIR<<26
 *                   f9: COUNT | FRESH | COUNT^(DIR<<31) | FRESH^(DIR<<15)
 *   KASUMI key    : 16 bytes, K1..K8 as big-endian 16-bit words (CK/IK as in the 3GPP test data)
 *   KASUMI f8 IV  : 8 bytes, COUNT(32, big-endian) | BEARER<<3|DIR<<2 | 0 | 0 | 0
 *   KASUMI f9 msg : COUNT(4) | FRESH(4) | MESSAGE | DIR bit | 1 bit | 0 bits; trailing zero bytes
 *                   up to the next multiple of 8 bytes may be omitted (they are implied)
 */
#include <stdio.h>
#include <string.h>

#include "ref.h"

/* =========================================================================================
 * SNOW 3G (Document 2)
 * ========================================================================================= */

/*
 * S_R (Rijndael S-box), S_Q (Dickson polynomial g49 + 0x25 over GF(2^8)/x^8+x^6+x^5+x^3+1),
 * MULalpha and DIValpha (Document 2, 3.4.2 - 3.4.3). All four tables below were generated
 * algebraically from the definitions in the specification; ref_3g_selftest() regenerates them
 * from those definitions and compares.
 */
static const uint8_t snow3g_SR[256] = {
        0x63, 0x7c, 0x77, 0x7b, 0xf2, 0x6b, 0x6f, 0xc5, 0x30, 0x01, 0x67, 0x2b,
        0xfe, 0xd7, 0xab, 0x76, 0xca, 0x82, 0xc9, 0x7d, 0xfa, 0x59, 0x47, 0xf0,
        0xad, 0xd4, 0xa2, 0xaf, 0x9c, 0xa4, 0x72, 0xc0, 0xb7, 0xfd, 0x93, 0x26,
        0x36, 0x3f, 0xf7, 0xcc, 0x34, 0xa5, 0xe5, 0xf1, 0x71, 0xd8, 0x31, 0x15,
        0x04, 0xc7, 0x23, 0xc3, 0x18, 0x96, 0x05, 0x9a, 0x07, 0x12, 0x80, 0xe2,
        0xeb, 0x27, 0xb2, 0x75, 0x09, 0x83, 0x2c, 0x1a, 0x1b, 0x6e, 0x5a, 0xa0,
        0x52, 0x3b, 0xd6, 0xb3, 0x29, 0xe3, 0x2f, 0x84, 0x53, 0xd1, 0x00, 0xed,
        0x20, 0xfc, 0xb1, 0x5b, 0x6a, 0xcb, 0xbe, 0x39, 0x4a, 0x4c, 0x58, 0xcf,
        0xd0, 0xef, 0xaa, 0xfb, 0x43, 0x4d, 0x33, 0x85, 0x45, 0xf9, 0x02, 0x7f,
        0x50, 0x3c, 0x9f, 0xa8, 0x51, 0xa3, 0x40, 0x8f, 0x92, 0x9d, 0x38, 0xf5,
        0xbc, 0xb6, 0xda, 0x21, 0x10, 0xff, 0xf3, 0xd2, 0xcd, 0x0c, 0x13, 0xec,
        0x5f, 0x97, 0x44, 0x17, 0xc4, 0xa7, 0x7e, 0x3d, 0x64, 0x5d, 0x19, 0x73,
        0x60, 0x81, 0x4f, 0xdc, 0x22, 0x2a, 0x90, 0x88, 0x46, 0xee, 0xb8, 0x14,
        0xde, 0x5e, 0x0b, 0xdb, 0xe0, 0x32, 0x3a, 0x0a, 0x49, 0x06, 0x24, 0x5c,
        0xc2, 0xd3, 0xac, 0x62, 0x91, 0x95, 0xe4, 0x79, 0xe7, 0xc8, 0x37, 0x6d,
        0x8d, 0xd5, 0x4e, 0xa9, 0x6c, 0x56, 0xf4, 0xea, 0x65, 0x7a, 0xae, 0x08,
        0xba, 0x78, 0x25, 0x2e, 0x1c, 0xa6, 0xb4, 0xc6, 0xe8, 0xdd, 0x74, 0x1f,
        0x4b, 0xbd, 0x8b, 0x8a, 0x70, 0x3e, 0xb5, 0x66, 0x48, 0x03, 0xf6, 0x0e,
        0x61, 0x35, 0x57, 0xb9, 0x86, 0xc1, 0x1d, 0x9e, 0xe1, 0xf8, 0x98, 0x11,
        0x69, 0xd9, 0x8e, 0x94, 0x9b, 0x1e, 0x87, 0xe9, 0xce, 0x55, 0x28, 0xdf,
        0x8c, 0xa1, 0x89, 0x0d, 0xbf, 0xe6, 0x42, 0x68, 0x41, 0x99, 0x2d, 0x0f,
        0xb0, 0x54, 0xbb, 0x16,
};
static const uint8_t snow3g_SQ[256] = {
        0x25, 0x24, 0x73, 0x67, 0xd7, 0xae, 0x5c, 0x30, 0xa4, 0xee, 0x6e, 0xcb,
        0x7d, 0xb5, 0x82, 0xdb, 0xe4, 0x8e, 0x48, 0x49, 0x4f, 0x5d, 0x6a, 0x78,
        0x70, 0x88, 0xe8, 0x5f, 0x5e, 0x84, 0x65, 0xe2, 0xd8, 0xe9, 0xcc, 0xed,
        0x40, 0x2f, 0x11, 0x28, 0x57, 0xd2, 0xac, 0xe3, 0x4a, 0x15, 0x1b, 0xb9,
        0xb2, 0x80, 0x85, 0xa6, 0x2e, 0x02, 0x47, 0x29, 0x07, 0x4b, 0x0e, 0xc1,
        0x51, 0xaa, 0x89, 0xd4, 0xca, 0x01, 0x46, 0xb3, 0xef, 0xdd, 0x44, 0x7b,
        0xc2, 0x7f, 0xbe, 0xc3, 0x9f, 0x20, 0x4c, 0x64, 0x83, 0xa2, 0x68, 0x42,
        0x13, 0xb4, 0x41, 0xcd, 0xba, 0xc6, 0xbb, 0x6d, 0x4d, 0x71, 0x21, 0xf4,
        0x8d, 0xb0, 0xe5, 0x93, 0xfe, 0x8f, 0xe6, 0xcf, 0x43, 0x45, 0x31, 0x22,
        0x37, 0x36, 0x96, 0xfa, 0xbc, 0x0f, 0x08, 0x52, 0x1d, 0x55, 0x1a, 0xc5,
        0x4e, 0x23, 0x69, 0x7a, 0x92, 0xff, 0x5b, 0x5a, 0xeb, 0x9a, 0x1c, 0xa9,
        0xd1, 0x7e, 0x0d, 0xfc, 0x50, 0x8a, 0xb6, 0x62, 0xf5, 0x0a, 0xf8, 0xdc,
        0x03, 0x3c, 0x0c, 0x39, 0xf1, 0xb8, 0xf3, 0x3d, 0xf2, 0xd5, 0x97, 0x66,
        0x81, 0x32, 0xa0, 0x00, 0x06, 0xce, 0xf6, 0xea, 0xb7, 0x17, 0xf7, 0x8c,
        0x79, 0xd6, 0xa7, 0xbf, 0x8b, 0x3f, 0x1f, 0x53, 0x63, 0x75, 0x35, 0x2c,
        0x60, 0xfd, 0x27, 0xd3, 0x94, 0xa5, 0x7c, 0xa1, 0x05, 0x58, 0x2d, 0xbd,
        0xd9, 0xc7, 0xaf, 0x6b, 0x54, 0x0b, 0xe0, 0x38, 0x04, 0xc8, 0x9d, 0xe7,
        0x14, 0xb1, 0x87, 0x9c, 0xdf, 0x6f, 0xf9, 0xda, 0x2a, 0xc4, 0x59, 0x16,
        0x74, 0x91, 0xab, 0x26, 0x61, 0x76, 0x34, 0x2b, 0xad, 0x99, 0xfb, 0x72,
        0xec, 0x33, 0x12, 0xde, 0x98, 0x3b, 0xc0, 0x9b, 0x3e, 0x18, 0x10, 0x3a,
        0x56, 0xe1, 0x77, 0xc9, 0x1e, 0x9e, 0x95, 0xa3, 0x90, 0x19, 0xa8, 0x6c,
        0x09, 0xd0, 0xf0, 0x86,
};
static const uint32_t snow3g_MULa[256] = {
        0x00000000, 0xe19fcf13, 0x6b973726, 0x8a08f835, 0xd6876e4c, 0x3718a15f,
        0xbd10596a, 0x5c8f9679, 0x05a7dc98, 0xe438138b, 0x6e30ebbe, 0x8faf24ad,
        0xd320b2d4, 0x32bf7dc7, 0xb8b785f2, 0x59284ae1, 0x0ae71199, 0xeb78de8a,
        0x617026bf, 0x80efe9ac, 0xdc607fd5, 0x3dffb0c6, 0xb7f748f3, 0x566887e0,
        0x0f40cd01, 0xeedf0212, 0x64d7fa27, 0x85483534, 0xd9c7a34d, 0x38586c5e,
        0xb250946b, 0x53cf5b78, 0x1467229b, 0xf5f8ed88, 0x7ff015bd, 0x9e6fdaae,
        0xc2e04cd7, 0x237f83c4, 0xa9777bf1, 0x48e8b4e2, 0x11c0fe03, 0xf05f3110,
        0x7a57c925, 0x9bc80636, 0xc747904f, 0x26d85f5c, 0xacd0a769, 0x4d4f687a,
        0x1e803302, 0xff1ffc11, 0x75170424, 0x9488cb37, 0xc8075d4e, 0x2998925d,
        0xa3906a68, 0x420fa57b, 0x1b27ef9a, 0xfab82089, 0x70b0d8bc, 0x912f17af,
        0xcda081d6, 0x2c3f4ec5, 0xa637b6f0, 0x47a879e3, 0x28ce449f, 0xc9518b8c,
        0x435973b9, 0xa2c6bcaa, 0xfe492ad3, 0x1fd6e5c0, 0x95de1df5, 0x7441d2e6,
        0x2d699807, 0xccf65714, 0x46feaf21, 0xa7616032, 0xfbeef64b, 0x1a713958,
        0x9079c16d, 0x71e60e7e, 0x22295506, 0xc3b69a15, 0x49be6220, 0xa821ad33,
        0xf4ae3b4a, 0x1531f459, 0x9f390c6c, 0x7ea6c37f, 0x278e899e, 0xc611468d,
        0x4c19beb8, 0xad8671ab, 0xf109e7d2, 0x109628c1, 0x9a9ed0f4, 0x7b011fe7,
        0x3ca96604, 0xdd36a917, 0x573e5122, 0xb6a19e31, 0xea2e0848, 0x0bb1c75b,
        0x81b93f6e, 0x6026f07d, 0x390eba9c, 0xd891758f, 0x52998dba, 0xb30642a9,
        0xef89d4d0, 0x0e161bc3, 0x841ee3f6, 0x65812ce5, 0x364e779d, 0xd7d1b88e,
        0x5dd940bb, 0xbc468fa8, 0xe0c919d1, 0x0156d6c2, 0x8b5e2ef7, 0x6ac1e1e4,
        0x33e9ab05, 0xd2766416, 0x587e9c23, 0xb9e15330, 0xe56ec549, 0x04f10a5a,
        0x8ef9f26f, 0x6f663d7c, 0x50358897, 0xb1aa4784, 0x3ba2bfb1, 0xda3d70a2,
        0x86b2e6db, 0x672d29c8, 0xed25d1fd, 0x0cba1eee, 0x5592540f, 0xb40d9b1c,
        0x3e056329, 0xdf9aac3a, 0x83153a43, 0x628af550, 0xe8820d65, 0x091dc276,
        0x5ad2990e, 0xbb4d561d, 0x3145ae28, 0xd0da613b, 0x8c55f742, 0x6dca3851,
        0xe7c2c064, 0x065d0f77, 0x5f754596, 0xbeea8a85, 0x34e272b0, 0xd57dbda3,
        0x89f22bda, 0x686de4c9, 0xe2651cfc, 0x03fad3ef, 0x4452aa0c, 0xa5cd651f,
        0x2fc59d2a, 0xce5a5239, 0x92d5c440, 0x734a0b53, 0xf942f366, 0x18dd3c75,
        0x41f57694, 0xa06ab987, 0x2a6241b2, 0xcbfd8ea1, 0x977218d8, 0x76edd7cb,
        0xfce52ffe, 0x1d7ae0ed, 0x4eb5bb95, 0xaf2a7486, 0x25228cb3, 0xc4bd43a0,
        0x9832d5d9, 0x79ad1aca, 0xf3a5e2ff, 0x123a2dec, 0x4b12670d, 0xaa8da81e,
        0x2085502b, 0xc11a9f38, 0x9d950941, 0x7c0ac652, 0xf6023e67, 0x179df174,
        0x78fbcc08, 0x9964031b, 0x136cfb2e, 0xf2f3343d, 0xae7ca244, 0x4fe36d57,
        0xc5eb9562, 0x24745a71, 0x7d5c1090, 0x9cc3df83, 0x16cb27b6, 0xf754e8a5,
        0xabdb7edc, 0x4a44b1cf, 0xc04c49fa, 0x21d386e9, 0x721cdd91, 0x93831282,
        0x198beab7, 0xf81425a4, 0xa49bb3dd, 0x45047cce, 0xcf0c84fb, 0x2e934be8,
        0x77bb0109, 0x9624ce1a, 0x1c2c362f, 0xfdb3f93c, 0xa13c6f45, 0x40a3a056,
        0xcaab5863, 0x2b349770, 0x6c9cee93, 0x8d032180, 0x070bd9b5, 0xe69416a6,
        0xba1b80df, 0x5b844fcc, 0xd18cb7f9, 0x301378ea, 0x693b320b, 0x88a4fd18,
        0x02ac052d, 0xe333ca3e, 0xbfbc5c47, 0x5e239354, 0xd42b6b61, 0x35b4a472,
        0x667bff0a, 0x87e43019, 0x0decc82c, 0xec73073f, 0xb0fc9146, 0x51635e55,
        0xdb6ba660, 0x3af46973, 0x63dc2392, 0x8243ec81, 0x084b14b4, 0xe9d4dba7,
        0xb55b4dde, 0x54c482cd, 0xdecc7af8, 0x3f53b5eb,
};
static const uint32_t snow3g_DIVa[256] = {
        0x00000000, 0x180f40cd, 0x301e8033, 0x2811c0fe, 0x603ca966, 0x7833e9ab,
        0x50222955, 0x482d6998, 0xc078fbcc, 0xd877bb01, 0xf0667bff, 0xe8693b32,
        0xa04452aa, 0xb84b1267, 0x905ad299, 0x88559254, 0x29f05f31, 0x31ff1ffc,
        0x19eedf02, 0x01e19fcf, 0x49ccf657, 0x51c3b69a, 0x79d27664, 0x61dd36a9,
        0xe988a4fd, 0xf187e430, 0xd99624ce, 0xc1996403, 0x89b40d9b, 0x91bb4d56,
        0xb9aa8da8, 0xa1a5cd65, 0x5249be62, 0x4a46feaf, 0x62573e51, 0x7a587e9c,
        0x32751704, 0x2a7a57c9, 0x026b9737, 0x1a64d7fa, 0x923145ae, 0x8a3e0563,
        0xa22fc59d, 0xba208550, 0xf20decc8, 0xea02ac05, 0xc2136cfb, 0xda1c2c36,
        0x7bb9e153, 0x63b6a19e, 0x4ba76160, 0x53a821ad, 0x1b854835, 0x038a08f8,
        0x2b9bc806, 0x339488cb, 0xbbc11a9f, 0xa3ce5a52, 0x8bdf9aac, 0x93d0da61,
        0xdbfdb3f9, 0xc3f2f334, 0xebe333ca, 0xf3ec7307, 0xa492d5c4, 0xbc9d9509,
        0x948c55f7, 0x8c83153a, 0xc4ae7ca2, 0xdca13c6f, 0xf4b0fc91, 0xecbfbc5c,
        0x64ea2e08, 0x7ce56ec5, 0x54f4ae3b, 0x4cfbeef6, 0x04d6876e, 0x1cd9c7a3,
        0x34c8075d, 0x2cc74790, 0x8d628af5, 0x956dca38, 0xbd7c0ac6, 0xa5734a0b,
        0xed5e2393, 0xf551635e, 0xdd40a3a0, 0xc54fe36d, 0x4d1a7139, 0x551531f4,
        0x7d04f10a, 0x650bb1c7, 0x2d26d85f, 0x35299892, 0x1d38586c, 0x053718a1,
        0xf6db6ba6, 0xeed42b6b, 0xc6c5eb95, 0xdecaab58, 0x96e7c2c0, 0x8ee8820d,
        0xa6f942f3, 0xbef6023e, 0x36a3906a, 0x2eacd0a7, 0x06bd1059, 0x1eb25094,
        0x569f390c, 0x4e9079c1, 0x6681b93f, 0x7e8ef9f2, 0xdf2b3497, 0xc724745a,
        0xef35b4a4, 0xf73af469, 0xbf179df1, 0xa718dd3c, 0x8f091dc2, 0x97065d0f,
        0x1f53cf5b, 0x075c8f96, 0x2f4d4f68, 0x37420fa5, 0x7f6f663d, 0x676026f0,
        0x4f71e60e, 0x577ea6c3, 0xe18d0321, 0xf98243ec, 0xd1938312, 0xc99cc3df,
        0x81b1aa47, 0x99beea8a, 0xb1af2a74, 0xa9a06ab9, 0x21f5f8ed, 0x39fab820,
        0x11eb78de, 0x09e43813, 0x41c9518b, 0x59c61146, 0x71d7d1b8, 0x69d89175,
        0xc87d5c10, 0xd0721cdd, 0xf863dc23, 0xe06c9cee, 0xa841f576, 0xb04eb5bb,
        0x985f7545, 0x80503588, 0x0805a7dc, 0x100ae711, 0x381b27ef, 0x20146722,
        0x68390eba, 0x70364e77, 0x58278e89, 0x4028ce44, 0xb3c4bd43, 0xabcbfd8e,
        0x83da3d70, 0x9bd57dbd, 0xd3f81425, 0xcbf754e8, 0xe3e69416, 0xfbe9d4db,
        0x73bc468f, 0x6bb30642, 0x43a2c6bc, 0x5bad8671, 0x1380efe9, 0x0b8faf24,
        0x239e6fda, 0x3b912f17, 0x9a34e272, 0x823ba2bf, 0xaa2a6241, 0xb225228c,
        0xfa084b14, 0xe2070bd9, 0xca16cb27, 0xd2198bea, 0x5a4c19be, 0x42435973,
        0x6a52998d, 0x725dd940, 0x3a70b0d8, 0x227ff015, 0x0a6e30eb, 0x12617026,
        0x451fd6e5, 0x5d109628, 0x750156d6, 0x6d0e161b, 0x25237f83, 0x3d2c3f4e,
        0x153dffb0, 0x0d32bf7d, 0x85672d29, 0x9d686de4, 0xb579ad1a, 0xad76edd7,
        0xe55b844f, 0xfd54c482, 0xd545047c, 0xcd4a44b1, 0x6cef89d4, 0x74e0c919,
        0x5cf109e7, 0x44fe492a, 0x0cd320b2, 0x14dc607f, 0x3ccda081, 0x24c2e04c,
        0xac977218, 0xb49832d5, 0x9c89f22b, 0x8486b2e6, 0xccabdb7e, 0xd4a49bb3,
        0xfcb55b4d, 0xe4ba1b80, 0x17566887, 0x0f59284a, 0x2748e8b4, 0x3f47a879,
        0x776ac1e1, 0x6f65812c, 0x477441d2, 0x5f7b011f, 0xd72e934b, 0xcf21d386,
        0xe7301378, 0xff3f53b5, 0xb7123a2d, 0xaf1d7ae0, 0x870cba1e, 0x9f03fad3,
        0x3ea637b6, 0x26a9777b, 0x0eb8b785, 0x16b7f748, 0x5e9a9ed0, 0x4695de1d,
        0x6e841ee3, 0x768b5e2e, 0xfedecc7a, 0xe6d18cb7, 0xcec04c49, 0xd6cf0c84,
        0x9ee2651c, 0x86ed25d1, 0xaefce52f, 0xb6f3a5e2,
};

struct snow3g {
        uint32_t s[16]; /* LFSR s0..s15 */
        uint32_t r1, r2, r3;
};

static uint32_t
be32(const uint8_t *p)
{
        return ((uint32_t) p[0] << 24) | ((uint32_t) p[1] << 16) | ((uint32_t) p[2] << 8) | p[3];
}

/* MULx (Document 2, 3.1.1) */
static uint8_t
mulx(const uint8_t v, const uint8_t c)
{
        return (v & 0x80) ? (uint8_t) ((v << 1) ^ c) : (uint8_t) (v << 1);
}

/* 32x32-bit S-box: byte substitution followed by the MixColumn-like step (3.3.1 / 3.3.2);
 * w0 is the most significant byte */
static uint32_t
snow3g_sbox32(const uint32_t w, const uint8_t *sb, const uint8_t c)
{
        const uint8_t b0 = sb[(w >> 24) & 0xff], b1 = sb[(w >> 16) & 0xff];
        const uint8_t b2 = sb[(w >> 8) & 0xff], b3 = sb[w & 0xff];
        const uint8_t r0 = mulx(b0, c) ^ b1 ^ b2 ^ mulx(b3, c) ^ b3;
        const uint8_t r1 = mulx(b0, c) ^ b0 ^ mulx(b1, c) ^ b2 ^ b3;
        const uint8_t r2 = b0 ^ mulx(b1, c) ^ b1 ^ mulx(b2, c) ^ b3;
        const uint8_t r3 = b0 ^ b1 ^ mulx(b2, c) ^ b2 ^ mulx(b3, c);

        return ((uint32_t) r0 << 24) | ((uint32_t) r1 << 16) | ((uint32_t) r2 << 8) | r3;
}

#define SNOW3G_S1(w) snow3g_sbox32((w), snow3g_SR, 0x1b)
#define SNOW3G_S2(w) snow3g_sbox32((w), snow3g_SQ, 0x69)

/* clock the FSM (3.4.6), returns F */
static uint32_t
snow3g_clock_fsm(struct snow3g *st)
{
        const uint32_t f = (st->s[15] + st->r1) ^ st->r2;
        const uint32_t r = st->r2 + (st->r3 ^ st->s[5]);

        st->r3 = SNOW3G_S2(st->r2);
        st->r2 = SNOW3G_S1(st->r1);
        st->r1 = r;
        return f;
}

/* clock the LFSR (3.4.4 initialisation mode with F, 3.4.5 keystream mode with f = 0) */
static void
snow3g_clock_lfsr(struct snow3g *st, const uint32_t f)
{
        const uint32_t s0 = st->s[0], s11 = st->s[11];
        const uint32_t v = (s0 << 8) ^ snow3g_MULa[s0 >> 24] ^ st->s[2] ^ (s11 >> 8) ^
                           snow3g_DIVa[s11 & 0xff] ^ f;

        memmove(&st->s[0], &st->s[1], 15 * sizeof(uint32_t));
        st->s[15] = v;
}

/* initialisation (4.1) plus the first keystream-mode clock whose FSM output is discarded (4.2) */
static void
snow3g_init(struct snow3g *st, const uint8_t key[16], const uint8_t iv[16])
{
        const uint32_t k3 = be32(key), k2 = be32(key + 4), k1 = be32(key + 8), k0 = be32(key + 12);
        const uint32_t iv3 = be32(iv), iv2 = be32(iv + 4), iv1 = be32(iv + 8), iv0 = be32(iv + 12);
        const uint32_t ones = 0xffffffffu;

        st->s[15] = k3 ^ iv0;
        st->s[14] = k2;
        st->s[13] = k1;
        st->s[12] = k0 ^ iv1;
        st->s[11] = k3 ^ ones;
        st->s[10] = k2 ^ ones ^ iv2;
        st->s[9] = k1 ^ ones ^ iv3;
        st->s[8] = k0 ^ ones;
        st->s[7] = k3;
        st->s[6] = k2;
        st->s[5] = k1;
        st->s[4] = k0;
        st->s[3] = k3 ^ ones;
        st->s[2] = k2 ^ ones;
        st->s[1] = k1 ^ ones;
        st->s[0] = k0 ^ ones;
        st->r1 = st->r2 = st->r3 = 0;

        for (int i = 0; i < 32; i++) {
                const uint32_t f = snow3g_clock_fsm(st);

                snow3g_clock_lfsr(st, f);
        }
        (void) snow3g_clock_fsm(st);
        snow3g_clock_lfsr(st, 0);
}

/* next keystream word z_t (4.2) */
static uint32_t
snow3g_next(struct snow3g *st)
{
        const uint32_t z = snow3g_clock_fsm(st) ^ st->s[0];

        snow3g_clock_lfsr(st, 0);
        return z;
}

void
ref_snow3g_keystream(const uint8_t key[16], const uint8_t iv[16], uint32_t *ks, size_t nwords)
{
        struct snow3g st;

        snow3g_init(&st, key, iv);
        for (size_t i = 0; i < nwords; i++)
                ks[i] = snow3g_next(&st);
}

/* UEA2 (Document 1, section 3): bit i of the output = bit i of the input XOR keystream bit i,
 * keystream words serialised most significant bit first */
void
ref_snow3g_f8(const uint8_t key[16], const uint8_t iv[16], const uint8_t *in, uint8_t *out,
              uint64_t len_bits)
{
        struct snow3g st;
        const uint64_t nbytes = (len_bits + 7) / 8;
        const unsigned tail = (unsigned) (len_bits % 8);
        uint32_t z = 0;

        snow3g_init(&st, key, iv);
        for (uint64_t i = 0; i < nbytes; i++) {
                if ((i % 4) == 0)
                        z = snow3g_next(&st);

                uint8_t k = (uint8_t) (z >> (24 - 8 * (i % 4)));

                if (i == nbytes - 1 && tail != 0)
                        k &= (uint8_t) (0xff << (8 - tail)); /* bits past len_bits: in -> out */
                out[i] = in[i] ^ k;
        }
}

/* V * P in GF(2^64) modulo x^64 + x^4 + x^3 + x + 1 (Document 1, 4.3.2 MUL64 with c = 0x1b) */
static uint64_t
snow3g_mul64(uint64_t v, const uint64_t p)
{
        uint64_t r = 0;

        for (int i = 0; i < 64; i++) {
                if ((p >> i) & 1)
                        r ^= v;
                v = (v >> 63) ? ((v << 1) ^ 0x1b) : (v << 1); /* MUL64x */
        }
        return r;
}

/* UIA2 (Document 1, section 4) */
void
ref_snow3g_f9(const uint8_t key[16], const uint8_t iv[16], const uint8_t *msg, uint64_t len_bits,
              uint8_t tag[4])
{
        uint32_t z[5];

        ref_snow3g_keystream(key, iv, z, 5);

        const uint64_t p = ((uint64_t) z[0] << 32) | z[1];
        const uint64_t q = ((uint64_t) z[2] << 32) | z[3];
        const uint64_t nblk = (len_bits + 63) / 64; /* D - 1 */
        uint64_t eval = 0;

        for (uint64_t b = 0; b < nblk; b++) {
                const uint64_t bits_left = len_bits - 64 * b;
                const unsigned nbits = bits_left >= 64 ? 64 : (unsigned) bits_left;
                const unsigned nb = (nbits + 7) / 8;
                uint64_t m = 0;

                for (unsigned j = 0; j < nb; j++)
                        m |= (uint64_t) msg[8 * b + j] << (56 - 8 * j);
                if (nbits < 64)
                        m &= ~(uint64_t) 0 << (64 - nbits); /* zero padding of the last block */
                eval = snow3g_mul64(eval ^ m, p);
        }
        eval ^= len_bits; /* M_(D-1) = LENGTH */
        eval = snow3g_mul64(eval, q);

        const uint32_t mac = (uint32_t) (eval >> 32) ^ z[4];

        tag[0] = (uint8_t) (mac >> 24);
        tag[1] = (uint8_t) (mac >> 16);
        tag[2] = (uint8_t) (mac >> 8);
        tag[3] = (uint8_t) mac;
}

/* =========================================================================================
 * KASUMI (TS 35.202) and f8 / f9 (TS 35.201)
 * ========================================================================================= */

/*
 * S7 and S9 (TS 35.202 section 4.5).
 * frozen copy of constant table: values taken from the packed tables sso_kasumi_S7e /
 * sso_kasumi_S9e in /repo/lib/include/kasumi_internal.h, unpacked to the plain decimal form
 * of the specification (S7[i] = ((S7e[i] >> 9) ^ i) & 0x7f, S9[i] = S9e[i] & 0x1ff).
 * Constant data only; no code was taken from the library.
 */
static const uint8_t kasumi_S7[128] = {
         54,  50,  62,  56,  22,  34,  94,  96,  38,   6,  63,  93,   2,  18, 123,  33,
         55, 113,  39, 114,  21,  67,  65,  12,  47,  73,  46,  27,  25, 111, 124,  81,
         53,   9, 121,  79,  52,  60,  58,  48, 101, 127,  40, 120, 104,  70,  71,  43,
         20, 122,  72,  61,  23, 109,  13, 100,  77,   1,  16,   7,  82,  10, 105,  98,
        117, 116,  76,  11,  89, 106,   0, 125, 118,  99,  86,  69,  30,  57, 126,  87,
        112,  51,  17,   5,  95,  14,  90,  84,  91,   8,  35, 103,  32,  97,  28,  66,
        102,  31,  26,  45,  75,   4,  85,  92,  37,  74,  80,  49,  68,  29, 115,  44,
         64, 107, 108,  24, 110,  83,  36,  78,  42,  19,  15,  41,  88, 119,  59,   3,
};
static const uint16_t kasumi_S9[512] = {
        167, 239, 161, 379, 391, 334,   9, 338,  38, 226,  48, 358, 452, 385,  90, 397,
        183, 253, 147, 331, 415, 340,  51, 362, 306, 500, 262,  82, 216, 159, 356, 177,
        175, 241, 489,  37, 206,  17,   0, 333,  44, 254, 378,  58, 143, 220,  81, 400,
         95,   3, 315, 245,  54, 235, 218, 405, 472, 264, 172, 494, 371, 290, 399,  76,
        165, 197, 395, 121, 257, 480, 423, 212, 240,  28, 462, 176, 406, 507, 288, 223,
        501, 407, 249, 265,  89, 186, 221, 428, 164,  74, 440, 196, 458, 421, 350, 163,
        232, 158, 134, 354,  13, 250, 491, 142, 191,  69, 193, 425, 152, 227, 366, 135,
        344, 300, 276, 242, 437, 320, 113, 278,  11, 243,  87, 317,  36,  93, 496,  27,
        487, 446, 482,  41,  68, 156, 457, 131, 326, 403, 339,  20,  39, 115, 442, 124,
        475, 384, 508,  53, 112, 170, 479, 151, 126, 169,  73, 268, 279, 321, 168, 364,
        363, 292,  46, 499, 393, 327, 324,  24, 456, 267, 157, 460, 488, 426, 309, 229,
        439, 506, 208, 271, 349, 401, 434, 236,  16, 209, 359,  52,  56, 120, 199, 277,
        465, 416, 252, 287, 246,   6,  83, 305, 420, 345, 153, 502,  65,  61, 244, 282,
        173, 222, 418,  67, 386, 368, 261, 101, 476, 291, 195, 430,  49,  79, 166, 330,
        280, 383, 373, 128, 382, 408, 155, 495, 367, 388, 274, 107, 459, 417,  62, 454,
        132, 225, 203, 316, 234,  14, 301,  91, 503, 286, 424, 211, 347, 307, 140, 374,
         35, 103, 125, 427,  19, 214, 453, 146, 498, 314, 444, 230, 256, 329, 198, 285,
         50, 116,  78, 410,  10, 205, 510, 171, 231,  45, 139, 467,  29,  86, 505,  32,
         72,  26, 342, 150, 313, 490, 431, 238, 411, 325, 149, 473,  40, 119, 174, 355,
        185, 233, 389,  71, 448, 273, 372,  55, 110, 178, 322,  12, 469, 392, 369, 190,
          1, 109, 375, 137, 181,  88,  75, 308, 260, 484,  98, 272, 370, 275, 412, 111,
        336, 318,   4, 504, 492, 259, 304,  77, 337, 435,  21, 357, 303, 332, 483,  18,
         47,  85,  25, 497, 474, 289, 100, 269, 296, 478, 270, 106,  31, 104, 433,  84,
        414, 486, 394,  96,  99, 154, 511, 148, 413, 361, 409, 255, 162, 215, 302, 201,
        266, 351, 343, 144, 441, 365, 108, 298, 251,  34, 182, 509, 138, 210, 335, 133,
        311, 352, 328, 141, 396, 346, 123, 319, 450, 281, 429, 228, 443, 481,  92, 404,
        485, 422, 248, 297,  23, 213, 130, 466,  22, 217, 283,  70, 294, 360, 419, 127,
        312, 377,   7, 468, 194,   2, 117, 295, 463, 258, 224, 447, 247, 187,  80, 398,
        284, 353, 105, 390, 299, 471, 470, 184,  57, 200, 348,  63, 204, 188,  33, 451,
         97,  30, 310, 219,  94, 160, 129, 493,  64, 179, 263, 102, 189, 207, 114, 402,
        438, 477, 387, 122, 192,  42, 381,   5, 145, 118, 180, 449, 293, 323, 136, 380,
         43,  66,  60, 455, 341, 445, 202, 432,   8, 237,  15, 376, 436, 464,  59, 461,
};

struct kasumi_ks {
        uint16_t kl1[8], kl2[8];
        uint16_t ko1[8], ko2[8], ko3[8];
        uint16_t ki1[8], ki2[8], ki3[8];
};

static uint16_t
rol16(const uint16_t v, const unsigned n)
{
        return (uint16_t) ((v << n) | (v >> (16 - n)));
}

/* key schedule (TS 35.202 section 4.6) */
static void
kasumi_schedule(struct kasumi_ks *ks, const uint8_t key[16])
{
        static const uint16_t c[8] = { 0x0123, 0x4567, 0x89ab, 0xcdef,
                                       0xfedc, 0xba98, 0x7654, 0x3210 };
        uint16_t k[8], kp[8];

        for (int j = 0; j < 8; j++) {
                k[j] = (uint16_t) ((key[2 * j] << 8) | key[2 * j + 1]);
                kp[j] = k[j] ^ c[j];
        }
        for (int i = 0; i < 8; i++) { /* round i+1; index (i + n) & 7 is K(i+1+n) */
                ks->kl1[i] = rol16(k[i], 1);
                ks->kl2[i] = kp[(i + 2) & 7];
                ks->ko1[i] = rol16(k[(i + 1) & 7], 5);
                ks->ko2[i] = rol16(k[(i + 5) & 7], 8);
                ks->ko3[i] = rol16(k[(i + 6) & 7], 13);
                ks->ki1[i] = kp[(i + 4) & 7];
                ks->ki2[i] = kp[(i + 3) & 7];
                ks->ki3[i] = kp[(i + 7) & 7];
        }
}

/* FI (4.4): 16-bit input split 9|7, sub-key split 7|9 */
static uint16_t
kasumi_fi(const uint16_t in, const uint16_t ki)
{
        uint16_t l = in >> 7;   /* 9 bits */
        uint16_t r = in & 0x7f; /* 7 bits */
        const uint16_t ki1 = ki >> 9, ki2 = ki & 0x1ff;
        uint16_t l1, r1, l2, r2, l3, r3, l4;

        l1 = r;                                    /* 7 */
        r1 = kasumi_S9[l] ^ r;                     /* 9: S9[L0] ^ ZE(R0) */
        l2 = r1 ^ ki2;                             /* 9 */
        r2 = kasumi_S7[l1] ^ (r1 & 0x7f) ^ ki1;    /* 7: S7[L1] ^ TR(R1) ^ KI1 */
        l3 = r2;                                   /* 7 */
        r3 = kasumi_S9[l2] ^ r2;                   /* 9: S9[L2] ^ ZE(R2) */
        l4 = kasumi_S7[l3] ^ (r3 & 0x7f);          /* 7: S7[L3] ^ TR(R3) */
        return (uint16_t) ((l4 << 9) | r3);
}

/* FO (4.3) */
static uint32_t
kasumi_fo(const uint32_t in, const struct kasumi_ks *ks, const int i)
{
        uint16_t l = (uint16_t) (in >> 16), r = (uint16_t) in, t;

        t = kasumi_fi(l ^ ks->ko1[i], ks->ki1[i]) ^ r; /* R1, L1 = R0 */
        l = r;
        r = t;
        t = kasumi_fi(l ^ ks->ko2[i], ks->ki2[i]) ^ r;
        l = r;
        r = t;
        t = kasumi_fi(l ^ ks->ko3[i], ks->ki3[i]) ^ r;
        l = r;
        r = t;
        return ((uint32_t) l << 16) | r;
}

/* FL (4.2) */
static uint32_t
kasumi_fl(const uint32_t in, const struct kasumi_ks *ks, const int i)
{
        const uint16_t l = (uint16_t) (in >> 16), r = (uint16_t) in;
        const uint16_t rp = r ^ rol16(l & ks->kl1[i], 1);
        const uint16_t lp = l ^ rol16(rp | ks->kl2[i], 1);

        return ((uint32_t) lp << 16) | rp;
}

/* 8-round Feistel (4.1 / 4.2): odd rounds FO(FL()), even rounds FL(FO()) */
static uint64_t
kasumi_enc(const struct kasumi_ks *ks, const uint64_t in)
{
        uint32_t l = (uint32_t) (in >> 32), r = (uint32_t) in;

        for (int i = 0; i < 8; i++) {
                const uint32_t f = ((i & 1) == 0) ? kasumi_fo(kasumi_fl(l, ks, i), ks, i)
                                                  : kasumi_fl(kasumi_fo(l, ks, i), ks, i);
                const uint32_t nl = r ^ f;

                r = l;
                l = nl;
        }
        return ((uint64_t) l << 32) | r;
}

static uint64_t
be64(const uint8_t *p)
{
        return ((uint64_t) be32(p) << 32) | be32(p + 4);
}

static void
put_be64(uint8_t *p, const uint64_t v)
{
        for (int i = 0; i < 8; i++)
                p[i] = (uint8_t) (v >> (56 - 8 * i));
}

void
ref_kasumi_block(const uint8_t key[16], const uint8_t in[8], uint8_t out[8])
{
        struct kasumi_ks ks;

        kasumi_schedule(&ks, key);
        put_be64(out, kasumi_enc(&ks, be64(in)));
}

/* f8 (TS 35.201 section 3): KM = 0x55.., A = KASUMI[IV]_(CK^KM),
 * KSB_n = KASUMI[A ^ (n-1) ^ KSB_(n-1)]_CK, KSB_0 = 0 */
void
ref_kasumi_f8(const uint8_t key[16], const uint8_t iv[8], const uint8_t *in, uint8_t *out,
              uint64_t len_bits)
{
        struct kasumi_ks ks, ksm;
        uint8_t km[16];
        const uint64_t nbytes = (len_bits + 7) / 8;
        const unsigned tail = (unsigned) (len_bits % 8);
        uint64_t ksb = 0, blkcnt = 0;

        for (int i = 0; i < 16; i++)
                km[i] = key[i] ^ 0x55;
        kasumi_schedule(&ks, key);
        kasumi_schedule(&ksm, km);

        const uint64_t a = kasumi_enc(&ksm, be64(iv));

        for (uint64_t i = 0; i < nbytes; i++) {
                if ((i % 8) == 0)
                        ksb = kasumi_enc(&ks, a ^ blkcnt++ ^ ksb);

                uint8_t k = (uint8_t) (ksb >> (56 - 8 * (i % 8)));

                if (i == nbytes - 1 && tail != 0)
                        k &= (uint8_t) (0xff << (8 - tail)); /* bits past len_bits: in -> out */
                out[i] = in[i] ^ k;
        }
}

/* f9 (TS 35.201 section 4) over the already built padded string PS; a final partial 64-bit block
 * is completed with zero bits (PS is by definition padded with 0 bits to a multiple of 64) */
void
ref_kasumi_f9(const uint8_t key[16], const uint8_t *msg, size_t len, uint8_t tag[4])
{
        struct kasumi_ks ks, ksm;
        uint8_t km[16];
        uint64_t a = 0, b = 0;

        for (int i = 0; i < 16; i++)
                km[i] = key[i] ^ 0xaa;
        kasumi_schedule(&ks, key);
        kasumi_schedule(&ksm, km);

        for (size_t off = 0; off < len; off += 8) {
                uint64_t ps = 0;
                const size_t n = (len - off) >= 8 ? 8 : (len - off);

                for (size_t j = 0; j < n; j++)
                        ps |= (uint64_t) msg[off + j] << (56 - 8 * j);
                a = kasumi_enc(&ks, a ^ ps);
                b ^= a;
        }
        b = kasumi_enc(&ksm, b);
        tag[0] = (uint8_t) (b >> 56);
        tag[1] = (uint8_t) (b >> 48);
        tag[2] = (uint8_t) (b >> 40);
        tag[3] = (uint8_t) (b >> 32);
}

/* =========================================================================================
 * self-test
 * ========================================================================================= */

#define ST_MAXLEN 160 /* longest embedded message / padded string in bytes */

static size_t
st_hex(const char *hex, uint8_t *out, const size_t max)
{
        size_t n = 0;

        while (hex[0] != '\0' && hex[1] != '\0' && n < max) {
                unsigned v = 0;

                for (int i = 0; i < 2; i++) {
                        const char ch = hex[i];

                        v <<= 4;
                        if (ch >= '0' && ch <= '9')
                                v |= (unsigned) (ch - '0');
                        else if (ch >= 'a' && ch <= 'f')
                                v |= (unsigned) (ch - 'a' + 10);
                        else if (ch >= 'A' && ch <= 'F')
                                v |= (unsigned) (ch - 'A' + 10);
                }
                out[n++] = (uint8_t) v;
                hex += 2;
        }
        return n;
}

/* a * b in GF(2^8) modulo x^8 + (poly) */
static uint8_t
st_gf8_mul(uint8_t a, uint8_t b, const uint8_t poly)
{
        uint8_t r = 0;

        while (b != 0) {
                if (b & 1)
                        r ^= a;
                a = mulx(a, poly);
                b >>= 1;
        }
        return r;
}

static uint8_t
st_gf8_pow(const uint8_t a, const unsigned e, const uint8_t poly)
{
        uint8_t r = 1;

        for (unsigned i = 0; i < e; i++)
                r = st_gf8_mul(r, a, poly);
        return r;
}

static uint8_t
st_mulxpow(uint8_t v, const unsigned i, const uint8_t c)
{
        for (unsigned j = 0; j < i; j++)
                v = mulx(v, c);
        return v;
}

/* regenerate the SNOW 3G tables from their definitions and compare; check that the KASUMI
 * S-boxes are permutations */
static int
st_tables(void)
{
        static const unsigned g49[9] = { 1, 9, 13, 15, 33, 41, 45, 47, 49 };
        int fails = 0;

        for (unsigned x = 0; x < 256; x++) {
                /* Rijndael S-box: inverse modulo x^8+x^4+x^3+x+1, then the affine map */
                const uint8_t inv = (x == 0) ? 0 : st_gf8_pow((uint8_t) x, 254, 0x1b);
                uint8_t sr = 0, sq = 0x25;

                for (unsigned i = 0; i < 8; i++) {
                        const unsigned b = ((inv >> i) ^ (inv >> ((i + 4) % 8)) ^
                                            (inv >> ((i + 5) % 8)) ^ (inv >> ((i + 6) % 8)) ^
                                            (inv >> ((i + 7) % 8)) ^ (0x63 >> i)) & 1;

                        sr |= (uint8_t) (b << i);
                }
                /* S_Q(x) = g49(x) + 0x25 in GF(2^8) modulo x^8+x^6+x^5+x^3+1 */
                for (unsigned i = 0; i < 9; i++)
                        sq ^= st_gf8_pow((uint8_t) x, g49[i], 0x69);

                const uint8_t c = (uint8_t) x;
                const uint32_t mula = ((uint32_t) st_mulxpow(c, 23, 0xa9) << 24) |
                                      ((uint32_t) st_mulxpow(c, 245, 0xa9) << 16) |
                                      ((uint32_t) st_mulxpow(c, 48, 0xa9) << 8) |
                                      st_mulxpow(c, 239, 0xa9);
                const uint32_t diva = ((uint32_t) st_mulxpow(c, 16, 0xa9) << 24) |
                                      ((uint32_t) st_mulxpow(c, 39, 0xa9) << 16) |
                                      ((uint32_t) st_mulxpow(c, 6, 0xa9) << 8) |
                                      st_mulxpow(c, 64, 0xa9);

                if (sr != snow3g_SR[x] || sq != snow3g_SQ[x] || mula != snow3g_MULa[x] ||
                    diva != snow3g_DIVa[x]) {
                        fprintf(stderr, "ref_3g: SNOW3G table entry %u differs from definition\n",
                                x);
                        fails++;
                }
        }

        uint8_t seen7[128] = { 0 }, seen9[512] = { 0 };

        for (unsigned i = 0; i < 128; i++)
                if (kasumi_S7[i] >= 128 || seen7[kasumi_S7[i]]++)
                        fails++;
        for (unsigned i = 0; i < 512; i++)
                if (kasumi_S9[i] >= 512 || seen9[kasumi_S9[i]]++)
                        fails++;
        if (fails)
                fprintf(stderr, "ref_3g: table check failed (%d)\n", fails);
        return fails;
}

/* ---- SNOW 3G keystream: Document 3 (Implementors' Test Data), section 4, test sets 1, 2
 * and 4 (the last one with z2500). Published as words k0 k1 k2 k3 and IV0 IV1 IV2 IV3, i.e. the
 * reverse word order of the K3|K2|K1|K0 / IV3|IV2|IV1|IV0 byte strings used by f8/f9 and by this
 * API. The UEA2 vectors further down check another five keystreams (plaintext ^ ciphertext). */
struct st_snow3g_ks {
        const char *key_k0_k3;
        const char *iv_iv0_iv3;
        uint32_t z1, z2;
        unsigned far_idx; /* 0 = none, else z_far_idx (1-based) */
        uint32_t far_z;
};

static const struct st_snow3g_ks st_snow3g_ks_vec[] = {
        { "2bd6459f82c5b300952c49104881ff48", "ea024714ad5c4d84df1f9b251c0bf45f", 0xabee9704,
          0x7ac31373, 0, 0 },
        { "8ce33e2cc3c0b5fc1f3de8a6dc66b1f3", "d3c5d592327fb11cde551988ceb2f9b7", 0xeff8a342,
          0xf751480f, 0, 0 },
        { "0ded7263109cf92e3352255a140e0f76", "6b68079a41a7c4c91befd79f7fdcc233", 0xd712c05c,
          0xa937c2a6, 2500, 0x9c0db3aa },
};

static void
st_rev_words(const uint8_t in[16], uint8_t out[16])
{
        for (int w = 0; w < 4; w++)
                memcpy(out + 4 * w, in + 4 * (3 - w), 4);
}

static int
st_snow3g_keystream(void)
{
        int fails = 0;

        for (size_t n = 0; n < sizeof(st_snow3g_ks_vec) / sizeof(st_snow3g_ks_vec[0]); n++) {
                const struct st_snow3g_ks *v = &st_snow3g_ks_vec[n];
                uint8_t t[16], key[16], iv[16];
                static uint32_t z[2500];
                const size_t nz = v->far_idx ? v->far_idx : 2;

                st_hex(v->key_k0_k3, t, 16);
                st_rev_words(t, key);
                st_hex(v->iv_iv0_iv3, t, 16);
                st_rev_words(t, iv);
                ref_snow3g_keystream(key, iv, z, nz);
                if (z[0] != v->z1 || z[1] != v->z2 ||
                    (v->far_idx && z[v->far_idx - 1] != v->far_z)) {
                        fprintf(stderr, "ref_3g: SNOW3G keystream vector %zu FAILED\n", n + 1);
                        fails++;
                }
        }
        return fails;
}

/* ---- f8 vectors: { length in bits, key, IV (library layout), plaintext, ciphertext } */
struct st_f8 {
        unsigned bits;
        const char *key, *iv, *pt, *ct;
};

/* UEA2: Document 3 section 2 (also test/kat-app/snow3g_test_f8_vectors.json.c); IV as built by
 * snow3g_f8_iv_gen(COUNT, BEARER, DIRECTION) */
static const struct st_f8 st_snow3g_f8_vec[] = {
        { 798,
          "2bd6459f82c5b300952c49104881ff48",
          "72a4f20f6400000072a4f20f64000000",
          "7ec61272743bf1614726446a6c38ced166f6ca76eb5430044286346cef130f92922b03450d3a9975"
          "e5bd2ea0eb55ad8e1b199e3ec4316020e9a1b285e762795359b7bdfd39bef4b2484583d5afe082ae"
          "e638bf5fd5a606193901a08f4ab41aab9b134880",
          "8ceba62943dced3a0990b06ea1b0a2c4fb3cedc71b369f42ba64c1eb6665e72aa1c9bb0deaa20fe8"
          "6058b8baee2c2e7f0becce48b52932a53c9d5f931a3a7c532259af4325e2a65e3084ad5f6a513b7b"
          "ddc1b65f0aa0d97a053db55a88c4c4f9605e4140" },
        { 120,
          "5acb1d644c0d51204ea5f1451010d852",
          "fa556b261c000000fa556b261c000000",
          "ad9c441f890b38c457a49d421407e8",
          "ba0f31300334c56b52a7497cbac046" },
        { 510,
          "efa8b2229e720c2a7c36ea55e9605695",
          "e28bcf7bc0000000e28bcf7bc0000000",
          "10111231e060253a43fd3f57e37607ab2827b599b6b1bbda37a8abcc5a8c550d1bfb2f494624fb50"
          "367fa36ce3bc68f11cf93b1510376b02130f812a9fa169d8",
          "e0da15ca8e2554f5e56c9468dc6c7c129c568aa5032317e04e0729646cabefa689864c410f24f919"
          "e61e3dfdfad77e560db0a9cd36c34ae4181490b29f5fa2fc" },
        { 253,
          "d3c5d592327fb11c4035c6680af8c6d1",
          "398a59b42c000000398a59b42c000000",
          "981ba6824c1bfb1ab485472029b71d808ce33e2cc3c0b5fc1f3de8a6dc66b1f0",
          "989b719cdc33ceb7cf276a52827cef94a56c40c0ab9d81f7a2a9bac60e11c4b0" },
        { 837,
          "6090eae04c83706eecbf652be8e36566",
          "72a4f20f4800000072a4f20f48000000",
          "40981ba6824c1bfb4286b299783daf442c099f7ab0f58d5c8e46b104f08f01b41ab485472029b71d"
          "36bd1a3d90dc3a41b46d51672ac4c9663a2be063da4bc8d2808ce33e2cccbfc634e1b259060876a0"
          "fbb5a437ebcc8d31c19e4454318745e3987645987a986f2cb0",
          "5892bba88bbbcaaeae769aa06b683d3a17cc04a369881697435e44fed5ff9af57b9e890d4d5c6470"
          "9885d48ae40690ec043baae9705796e4a9ff5a4b8d8b36d7f3fe57cc6cfd6cd005cd3852a85e94ce"
          "6bcd90d0d07839ce09733544ca8e350843248550922ac12818" },
};

/* KASUMI f8: TS 35.203 section 4 test sets 1-5 (also test/kat-app/kasumi_f8.json.c); IV as built
 * by kasumi_f8_iv_gen(COUNT, BEARER, DIRECTION) */
static const struct st_f8 st_kasumi_f8_vec[] = {
        { 798,
          "2bd6459f82c5b300952c49104881ff48",
          "72a4f20f64000000",
          "7ec61272743bf1614726446a6c38ced166f6ca76eb5430044286346cef130f92922b03450d3a9975"
          "e5bd2ea0eb55ad8e1b199e3ec4316020e9a1b285e762795359b7bdfd39bef4b2484583d5afe082ae"
          "e638bf5fd5a606193901a08f4ab41aab9b134883",
          "d1e2de70eef86c6964fb542bc2d460aabfaa10a4a093262b7d199e706fc2d4891553296910f3a973"
          "012682e41c4e2b02be2017b7253bbf9309de5819cb42e81956f4c99bc9765caf53b1d0bb8279826a"
          "dbbc5522e915c120a618a5a7f5e897089339650f" },
        { 510,
          "efa8b2229e720c2a7c36ea55e9605695",
          "e28bcf7bc0000000",
          "10111231e060253a43fd3f57e37607ab2827b599b6b1bbda37a8abcc5a8c550d1bfb2f494624fb50"
          "367fa36ce3bc68f11cf93b1510376b02130f812a9fa169db",
          "3deacc7c15821caa89eecade9b5bd3614bd0c8419d710385ddbe5849ef1bac5ae8b14a5b0a674152"
          "1eb4e00bb9ecf3e9f7ccb9cae74152d7f4e2a034b6ea00ef" },
        { 253,
          "d3c5d592327fb11c4035c6680af8c6d1",
          "398a59b42c000000",
          "981ba6824c1bfb1ab485472029b71d808ce33e2cc3c0b5fc1f3de8a6dc66b1f7",
          "5bb9431bb1e98bd11b93db7c3d45136559bb86a295aa204ecbebf6f7a5101517" },
        { 120,
          "5acb1d644c0d51204ea5f1451010d852",
          "fa556b261c000000",
          "ad9c441f890b38c457a49d421407e8",
          "9bc92ca803c67b28a11a4bee5a0c25" },
        { 837,
          "6090eae04c83706eecbf652be8e36566",
          "72a4f20f48000000",
          "40981ba6824c1bfb4286b299783daf442c099f7ab0f58d5c8e46b104f08f01b41ab485472029b71d"
          "36bd1a3d90dc3a41b46d51672ac4c9663a2be063da4bc8d2808ce33e2cccbfc634e1b259060876a0"
          "fbb5a437ebcc8d31c19e4454318745e3987645987a986f2cb7",
          "ddb364dd2aaec24dff291957b78bad063ac579cd9041babe89fd195c0578cb9fde4217566178d202"
          "40206d07cfa619ec059f63514459fc10d42dc9934e56ebc0cbc60d4d2df174774cbdcd5da4a35031"
          "7a7f12e1949471f8a295f272e68fc07159b07d8e2d26e4599f" },
};

typedef void (*st_f8_fn)(const uint8_t *key, const uint8_t *iv, const uint8_t *in, uint8_t *out,
                         uint64_t len_bits);

static int
st_f8(const char *name, st_f8_fn fn, const struct st_f8 *vec, const size_t nvec,
      const size_t iv_len)
{
        int fails = 0;

        for (size_t n = 0; n < nvec; n++) {
                const struct st_f8 *v = &vec[n];
                uint8_t key[16], iv[16], pt[ST_MAXLEN], ct[ST_MAXLEN], out[ST_MAXLEN + 1];
                const size_t nbytes = (v->bits + 7) / 8;
                const unsigned tail = v->bits % 8;
                const uint8_t keep = tail ? (uint8_t) (0xff >> tail) : 0; /* untouched bits */
                int bad = 0;

                st_hex(v->key, key, sizeof(key));
                st_hex(v->iv, iv, iv_len);
                bad |= st_hex(v->pt, pt, sizeof(pt)) != nbytes;
                bad |= st_hex(v->ct, ct, sizeof(ct)) != nbytes;

                /* encrypt, out of place; guard byte after the last one must stay untouched */
                memset(out, 0xa5, sizeof(out));
                fn(key, iv, pt, out, v->bits);
                bad |= memcmp(out, ct, nbytes) != 0 || out[nbytes] != 0xa5;

                /* decrypt in place with the unused bits of the last byte set: those bits must
                 * come through unchanged, the others must give the plaintext */
                memcpy(out, ct, nbytes);
                out[nbytes - 1] |= keep;
                fn(key, iv, out, out, v->bits);
                bad |= memcmp(out, pt, nbytes - 1) != 0;
                bad |= ((out[nbytes - 1] ^ pt[nbytes - 1]) & (uint8_t) ~keep) != 0;
                bad |= (out[nbytes - 1] & keep) != keep;

                if (bad) {
                        fprintf(stderr, "ref_3g: %s vector %zu (%u bits) FAILED\n", name, n + 1,
                                v->bits);
                        fails++;
                }
        }
        return fails;
}

static void
st_snow3g_f8_wrap(const uint8_t *key, const uint8_t *iv, const uint8_t *in, uint8_t *out,
                  uint64_t len_bits)
{
        ref_snow3g_f8(key, iv, in, out, len_bits);
}

static void
st_kasumi_f8_wrap(const uint8_t *key, const uint8_t *iv, const uint8_t *in, uint8_t *out,
                  uint64_t len_bits)
{
        ref_kasumi_f8(key, iv, in, out, len_bits);
}

/* ---- UIA2: Document 3 section 3 test sets 1-5 (also test/kat-app/snow3g_test_f9_vectors.json.c)
 * { length in bits, key, IV as built by snow3g_f9_iv_gen(COUNT, FRESH, DIRECTION), message,
 *   MAC } */
struct st_snow3g_f9 {
        unsigned bits;
        const char *key, *iv, *msg, *tag;
};

static const struct st_snow3g_f9 st_snow3g_f9_vec[] = {
        { 189,
          "2bd6459f82c5b300952c49104881ff48",
          "38a6f05605d2ec4938a6f05605d2ec49",
          "6b227737296f393c8079353edc87e2e805d2ec49a4f2d8e0",
          "2bce1820" },
        { 254,
          "d42f682428201cafcd9f97945e6de7b7",
          "3edc87e2a4f2d8e2bedc87e2a4f258e2",
          "b5924384328a4ae00b737109f8b6c8dd2b4db63dd533981ceb19aad52a5b2bc0",
          "fc7b18bd" },
        { 319,
          "fdb9cfdf28936cc483a31869d81b8fab",
          "36af61449838f03ab6af61449838703a",
          "5932bc0ace2b0aba33d8ac188ac54f346fad10bf9dee2920b43bd0c53a915cb7df6caa72053abff2",
          "02f1faaf" },
        { 384,
          "c736c6aab22bfff91e2698d2e22ad57e",
          "14793e410397e8fd94793e41039768fd",
          "d0a7d463df9fb2b278833fa02e235aa172bd970c1473e12907fb648b6599aaa0b24a038665422b20"
          "a499276a50427009",
          "38b554c0" },
        { 1000,
          "f4ebec69e73eaf2eb2cf6af4b3120ffd",
          "296f393c6b227737a96f393c6b22f737",
          "10bfff839e0c71658dbb2d1707e145724f41c16f48bf403c3b18e38fd5d1663b6f6d900193e3cea8"
          "bb4f1b4f5be822032232a78d7d75238d5e6daecd3b4322cf59bc7ea84ab18811b5bfb7bc553f4fe4"
          "4478ce287a14879990d18d12ca79d2c855149021cd5ce8ca0371ca04fcce143e3d7cfee94585b588"
          "5cac46068b",
          "061745ae" },
};

static int
st_snow3g_f9(void)
{
        int fails = 0;

        for (size_t n = 0; n < sizeof(st_snow3g_f9_vec) / sizeof(st_snow3g_f9_vec[0]); n++) {
                const struct st_snow3g_f9 *v = &st_snow3g_f9_vec[n];
                uint8_t key[16], iv[16], msg[ST_MAXLEN], tag[4], out[4];
                int bad = 0;

                st_hex(v->key, key, sizeof(key));
                st_hex(v->iv, iv, sizeof(iv));
                bad |= st_hex(v->msg, msg, sizeof(msg)) != (v->bits + 7) / 8;
                st_hex(v->tag, tag, sizeof(tag));
                ref_snow3g_f9(key, iv, msg, v->bits, out);
                bad |= memcmp(out, tag, 4) != 0;

                /* bits of the last byte beyond the length must not matter */
                if (v->bits % 8) {
                        msg[(v->bits + 7) / 8 - 1] ^= (uint8_t) (0xff >> (v->bits % 8));
                        ref_snow3g_f9(key, iv, msg, v->bits, out);
                        bad |= memcmp(out, tag, 4) != 0;
                }
                if (bad) {
                        fprintf(stderr, "ref_3g: SNOW3G f9 vector %zu (%u bits) FAILED\n", n + 1,
                                v->bits);
                        fails++;
                }
        }
        return fails;
}

/* ---- KASUMI block cipher: TS 35.203 section 3 test sets 1 and 2 { key, input, output }.
 * Further block checks are derived from the five published f8 test sets below: the first 64
 * keystream bits (plaintext ^ ciphertext) equal KASUMI[KASUMI[IV]_(CK ^ 0x55..55)]_CK. */
static const char *const st_kasumi_blk_vec[][3] = {
        { "2bd6459f82c5b300952c49104881ff48", "ea024714ad5c4d84", "df1f9b251c0bf45f" },
        { "8ce33e2cc3c0b5fc1f3de8a6dc66b1f3", "d3c5d592327fb11c", "de551988ceb2f9b7" },
};

static int
st_kasumi_block(void)
{
        int fails = 0;

        for (size_t n = 0; n < sizeof(st_kasumi_blk_vec) / sizeof(st_kasumi_blk_vec[0]); n++) {
                uint8_t key[16], in[8], exp[8], out[8];

                st_hex(st_kasumi_blk_vec[n][0], key, sizeof(key));
                st_hex(st_kasumi_blk_vec[n][1], in, sizeof(in));
                st_hex(st_kasumi_blk_vec[n][2], exp, sizeof(exp));
                ref_kasumi_block(key, in, out);
                if (memcmp(out, exp, 8) != 0) {
                        fprintf(stderr, "ref_3g: KASUMI block test set %zu FAILED\n", n + 1);
                        fails++;
                }
        }

        for (size_t n = 0; n < sizeof(st_kasumi_f8_vec) / sizeof(st_kasumi_f8_vec[0]); n++) {
                const struct st_f8 *v = &st_kasumi_f8_vec[n];
                uint8_t key[16], km[16], iv[8], pt[ST_MAXLEN], ct[ST_MAXLEN], a[8], ksb[8];

                st_hex(v->key, key, sizeof(key));
                st_hex(v->iv, iv, sizeof(iv));
                st_hex(v->pt, pt, sizeof(pt));
                st_hex(v->ct, ct, sizeof(ct));
                for (int i = 0; i < 16; i++)
                        km[i] = key[i] ^ 0x55;
                ref_kasumi_block(km, iv, a);
                ref_kasumi_block(key, a, ksb);
                for (int i = 0; i < 8; i++)
                        if (ksb[i] != (pt[i] ^ ct[i])) {
                                fprintf(stderr,
                                        "ref_3g: KASUMI block check from f8 test set %zu FAILED\n",
                                        n + 1);
                                fails++;
                                break;
                        }
        }
        return fails;
}

/* ---- KASUMI f9: TS 35.203 section 5 test sets 1-5 (also test/kat-app/kasumi_f9.json.c)
 * { LENGTH of MESSAGE in bits, DIRECTION, key, complete padded string as the library takes it
 *   (COUNT | FRESH | MESSAGE | DIRECTION | 1 | 0.. to the byte boundary), MAC } */
struct st_kasumi_f9 {
        unsigned bits, dir;
        const char *key, *ps, *tag;
};

static const struct st_kasumi_f9 st_kasumi_f9_vec[] = {
        { 189, 0,
          "2bd6459f82c5b300952c49104881ff48",
          "38a6f05605d2ec496b227737296f393c8079353edc87e2e805d2ec49a4f2d8e2",
          "f63bd72c" },
        { 254, 1,
          "d42f682428201cafcd9f97945e6de7b7",
          "3edc87e2a4f2d8e2b5924384328a4ae00b737109f8b6c8dd2b4db63dd533981ceb19aad52a5b2bc3",
          "a9daf1ff" },
        { 319, 1,
          "fdb9cfdf28936cc483a31869d81b8fab",
          "36af61449838f03a5932bc0ace2b0aba33d8ac188ac54f346fad10bf9dee2920b43bd0c53a915cb7"
          "df6caa72053abff380",
          "1537d316" },
        { 384, 1,
          "c736c6aab22bfff91e2698d2e22ad57e",
          "14793e410397e8fdd0a7d463df9fb2b278833fa02e235aa172bd970c1473e12907fb648b6599aaa0"
          "b24a038665422b20a499276a50427009c0",
          "dd7dfadd" },
        { 1000, 1,
          "f4ebec69e73eaf2eb2cf6af4b3120ffd",
          "296f393c6b22773710bfff839e0c71658dbb2d1707e145724f41c16f48bf403c3b18e38fd5d1663b"
          "6f6d900193e3cea8bb4f1b4f5be822032232a78d7d75238d5e6daecd3b4322cf59bc7ea84ab18811"
          "b5bfb7bc553f4fe44478ce287a14879990d18d12ca79d2c855149021cd5ce8ca0371ca04fcce143e"
          "3d7cfee94585b5885cac46068bc0",
          "c383839d" },
};

/* build the f9 input string of TS 35.201 section 4.3 from its parameters: documents (and
 * checks) how COUNT/FRESH/MESSAGE/DIRECTION map onto the string the library is given.
 * Returns the number of bytes up to and including the byte holding the '1' padding bit. */
static size_t
st_kasumi_f9_build(const uint8_t count_fresh[8], const uint8_t *message, const unsigned bits,
                   const unsigned dir, uint8_t *ps)
{
        const size_t total_bits = 64 + (size_t) bits + 2;
        const size_t n = (total_bits + 7) / 8;
        size_t pos = 64 + (size_t) bits; /* bit position of DIRECTION */

        memset(ps, 0, n);
        memcpy(ps, count_fresh, 8);
        memcpy(ps + 8, message, (bits + 7) / 8);
        if (bits % 8)
                ps[8 + bits / 8] &= (uint8_t) (0xff << (8 - bits % 8));
        if (dir)
                ps[pos / 8] |= (uint8_t) (0x80 >> (pos % 8));
        pos++;
        ps[pos / 8] |= (uint8_t) (0x80 >> (pos % 8));
        return n;
}

static int
st_kasumi_f9(void)
{
        int fails = 0;

        for (size_t n = 0; n < sizeof(st_kasumi_f9_vec) / sizeof(st_kasumi_f9_vec[0]); n++) {
                const struct st_kasumi_f9 *v = &st_kasumi_f9_vec[n];
                uint8_t key[16], ps[ST_MAXLEN + 8], built[ST_MAXLEN + 8], tag[4], out[4];
                int bad = 0;

                st_hex(v->key, key, sizeof(key));
                memset(ps, 0, sizeof(ps));

                const size_t len = st_hex(v->ps, ps, ST_MAXLEN);

                st_hex(v->tag, tag, sizeof(tag));

                /* as the library's test vectors pass it (possibly not a multiple of 8 bytes) */
                ref_kasumi_f9(key, ps, len, out);
                bad |= memcmp(out, tag, 4) != 0;

                /* explicitly zero padded to the 64-bit boundary: same result */
                ref_kasumi_f9(key, ps, (len + 7) & ~(size_t) 7, out);
                bad |= memcmp(out, tag, 4) != 0;

                /* rebuilt from COUNT, FRESH, MESSAGE, LENGTH, DIRECTION */
                const size_t blen = st_kasumi_f9_build(ps, ps + 8, v->bits, v->dir, built);

                bad |= blen != len || memcmp(built, ps, len) != 0;

                if (bad) {
                        fprintf(stderr, "ref_3g: KASUMI f9 vector %zu (%u bits) FAILED\n", n + 1,
                                v->bits);
                        fails++;
                }
        }
        return fails;
}

/* cross checks between the entry points and a long (64 KiB) message */
static int
st_consistency(void)
{
        static uint8_t in[65536 + 1], out[65536 + 1];
        static uint32_t z[65536 / 4];
        uint8_t key[16], iv[16], t1[4], t2[4];
        int fails = 0;

        st_hex("2bd6459f82c5b300952c49104881ff48", key, sizeof(key));
        st_hex("72a4f20f6400000072a4f20f64000000", iv, sizeof(iv));

        /* f8 of zeros == keystream words serialised big-endian */
        memset(in, 0, sizeof(in));
        memset(out, 0x5a, sizeof(out));
        ref_snow3g_f8(key, iv, in, out, 65536 * 8);
        ref_snow3g_keystream(key, iv, z, 65536 / 4);
        for (size_t i = 0; i < 65536; i++)
                if (out[i] != (uint8_t) (z[i / 4] >> (24 - 8 * (i % 4)))) {
                        fprintf(stderr, "ref_3g: SNOW3G f8/keystream mismatch at byte %zu\n", i);
                        fails++;
                        break;
                }
        if (out[65536] != 0x5a) {
                fprintf(stderr, "ref_3g: SNOW3G f8 wrote past the end\n");
                fails++;
        }

        /* KASUMI f8: first keystream block == KASUMI[KASUMI[IV]_(CK^0x55..)]_CK, and a prefix of a
         * long message equals the short message result (keystream does not depend on length) */
        uint8_t km[16], a[8], ksb[8];

        for (int i = 0; i < 16; i++)
                km[i] = key[i] ^ 0x55;
        ref_kasumi_block(km, iv, a);
        ref_kasumi_block(key, a, ksb);
        memset(out, 0x5a, sizeof(out));
        ref_kasumi_f8(key, iv, in, out, 65536 * 8);
        if (memcmp(out, ksb, 8) != 0 || out[65536] != 0x5a) {
                fprintf(stderr, "ref_3g: KASUMI f8 first block / bounds check FAILED\n");
                fails++;
        }

        uint8_t shortout[24];

        ref_kasumi_f8(key, iv, in, shortout, 24 * 8);
        if (memcmp(out, shortout, 24) != 0) {
                fprintf(stderr, "ref_3g: KASUMI f8 prefix property FAILED\n");
                fails++;
        }

        /* UIA2 / f9 run over 64 KiB (speed and bounds only) and length sensitivity */
        ref_snow3g_f9(key, iv, out, 65536 * 8, t1);
        ref_snow3g_f9(key, iv, out, 65536 * 8 - 1, t2);
        if (memcmp(t1, t2, 4) == 0)
                fails++;
        ref_kasumi_f9(key, out, 65536, t1);
        ref_kasumi_f9(key, out, 65536 - 8, t2);
        if (memcmp(t1, t2, 4) == 0)
                fails++;

        /* zero-length inputs must not touch the buffers */
        out[0] = 0x77;
        ref_snow3g_f8(key, iv, in, out, 0);
        ref_kasumi_f8(key, iv, in, out, 0);
        if (out[0] != 0x77)
                fails++;
        if (fails)
                fprintf(stderr, "ref_3g: consistency checks failed (%d)\n", fails);
        return fails;
}

int
ref_3g_selftest(void)
{
        int fails = 0;

        fails += st_tables();
        fails += st_snow3g_keystream();
        fails += st_f8("SNOW3G f8", st_snow3g_f8_wrap, st_snow3g_f8_vec,
                       sizeof(st_snow3g_f8_vec) / sizeof(st_snow3g_f8_vec[0]), 16);
        fails += st_snow3g_f9();
        fails += st_kasumi_block();
        fails += st_f8("KASUMI f8", st_kasumi_f8_wrap, st_kasumi_f8_vec,
                       sizeof(st_kasumi_f8_vec) / sizeof(st_kasumi_f8_vec[0]), 8);
        fails += st_kasumi_f9();
        fails += st_consistency();
        return fails;
}
