/* Block primitives for the reference models: AES and DES come from libcrypto's low-level API
 * (independent implementation, part of the trusted base); key schedules are own code (FIPS-197). */
#include "ref.h"
#include <string.h>
#include <stdio.h>
#include <openssl/aes.h>
#include <openssl/des.h>

struct aes_cache {
        int keylen, dir;
        uint8_t key[32];
        AES_KEY ak;
};
static __thread struct aes_cache ac[2];
static const AES_KEY *
cached(const struct ref_aes_key *k, int dir)
{
        struct aes_cache *c = &ac[dir];
        if (c->keylen != k->keylen || memcmp(c->key, k->key, (size_t) k->keylen) != 0) {
                c->keylen = k->keylen;
                memcpy(c->key, k->key, (size_t) k->keylen);
                if (dir == 0)
                        AES_set_encrypt_key(k->key, k->keylen * 8, &c->ak);
                else
                        AES_set_decrypt_key(k->key, k->keylen * 8, &c->ak);
        }
        return &c->ak;
}
void
ref_aes_enc(const void *ctx, const uint8_t in[16], uint8_t out[16])
{
        AES_encrypt(in, out, cached(ctx, 0));
}
void
ref_aes_dec(const void *ctx, const uint8_t in[16], uint8_t out[16])
{
        AES_decrypt(in, out, cached(ctx, 1));
}

/* own GF(2^8) arithmetic for the key schedule (S-box generated algebraically) */
static uint8_t sbox[256];
static int sbox_ready;
static uint8_t
gmul(uint8_t a, uint8_t b)
{
        uint8_t p = 0;
        for (int i = 0; i < 8; i++) {
                if (b & 1)
                        p ^= a;
                uint8_t hi = a & 0x80;
                a <<= 1;
                if (hi)
                        a ^= 0x1b;
                b >>= 1;
        }
        return p;
}
static void
mk_sbox(void)
{
        if (sbox_ready)
                return;
        for (int x = 0; x < 256; x++) {
                uint8_t inv = 0;
                if (x)
                        for (int y = 1; y < 256; y++)
                                if (gmul((uint8_t) x, (uint8_t) y) == 1) {
                                        inv = (uint8_t) y;
                                        break;
                                }
                uint8_t s = inv, r = inv;
                for (int i = 0; i < 4; i++) {
                        r = (uint8_t) ((r << 1) | (r >> 7));
                        s ^= r;
                }
                sbox[x] = s ^ 0x63;
        }
        sbox_ready = 1;
}
void
ref_aes_expand_enc(const uint8_t *key, int keylen, uint8_t *rk)
{
        int nk = keylen / 4, nr = nk + 6, nw = 4 * (nr + 1);
        uint8_t rcon = 1;
        mk_sbox();
        memcpy(rk, key, (size_t) keylen);
        for (int i = nk; i < nw; i++) {
                uint8_t t[4];
                memcpy(t, rk + 4 * (i - 1), 4);
                if (i % nk == 0) {
                        uint8_t x = t[0];
                        t[0] = sbox[t[1]] ^ rcon;
                        t[1] = sbox[t[2]];
                        t[2] = sbox[t[3]];
                        t[3] = sbox[x];
                        rcon = gmul(rcon, 2);
                } else if (nk > 6 && i % nk == 4) {
                        for (int j = 0; j < 4; j++)
                                t[j] = sbox[t[j]];
                }
                for (int j = 0; j < 4; j++)
                        rk[4 * i + j] = rk[4 * (i - nk) + j] ^ t[j];
        }
}
static void
inv_mix_columns(uint8_t b[16])
{
        for (int c = 0; c < 4; c++) {
                uint8_t *p = b + 4 * c, a0 = p[0], a1 = p[1], a2 = p[2], a3 = p[3];
                p[0] = gmul(a0, 14) ^ gmul(a1, 11) ^ gmul(a2, 13) ^ gmul(a3, 9);
                p[1] = gmul(a0, 9) ^ gmul(a1, 14) ^ gmul(a2, 11) ^ gmul(a3, 13);
                p[2] = gmul(a0, 13) ^ gmul(a1, 9) ^ gmul(a2, 14) ^ gmul(a3, 11);
                p[3] = gmul(a0, 11) ^ gmul(a1, 13) ^ gmul(a2, 9) ^ gmul(a3, 14);
        }
}
void
ref_aes_expand_dec(const uint8_t *key, int keylen, uint8_t *rk)
{
        uint8_t e[16 * 15];
        int nr = keylen / 4 + 6;
        ref_aes_expand_enc(key, keylen, e);
        for (int i = 0; i <= nr; i++) {
                memcpy(rk + 16 * i, e + 16 * (nr - i), 16);
                if (i != 0 && i != nr)
                        inv_mix_columns(rk + 16 * i);
        }
}

void
ref_des_enc(const void *ctx, const uint8_t in[8], uint8_t out[8])
{
        DES_key_schedule ks;
        DES_cblock k, i, o;
        memcpy(k, ctx, 8);
        memcpy(i, in, 8);
        DES_set_key_unchecked(&k, &ks);
        DES_ecb_encrypt(&i, &o, &ks, DES_ENCRYPT);
        memcpy(out, o, 8);
}
void
ref_des_dec(const void *ctx, const uint8_t in[8], uint8_t out[8])
{
        DES_key_schedule ks;
        DES_cblock k, i, o;
        memcpy(k, ctx, 8);
        memcpy(i, in, 8);
        DES_set_key_unchecked(&k, &ks);
        DES_ecb_encrypt(&i, &o, &ks, DES_DECRYPT);
        memcpy(out, o, 8);
}

static int
hexeq(const uint8_t *p, const char *hex, size_t n)
{
        for (size_t i = 0; i < n; i++) {
                unsigned v;
                sscanf(hex + 2 * i, "%2x", &v);
                if (p[i] != v)
                        return 0;
        }
        return 1;
}

int
ref_prim_selftest(void)
{
        int bad = 0;
        /* FIPS-197 appendix C */
        struct ref_aes_key k;
        uint8_t pt[16], ct[16], back[16], rk[240];
        for (int i = 0; i < 16; i++)
                pt[i] = (uint8_t) (i * 0x11);
        for (int i = 0; i < 32; i++)
                k.key[i] = (uint8_t) i;
        static const char *exp[3] = { "69c4e0d86a7b0430d8cdb78070b4c55a", "dda97ca4864cdfe06eaf70a0ec0d7191",
                                      "8ea2b7ca516745bfeafc49904b496089" };
        for (int s = 0; s < 3; s++) {
                k.keylen = 16 + 8 * s;
                ref_aes_enc(&k, pt, ct);
                if (!hexeq(ct, exp[s], 16)) {
                        fprintf(stderr, "ref_prim: AES-%d encrypt KAT failed\n", k.keylen * 8);
                        bad++;
                }
                ref_aes_dec(&k, ct, back);
                if (memcmp(back, pt, 16)) {
                        fprintf(stderr, "ref_prim: AES-%d decrypt KAT failed\n", k.keylen * 8);
                        bad++;
                }
        }
        /* FIPS-197 A.1 last round key of AES-128 for key 2b7e1516... */
        static const uint8_t k128[16] = { 0x2b, 0x7e, 0x15, 0x16, 0x28, 0xae, 0xd2, 0xa6,
                                          0xab, 0xf7, 0x15, 0x88, 0x09, 0xcf, 0x4f, 0x3c };
        ref_aes_expand_enc(k128, 16, rk);
        if (!hexeq(rk + 160, "d014f9a8c9ee2589e13f0cc8b6630ca6", 16)) {
                fprintf(stderr, "ref_prim: AES-128 key expansion failed\n");
                bad++;
        }
        /* A.2 192: last word 01002202 ; A.3 256: last word 706c631e */
        static const uint8_t k192[24] = { 0x8e, 0x73, 0xb0, 0xf7, 0xda, 0x0e, 0x64, 0x52,
                                          0xc8, 0x10, 0xf3, 0x2b, 0x80, 0x90, 0x79, 0xe5,
                                          0x62, 0xf8, 0xea, 0xd2, 0x52, 0x2c, 0x6b, 0x7b };
        ref_aes_expand_enc(k192, 24, rk);
        if (!hexeq(rk + 4 * 51, "01002202", 4)) {
                fprintf(stderr, "ref_prim: AES-192 key expansion failed\n");
                bad++;
        }
        static const uint8_t k256[32] = { 0x60, 0x3d, 0xeb, 0x10, 0x15, 0xca, 0x71, 0xbe, 0x2b, 0x73, 0xae,
                                          0xf0, 0x85, 0x7d, 0x77, 0x81, 0x1f, 0x35, 0x2c, 0x07, 0x3b, 0x61,
                                          0x08, 0xd7, 0x2d, 0x98, 0x10, 0xa3, 0x09, 0x14, 0xdf, 0xf4 };
        ref_aes_expand_enc(k256, 32, rk);
        if (!hexeq(rk + 4 * 59, "706c631e", 4)) {
                fprintf(stderr, "ref_prim: AES-256 key expansion failed\n");
                bad++;
        }
        /* decrypt schedule: decrypting with it through the equivalent inverse cipher is checked
         * indirectly by jobs; here check the structural property on one key */
        uint8_t dk[240];
        ref_aes_expand_dec(k128, 16, dk);
        if (memcmp(dk, rk + 0, 0) || !hexeq(dk + 160, "2b7e151628aed2a6abf7158809cf4f3c", 16)) {
                fprintf(stderr, "ref_prim: AES dec schedule failed\n");
                bad++;
        }
        /* DES: classic vector key 133457799BBCDFF1, pt 0123456789ABCDEF -> 85E813540F0AB405 */
        static const uint8_t dkk[8] = { 0x13, 0x34, 0x57, 0x79, 0x9b, 0xbc, 0xdf, 0xf1 };
        static const uint8_t dpt[8] = { 0x01, 0x23, 0x45, 0x67, 0x89, 0xab, 0xcd, 0xef };
        uint8_t dct[8], dbk[8];
        ref_des_enc(dkk, dpt, dct);
        ref_des_dec(dkk, dct, dbk);
        if (!hexeq(dct, "85e813540f0ab405", 8) || memcmp(dbk, dpt, 8)) {
                fprintf(stderr, "ref_prim: DES KAT failed\n");
                bad++;
        }
        return bad;
}
