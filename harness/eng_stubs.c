/* engines not yet implemented */
#include "imbv.h"
#define STUB(n) int n(void) { harness_fail(#n " not implemented"); return 2; }


int eng_probe(void) { for (int c = 0; c < NCFG; c++) ev_printf("{\"ev\":\"cfg\",\"name\":\"%s\",\"variant\":\"%s\"}", g_cfgs[c].name, variant_name(g_cfg_variant[c])); return 0; }
