/* imbmon core: PRNG, event output, coverage sets, manager configurations, monitored calls (M-TRAMP),
 * guard-page allocator and fault handler (M-GUARD) */
#include "imbv.h"
#include <stdarg.h>
#include <signal.h>
#include <unistd.h>
#include <pthread.h>
#include <sys/mman.h>
#include <ucontext.h>
#include <dlfcn.h>
#include <cpuid.h>
#include <errno.h>

struct opts g_opt;
uint64_t g_violations;
long g_case_no;

/* ------------------------------------------------------------------ rng */
static uint64_t
splitmix(uint64_t *x)
{
        uint64_t z = (*x += 0x9e3779b97f4a7c15ULL);
        z = (z ^ (z >> 30)) * 0xbf58476d1ce4e5b9ULL;
        z = (z ^ (z >> 27)) * 0x94d049bb133111ebULL;
        return z ^ (z >> 31);
}
void
rng_seed(struct rng *r, uint64_t seed)
{
        for (int i = 0; i < 4; i++)
                r->s[i] = splitmix(&seed);
}
static inline uint64_t
rotl(uint64_t x, int k)
{
        return (x << k) | (x >> (64 - k));
}
uint64_t
rng_u64(struct rng *r)
{
        uint64_t *s = r->s;
        const uint64_t res = rotl(s[1] * 5, 7) * 9, t = s[1] << 17;
        s[2] ^= s[0];
        s[3] ^= s[1];
        s[1] ^= s[2];
        s[0] ^= s[3];
        s[2] ^= t;
        s[3] = rotl(s[3], 45);
        return res;
}
void
rng_bytes(struct rng *r, void *p, size_t n)
{
        uint8_t *b = p;
        while (n >= 8) {
                uint64_t v = rng_u64(r);
                memcpy(b, &v, 8);
                b += 8;
                n -= 8;
        }
        if (n) {
                uint64_t v = rng_u64(r);
                memcpy(b, &v, n);
        }
}
__attribute__((noinline, optimize("no-tree-vectorize", "no-tree-loop-distribute-patterns"))) void
plain_memset(void *p, int c, size_t n)
{
        volatile uint8_t *b = p;
        for (size_t i = 0; i < n; i++)
                b[i] = (uint8_t) c;
}
__attribute__((noinline, optimize("no-tree-vectorize", "no-tree-loop-distribute-patterns"))) void
plain_memcpy(void *d, const void *s, size_t n)
{
        volatile uint8_t *a = d;
        const volatile uint8_t *b = s;
        for (size_t i = 0; i < n; i++)
                a[i] = b[i];
}

/* ------------------------------------------------------------------ events */
static pthread_mutex_t ev_mu = PTHREAD_MUTEX_INITIALIZER;
void
ev_printf(const char *fmt, ...)
{
        va_list ap;
        pthread_mutex_lock(&ev_mu);
        va_start(ap, fmt);
        vfprintf(stdout, fmt, ap);
        va_end(ap);
        fputc('\n', stdout);
        fflush(stdout);
        pthread_mutex_unlock(&ev_mu);
}
const char *
hexs(const void *p, size_t n)
{
        static __thread char bufs[8][2 * 160 + 8];
        static __thread int idx;
        char *b = bufs[idx++ & 7];
        const uint8_t *s = p;
        size_t m = n > 160 ? 160 : n;
        for (size_t i = 0; i < m; i++)
                sprintf(b + 2 * i, "%02x", s[i]);
        b[2 * m] = 0;
        if (n > m)
                strcat(b, "..");
        return b;
}
static void
json_escape(char *dst, size_t dn, const char *src)
{
        size_t o = 0;
        for (; *src && o + 8 < dn; src++) {
                unsigned char c = (unsigned char) *src;
                if (c == '"' || c == '\\') {
                        dst[o++] = '\\';
                        dst[o++] = (char) c;
                } else if (c < 0x20) {
                        o += (size_t) snprintf(dst + o, dn - o, "\\u%04x", c);
                } else
                        dst[o++] = (char) c;
        }
        dst[o] = 0;
}
struct vkey {
        char key[200];
        uint64_t n;
};
static struct vkey vkeys[512];
static int nvkeys;
void
ev_violation(const char *prop, const char *key, const char *detail, const char *replay_json)
{
        char ek[400], ed[1600];
        int i, print = 1;
        pthread_mutex_lock(&ev_mu);
        g_violations++;
        for (i = 0; i < nvkeys; i++)
                if (!strcmp(vkeys[i].key, key))
                        break;
        if (i == nvkeys && nvkeys < (int) ARRAY_SZ(vkeys)) {
                snprintf(vkeys[i].key, sizeof vkeys[i].key, "%s", key);
                vkeys[i].n = 0;
                nvkeys++;
        }
        if (i < nvkeys && ++vkeys[i].n > 3)
                print = 0;
        pthread_mutex_unlock(&ev_mu);
        if (!print)
                return;
        json_escape(ek, sizeof ek, key);
        json_escape(ed, sizeof ed, detail ? detail : "");
        ev_printf("{\"ev\":\"violation\",\"prop\":\"%s\",\"key\":\"%s\",\"detail\":\"%s\",\"case\":%ld,"
                  "\"seed\":%llu,\"engine\":\"%s\",\"replay\":%s}",
                  prop, ek, ed, g_case_no, (unsigned long long) g_opt.seed,
                  g_opt.engine ? g_opt.engine : "", replay_json ? replay_json : "null");
}
void
ev_note(const char *what, const char *detail)
{
        char ed[1600];
        json_escape(ed, sizeof ed, detail ? detail : "");
        ev_printf("{\"ev\":\"note\",\"what\":\"%s\",\"detail\":\"%s\"}", what, ed);
}
void
harness_fail(const char *fmt, ...)
{
        char b[1024], e[1400];
        va_list ap;
        va_start(ap, fmt);
        vsnprintf(b, sizeof b, fmt, ap);
        va_end(ap);
        json_escape(e, sizeof e, b);
        ev_printf("{\"ev\":\"harness_fail\",\"detail\":\"%s\"}", e);
        fprintf(stderr, "harness failure: %s\n", b);
        cov_flush();
        _exit(2);
}

/* coverage sets */
#define COV_CLASSES 24
#define COV_SLOTS (1u << 19)
struct covcls {
        char name[40];
        uint64_t hits;
        uint64_t distinct;
        char samples[4][360];
        int nsamples;
};
static struct covcls covc[COV_CLASSES];
static int ncovc;
static uint64_t *covtab; /* hash set: value = hash (never 0) tagged by class in the low bits */
static uint64_t covtab_used;
struct counter {
        char name[48];
        uint64_t n;
};
static struct counter counters[64];
static int ncounters;
static pthread_mutex_t cov_mu = PTHREAD_MUTEX_INITIALIZER;

static uint64_t
fnv(const char *s)
{
        uint64_t h = 0xcbf29ce484222325ULL;
        for (; *s; s++)
                h = (h ^ (uint8_t) *s) * 0x100000001b3ULL;
        h ^= h >> 29;
        h *= 0xbf58476d1ce4e5b9ULL;
        h ^= h >> 32;
        return h;
}
static int
cov_class(const char *cls)
{
        for (int i = 0; i < ncovc; i++)
                if (!strcmp(covc[i].name, cls))
                        return i;
        if (ncovc == COV_CLASSES)
                return COV_CLASSES - 1;
        snprintf(covc[ncovc].name, sizeof covc[ncovc].name, "%s", cls);
        return ncovc++;
}
void
cov_hit(const char *cls, const char *fmt, ...)
{
        char b[320];
        va_list ap;
        va_start(ap, fmt);
        vsnprintf(b, sizeof b, fmt, ap);
        va_end(ap);
        pthread_mutex_lock(&cov_mu);
        if (!covtab)
                covtab = calloc(COV_SLOTS, sizeof(uint64_t));
        int c = cov_class(cls);
        covc[c].hits++;
        uint64_t h = (fnv(b) & ~0x1fULL) | (uint64_t) c;
        if (h == 0)
                h = 32;
        uint64_t i = (h >> 7) & (COV_SLOTS - 1);
        while (covtab[i] && covtab[i] != h)
                i = (i + 1) & (COV_SLOTS - 1);
        if (!covtab[i] && covtab_used < COV_SLOTS * 3 / 4) {
                covtab[i] = h;
                covtab_used++;
                covc[c].distinct++;
                if (covc[c].nsamples < 4 ||
                    (covc[c].distinct % 997) == 0) { /* a few early, then sparse replacement */
                        int k = covc[c].nsamples < 4 ? covc[c].nsamples++
                                                      : (int) (covc[c].distinct / 997) % 4;
                        snprintf(covc[c].samples[k], sizeof covc[c].samples[k], "%s", b);
                }
        }
        pthread_mutex_unlock(&cov_mu);
}
void
cov_sample(const char *cls, const char *fmt, ...)
{
        char b[360];
        va_list ap;
        va_start(ap, fmt);
        vsnprintf(b, sizeof b, fmt, ap);
        va_end(ap);
        pthread_mutex_lock(&cov_mu);
        int c = cov_class(cls);
        int k = covc[c].nsamples < 4 ? covc[c].nsamples++ : 3;
        snprintf(covc[c].samples[k], sizeof covc[c].samples[k], "%s", b);
        pthread_mutex_unlock(&cov_mu);
}
void
cov_count(const char *name, uint64_t n)
{
        /* fast path without the lock: counters are only ever appended */
        int nc = __atomic_load_n(&ncounters, __ATOMIC_ACQUIRE);
        for (int i = 0; i < nc; i++)
                if (!strcmp(counters[i].name, name)) {
                        __atomic_fetch_add(&counters[i].n, n, __ATOMIC_RELAXED);
                        return;
                }
        pthread_mutex_lock(&cov_mu);
        int i;
        for (i = 0; i < ncounters; i++)
                if (!strcmp(counters[i].name, name))
                        break;
        if (i == ncounters && ncounters < (int) ARRAY_SZ(counters)) {
                snprintf(counters[i].name, sizeof counters[i].name, "%s", name);
                counters[i].n = 0;
                __atomic_store_n(&ncounters, ncounters + 1, __ATOMIC_RELEASE);
        }
        if (i < ncounters)
                __atomic_fetch_add(&counters[i].n, n, __ATOMIC_RELAXED);
        pthread_mutex_unlock(&cov_mu);
}
extern uint64_t imbv_wrap_ncalls;
void
cov_flush(void)
{
        char e[800];
#ifdef IMBV_WRAP
        {
                extern struct {
                        const char *name;
                        const uint64_t *count;
                } imbv_wrap_table[];
                cov_count("wrapped_asm_calls", imbv_wrap_ncalls);
                cov_count("wrapped_asm_symbols", IMBV_WRAP);
                for (int i = 0; imbv_wrap_table[i].name; i++)
                        if (*imbv_wrap_table[i].count)
                                cov_hit("wrap_symbol_entered", "%s", imbv_wrap_table[i].name);
        }
#endif
        for (int c = 0; c < ncovc; c++) {
                ev_printf("{\"ev\":\"cov\",\"cls\":\"%s\",\"hits\":%llu,\"distinct\":%llu}", covc[c].name,
                          (unsigned long long) covc[c].hits, (unsigned long long) covc[c].distinct);
                for (int k = 0; k < covc[c].nsamples; k++) {
                        json_escape(e, sizeof e, covc[c].samples[k]);
                        ev_printf("{\"ev\":\"sample\",\"cls\":\"%s\",\"s\":\"%s\"}", covc[c].name, e);
                }
        }
        if (covtab) {
                /* dump hashes so that the driver can count distinct tuples across shards */
                char line[20 * 400 + 64];
                size_t o = 0;
                int nin = 0;
                for (uint64_t i = 0; i < COV_SLOTS; i++) {
                        if (!covtab[i])
                                continue;
                        o += (size_t) snprintf(line + o, sizeof line - o, "%s%llx", nin ? "," : "",
                                               (unsigned long long) covtab[i]);
                        if (++nin == 400) {
                                ev_printf("{\"ev\":\"covh\",\"h\":\"%s\"}", line);
                                o = 0;
                                nin = 0;
                        }
                }
                if (nin)
                        ev_printf("{\"ev\":\"covh\",\"h\":\"%s\"}", line);
                char names[COV_CLASSES * 48] = "";
                for (int c = 0; c < ncovc; c++) {
                        strcat(names, c ? "," : "");
                        strcat(names, "\"");
                        strcat(names, covc[c].name);
                        strcat(names, "\"");
                }
                ev_printf("{\"ev\":\"covclasses\",\"names\":[%s]}", names);
        }
        for (int i = 0; i < ncounters; i++)
                ev_printf("{\"ev\":\"count\",\"name\":\"%s\",\"n\":%llu}", counters[i].name,
                          (unsigned long long) counters[i].n);
        for (int i = 0; i < nvkeys; i++) {
                json_escape(e, sizeof e, vkeys[i].key);
                ev_printf("{\"ev\":\"violsum\",\"key\":\"%s\",\"n\":%llu}", e,
                          (unsigned long long) vkeys[i].n);
        }
}

/* ------------------------------------------------------------------ configurations */
const struct cfg g_cfgs[NCFG] = {
        { "sse/0", 0, 0 },
        { "sse/shani_off", 0, IMB_FLAG_SHANI_OFF },
        { "sse/gfni_off", 0, IMB_FLAG_GFNI_OFF },
        { "sse/both_off", 0, IMB_FLAG_SHANI_OFF | IMB_FLAG_GFNI_OFF },
        { "avx2/0", 1, 0 },
        { "avx2/shani_off", 1, IMB_FLAG_SHANI_OFF },
        { "avx2/gfni_off", 1, IMB_FLAG_GFNI_OFF },
        { "avx2/both_off", 1, IMB_FLAG_SHANI_OFF | IMB_FLAG_GFNI_OFF },
        { "avx512/0", 2, 0 },
        { "avx512/shani_off", 2, IMB_FLAG_SHANI_OFF },
        { "avx512/gfni_off", 2, IMB_FLAG_GFNI_OFF },
        { "avx512/both_off", 2, IMB_FLAG_SHANI_OFF | IMB_FLAG_GFNI_OFF },
        { "auto/0", 3, 0 },
        { "auto/shani_off", 3, IMB_FLAG_SHANI_OFF },
        { "auto/gfni_off", 3, IMB_FLAG_GFNI_OFF },
        { "auto/both_off", 3, IMB_FLAG_SHANI_OFF | IMB_FLAG_GFNI_OFF },
};
int g_cfg_variant[NCFG];
int g_nvariants;
int g_variant_cfg[16];
const char *
variant_name(int v)
{
        static const char *an[] = { "none", "sse", "avx2", "avx512" };
        static __thread char b[4][24];
        static __thread int k;
        char *o = b[k++ & 3];
        if (v < 0)
                return "unavail";
        snprintf(o, 24, "%s-t%d", an[(v >> 3) & 3], v & 7);
        return o;
}
void
cfgs_discover(void)
{
        g_nvariants = 0;
        for (int c = 0; c < NCFG; c++) {
                IMB_MGR *m = alloc_mb_mgr(g_cfgs[c].flags);
                g_cfg_variant[c] = -1;
                if (!m)
                        harness_fail("alloc_mb_mgr failed");
                switch (g_cfgs[c].arch) {
                case 0:
                        init_mb_mgr_sse(m);
                        break;
                case 1:
                        init_mb_mgr_avx2(m);
                        break;
                case 2:
                        init_mb_mgr_avx512(m);
                        break;
                default: {
                        IMB_ARCH a;
                        init_mb_mgr_auto(m, &a);
                }
                }
                if (imb_get_errno(m) == 0 && m->used_arch != IMB_ARCH_NONE) {
                        int v = (int) m->used_arch * 8 + m->used_arch_type;
                        int k;
                        g_cfg_variant[c] = v;
                        for (k = 0; k < g_nvariants; k++)
                                if (g_cfg_variant[g_variant_cfg[k]] == v)
                                        break;
                        if (k == g_nvariants)
                                g_variant_cfg[g_nvariants++] = c;
                }
                free_mb_mgr(m);
        }
        char b[512] = "";
        for (int k = 0; k < g_nvariants; k++) {
                char t[64];
                snprintf(t, sizeof t, "%s\"%s=%s\"", k ? "," : "",
                         variant_name(g_cfg_variant[g_variant_cfg[k]]), g_cfgs[g_variant_cfg[k]].name);
                strcat(b, t);
        }
        ev_printf("{\"ev\":\"variants\",\"n\":%d,\"list\":[%s]}", g_nvariants, b);
}

/* ------------------------------------------------------------------ M-TRAMP */
__thread struct callmon *g_cm;
static int g_veclevel = -1;
static void
detect_veclevel(void)
{
        unsigned a, b, c, d;
        g_veclevel = 0;
        if (__get_cpuid(1, &a, &b, &c, &d) && (c & (1u << 27)) && (c & (1u << 28))) {
                unsigned lo, hi;
                __asm__ volatile("xgetbv" : "=a"(lo), "=d"(hi) : "c"(0));
                if ((lo & 6) == 6) {
                        g_veclevel = 1;
                        if (__get_cpuid_count(7, 0, &a, &b, &c, &d) && (b & (1u << 16)) &&
                            (lo & 0xe0) == 0xe0)
                                g_veclevel = 2;
                }
        }
}
void
callmon_init(struct callmon *cm, uint64_t seed)
{
        memset(cm, 0, sizeof *cm);
        if (g_veclevel < 0)
                detect_veclevel();
        rng_seed(&cm->rng, seed ^ 0x7472616d70ULL);
        cm->mxcsr = 0x1f80;
        cm->tc.veclevel = (uint64_t) g_veclevel;
        cm->stackcopy = NULL;
        cm->cur_variant = -1;
        g_cm = cm;
}
int g_abi_cov;
/* names of exported library symbols that were entered directly through the trampoline */
static char abi_names[1024][48];
static int abi_nnames;
static pthread_mutex_t abi_mu = PTHREAD_MUTEX_INITIALIZER;
static void
abi_note_export(void *fn)
{
        Dl_info di;
        static __thread void *last[8];
        for (int i = 0; i < 8; i++)
                if (last[i] == fn)
                        return;
        static __thread int li;
        last[li++ & 7] = fn;
        if (!dladdr(fn, &di) || !di.dli_sname || di.dli_saddr != fn)
                return;
        pthread_mutex_lock(&abi_mu);
        int i;
        for (i = 0; i < abi_nnames; i++)
                if (!strcmp(abi_names[i], di.dli_sname))
                        break;
        if (i == abi_nnames && abi_nnames < 1024)
                snprintf(abi_names[abi_nnames++], sizeof abi_names[0], "%s", di.dli_sname);
        pthread_mutex_unlock(&abi_mu);
}
void
abi_flush(void)
{
        for (int i = 0; i < abi_nnames; i += 40) {
                char line[40 * 52 + 8] = "";
                for (int k = i; k < abi_nnames && k < i + 40; k++) {
                        strcat(line, k > i ? "," : "");
                        strcat(line, abi_names[k]);
                }
                ev_printf("{\"ev\":\"abi_exports\",\"names\":\"%s\"}", line);
        }
}
static const char *regn[] = { "rbx", "rbp", "r12", "r13", "r14", "r15" };
static const int regidx[] = { 1, 6, 12, 13, 14, 15 };
/* M-WRAP (wrap_common.S): records of calling-convention violations on C-to-assembly calls inside the library */
extern __thread uint64_t imbv_wrap_sp;
extern uint64_t imbv_wrap_nviol, imbv_wrap_ncalls;
extern struct {
        const char *name;
        uint64_t mask, expected, got;
} imbv_wrap_viol[256];
static uint64_t wrap_reported;
static pthread_mutex_t wrap_mu = PTHREAD_MUTEX_INITIALIZER;
static void
wrap_report(struct callmon *cm, const char *entry, uint64_t from)
{
        static const char *rn[] = { "rbx", "rbp", "r12", "r13", "r14", "r15", "rsp", "DF", "mxcsr" };
        (void) from;
        pthread_mutex_lock(&wrap_mu);
        uint64_t n = __atomic_load_n(&imbv_wrap_nviol, __ATOMIC_ACQUIRE);
        for (uint64_t i = wrap_reported; i < n && i < 256; i++) {
                char regs[80] = "", key[240], det[400];
                for (int b = 0; b < 9; b++)
                        if (imbv_wrap_viol[i].mask & (1u << b)) {
                                strcat(regs, regs[0] ? "+" : "");
                                strcat(regs, rn[b]);
                        }
                snprintf(key, sizeof key, "C18|%s|internal|%s|%s", variant_name(cm->cur_variant), imbv_wrap_viol[i].name ? imbv_wrap_viol[i].name : "?", regs);
                snprintf(det, sizeof det,
                         "assembly routine %s (called from the library's C code while the entry point %s was running) returned with %s "
                         "changed: expected %#llx got %#llx",
                         imbv_wrap_viol[i].name ? imbv_wrap_viol[i].name : "?", entry, regs, (unsigned long long) imbv_wrap_viol[i].expected,
                         (unsigned long long) imbv_wrap_viol[i].got);
                ev_violation("C18", key, det, NULL);
        }
        wrap_reported = n < 256 ? n : 256;
        pthread_mutex_unlock(&wrap_mu);
}
uint64_t
mcall(const char *name, void *fn, int nargs, ...)
{
        struct callmon *cm = g_cm;
        struct tramp_ctx *tc = &cm->tc;
        va_list ap;
        va_start(ap, nargs);
        for (int i = 0; i < nargs && i < 40; i++)
                tc->args[i] = va_arg(ap, uint64_t);
        va_end(ap);
        tc->fn = (uint64_t) fn;
        tc->nargs = (uint64_t) nargs;
        for (int i = 0; i < 6; i++)
                tc->canary[i] = rng_u64(&cm->rng) | 1;
        tc->flags = TF_ZEROVEC;
        if (cm->want_residue && cm->stackcopy) {
                tc->flags |= TF_STACK;
                tc->stackcopy = (uint64_t) cm->stackcopy;
        } else
                tc->stackcopy = 0;
        tc->mxcsr_in = cm->mxcsr;
        int mxi = -1;
        if (g_abi_cov) {
                /* enter the library with varying MXCSR: rounding modes, FTZ/DAZ, sticky exception flags set
                 * (all exceptions stay masked) - the register must come back bit for bit */
                static const uint32_t mxv[] = { 0x1f80, 0x3f80, 0x5f80, 0x7f80, 0x9f80, 0x1fc0, 0xffc0, 0x1fbf, 0x1f81, 0xffff };
                mxi = (int) rng_below(&cm->rng, ARRAY_SZ(mxv));
                tc->mxcsr_in = mxv[mxi] & 0xffff;
        }
        cm->cur_fn = name;
        cm->ncalls++;
        imbv_wrap_sp = 0; /* M-WRAP shadow stack: this call is outermost (also after a fault longjmp) */
        const uint64_t wrap_before = __atomic_load_n(&imbv_wrap_nviol, __ATOMIC_RELAXED);
        uint64_t r = imbv_tramp(tc);
        if (__atomic_load_n(&imbv_wrap_nviol, __ATOMIC_RELAXED) != wrap_before)
                wrap_report(cm, name, wrap_before);
        if (g_abi_cov) {
                cov_hit("C18", "%s|%s|ret%d|mx%d", variant_name(cm->cur_variant), name, r != 0, mxi);
                abi_note_export(fn);
        }
        /* C18 */
        unsigned bad = 0;
        char key[200], det[400];
        for (int i = 0; i < 6; i++)
                if (tc->out_gpr[regidx[i]] != tc->canary[i]) {
                        bad |= 1u << i;
                        snprintf(key, sizeof key, "C18|%s|%s|%s", variant_name(cm->cur_variant), name,
                                 regn[i]);
                        snprintf(det, sizeof det, "%s clobbered across %s: before %#llx after %#llx",
                                 regn[i], name, (unsigned long long) tc->canary[i],
                                 (unsigned long long) tc->out_gpr[regidx[i]]);
                        ev_violation("C18", key, det, NULL);
                }
        if (tc->out_gpr[7] != tc->rsp_before) {
                snprintf(key, sizeof key, "C18|%s|%s|rsp", variant_name(cm->cur_variant), name);
                snprintf(det, sizeof det, "rsp not restored by %s: before %#llx after %#llx", name,
                         (unsigned long long) tc->rsp_before, (unsigned long long) tc->out_gpr[7]);
                ev_violation("C18", key, det, NULL);
        }
        if (tc->out_rflags & 0x400) {
                snprintf(key, sizeof key, "C18|%s|%s|DF", variant_name(cm->cur_variant), name);
                ev_violation("C18", key, "direction flag set on return", NULL);
        }
        if (tc->mxcsr_out != tc->mxcsr_in) {
                snprintf(key, sizeof key, "C18|%s|%s|mxcsr", variant_name(cm->cur_variant), name);
                snprintf(det, sizeof det, "MXCSR changed by %s: before %#x after %#x", name,
                         tc->mxcsr_in, tc->mxcsr_out);
                ev_violation("C18", key, det, NULL);
        }
        (void) bad;
        return r;
}

/* ------------------------------------------------------------------ M-GUARD */
#define ARENAS_PER_SLOT 16
#define ARENA_PAGES 68 /* data pages */
#define CANARY_SPAN 192
struct gobj {
        uint8_t *p;
        size_t n;
        char kind[24];
        enum place pl;
        uint8_t *data; /* arena data start */
        uint8_t *lo, *hi; /* canary extents [lo,p) and [p+n,hi) */
};
struct gslot {
        uint8_t *arena[ARENAS_PER_SLOT]; /* base incl. leading guard page */
        struct gobj obj[ARENAS_PER_SLOT + 112];
        int nobj, narena_used;
        uint8_t *plain;
        size_t plain_sz, plain_used;
};
static struct gslot *gslots;
static int g_nslots;
static uint8_t *g_arena_lo, *g_arena_hi;
#define ARENA_BYTES ((ARENA_PAGES + 2) * PG)

static inline uint8_t
canary_at(const uint8_t *a)
{
        return (uint8_t) (0x5a + (uintptr_t) a * 7);
}
void
guard_init(int nslots)
{
        size_t total = (size_t) nslots * ARENAS_PER_SLOT * ARENA_BYTES;
        uint8_t *base = mmap(NULL, total, PROT_NONE, MAP_PRIVATE | MAP_ANONYMOUS | MAP_NORESERVE, -1, 0);
        if (base == MAP_FAILED)
                harness_fail("mmap arenas failed: %s", strerror(errno));
        g_arena_lo = base;
        g_arena_hi = base + total;
        gslots = calloc((size_t) nslots, sizeof *gslots);
        g_nslots = nslots;
        for (int s = 0; s < nslots; s++) {
                for (int a = 0; a < ARENAS_PER_SLOT; a++) {
                        uint8_t *ar = base + ((size_t) s * ARENAS_PER_SLOT + (size_t) a) * ARENA_BYTES;
                        gslots[s].arena[a] = ar;
                        if (mprotect(ar + PG, ARENA_PAGES * PG, PROT_READ | PROT_WRITE))
                                harness_fail("mprotect failed");
                }
                gslots[s].plain_sz = 1 << 20;
                gslots[s].plain = NULL;
        }
}
/* let a slot carve its PL_PLAIN objects from caller-supplied memory (shared arena of the crash engine) */
void
guard_set_plain(int slot, void *base, size_t size)
{
        gslots[slot].plain = base;
        gslots[slot].plain_sz = size;
        gslots[slot].plain_used = 0;
}

void
guard_reset_slot(int slot)
{
        struct gslot *g = &gslots[slot];
        for (int a = 0; a < g->narena_used; a++)
                mprotect(g->arena[a] + PG, ARENA_PAGES * PG, PROT_READ | PROT_WRITE);
        g->nobj = 0;
        g->narena_used = 0;
        g->plain_used = 0;
}
void *
guard_alloc(int slot, const char *kind, size_t n, size_t align, enum place pl)
{
        struct gslot *g = &gslots[slot];
        struct gobj *o;
        if (align == 0)
                align = 1;
        if (g->nobj >= (int) ARRAY_SZ(g->obj))
                harness_fail("guard: too many objects in slot %d", slot);
        o = &g->obj[g->nobj];
        snprintf(o->kind, sizeof o->kind, "%s", kind);
        o->n = n;
        o->pl = pl;
        if (pl == PL_PLAIN || n > ARENA_PAGES * PG - 2 * CANARY_SPAN) {
                if (!g->plain) {
                        g->plain = mmap(NULL, g->plain_sz, PROT_READ | PROT_WRITE,
                                        MAP_PRIVATE | MAP_ANONYMOUS, -1, 0);
                        if (g->plain == MAP_FAILED)
                                harness_fail("mmap plain failed");
                }
                size_t off = (g->plain_used + CANARY_SPAN + align - 1) & ~(align - 1);
                if (off + n + CANARY_SPAN > g->plain_sz)
                        harness_fail("guard: plain region exhausted (slot %d, %zu bytes)", slot, n);
                o->pl = PL_PLAIN;
                o->p = g->plain + off;
                o->data = g->plain;
                o->lo = g->plain + g->plain_used;
                o->hi = o->p + n + CANARY_SPAN;
                g->plain_used = off + n;
        } else {
                if (g->narena_used >= ARENAS_PER_SLOT)
                        harness_fail("guard: out of arenas in slot %d (kind %s)", slot, kind);
                uint8_t *data = g->arena[g->narena_used++] + PG;
                uint8_t *end = data + ARENA_PAGES * PG;
                o->data = data;
                if (pl == PL_END) {
                        o->p = (uint8_t *) (((uintptr_t) end - n) & ~(uintptr_t) (align - 1));
                        o->hi = end;
                        o->lo = o->p - CANARY_SPAN;
                } else {
                        o->p = data;
                        o->lo = data;
                        o->hi = o->p + n + CANARY_SPAN;
                }
        }
        for (uint8_t *q = o->lo; q < o->p; q++)
                *q = canary_at(q);
        for (uint8_t *q = o->p + n; q < o->hi; q++)
                *q = canary_at(q);
        g->nobj++;
        return o->p;
}
int
guard_check_slot(int slot, const char *what)
{
        struct gslot *g = &gslots[slot];
        int bad = 0;
        for (int i = 0; i < g->nobj; i++) {
                struct gobj *o = &g->obj[i];
                const uint8_t *q;
                for (q = o->p - 1; q >= o->lo; q--)
                        if (*q != canary_at(q))
                                break;
                if (q >= o->lo) {
                        char key[240], det[300];
                        /* find the lowest modified byte */
                        const uint8_t *lowest = q;
                        for (const uint8_t *z = o->lo; z < q; z++)
                                if (*z != canary_at(z)) {
                                        lowest = z;
                                        break;
                                }
                        snprintf(key, sizeof key, "C07|%s|write|%s|before", what, o->kind);
                        snprintf(det, sizeof det,
                                 "bytes before %s object (len %zu) modified: nearest at -%ld, farthest at "
                                 "-%ld",
                                 o->kind, o->n, (long) (o->p - q), (long) (o->p - lowest));
                        ev_violation("C07", key, det, NULL);
                        bad++;
                        for (uint8_t *z = o->lo; z < o->p; z++)
                                *z = canary_at(z);
                }
                for (q = o->p + o->n; q < o->hi; q++)
                        if (*q != canary_at(q))
                                break;
                if (q < o->hi) {
                        char key[240], det[300];
                        const uint8_t *last = q;
                        for (const uint8_t *z = o->hi - 1; z > q; z--)
                                if (*z != canary_at(z)) {
                                        last = z;
                                        break;
                                }
                        snprintf(key, sizeof key, "C07|%s|write|%s|after", what, o->kind);
                        snprintf(det, sizeof det,
                                 "bytes after %s object (len %zu) modified: first at +%ld, last at +%ld",
                                 o->kind, o->n, (long) (q - (o->p + o->n)), (long) (last - (o->p + o->n)));
                        ev_violation("C07", key, det, NULL);
                        bad++;
                        for (uint8_t *z = o->p + o->n; z < o->hi; z++)
                                *z = canary_at(z);
                }
        }
        return bad;
}
void
guard_protect_slot(int slot, int ro)
{
        struct gslot *g = &gslots[slot];
        for (int a = 0; a < g->narena_used; a++)
                mprotect(g->arena[a] + PG, ARENA_PAGES * PG, ro ? PROT_READ : (PROT_READ | PROT_WRITE));
}

/* fault handler */
__thread sigjmp_buf *g_fault_jmp;
struct fault_info g_fault;
static uint8_t altstack[1 << 16];

static void
classify(void *addr)
{
        uint8_t *a = addr;
        g_fault.slot = -1;
        g_fault.kind[0] = 0;
        if (a < g_arena_lo || a >= g_arena_hi)
                return;
        size_t idx = (size_t) (a - g_arena_lo) / ARENA_BYTES;
        int slot = (int) (idx / ARENAS_PER_SLOT);
        uint8_t *data = g_arena_lo + idx * ARENA_BYTES + PG;
        struct gslot *g = &gslots[slot];
        g_fault.slot = slot;
        for (int i = 0; i < g->nobj; i++) {
                struct gobj *o = &g->obj[i];
                if (o->data == data) {
                        snprintf(g_fault.kind, sizeof g_fault.kind, "%s", o->kind);
                        g_fault.off_from_obj_end = (long) (a - (o->p + o->n));
                        g_fault.off_from_obj_start = (long) (a - o->p);
                        g_fault.obj_len = o->n;
                        g_fault.pl = o->pl;
                        return;
                }
        }
        snprintf(g_fault.kind, sizeof g_fault.kind, "unused-arena");
}
static void
on_fault(int sig, siginfo_t *si, void *uc_)
{
        ucontext_t *uc = uc_;
        Dl_info di;
        g_fault.addr = si->si_addr;
        g_fault.is_write = (uc->uc_mcontext.gregs[REG_ERR] & 2) ? 1 : 0;
        g_fault.rip = (uint64_t) uc->uc_mcontext.gregs[REG_RIP];
        g_fault.ripsym[0] = 0;
        if (dladdr((void *) g_fault.rip, &di) && di.dli_sname)
                snprintf(g_fault.ripsym, sizeof g_fault.ripsym, "%s+%#lx", di.dli_sname,
                         (unsigned long) (g_fault.rip - (uint64_t) di.dli_saddr));
        classify(si->si_addr);
        if (g_fault_jmp) {
                sigjmp_buf *j = g_fault_jmp;
                g_fault_jmp = NULL;
                siglongjmp(*j, 1);
        }
        char b[600];
        int n = snprintf(b, sizeof b,
                         "{\"ev\":\"crash\",\"sig\":%d,\"addr\":\"%p\",\"write\":%d,\"rip\":\"%s\",\"kind\":\"%s\","
                         "\"case\":%ld,\"fn\":\"%s\"}\n",
                         sig, si->si_addr, g_fault.is_write, g_fault.ripsym, g_fault.kind, g_case_no,
                         g_cm && g_cm->cur_fn ? g_cm->cur_fn : "");
        fflush(stdout);
        if (write(1, b, (size_t) n) < 0) {
        }
        _exit(3);
}
void
fault_install(void)
{
        stack_t ss = { .ss_sp = altstack, .ss_size = sizeof altstack, .ss_flags = 0 };
        struct sigaction sa;
        sigaltstack(&ss, NULL);
        memset(&sa, 0, sizeof sa);
        sa.sa_sigaction = on_fault;
        sa.sa_flags = SA_SIGINFO | SA_ONSTACK | SA_NODEFER;
        sigaction(SIGSEGV, &sa, NULL);
        sigaction(SIGBUS, &sa, NULL);
        sigaction(SIGILL, &sa, NULL);
        sigaction(SIGFPE, &sa, NULL);
}
