/* Engine "entry" (C09): the same work item through every entry point that accepts its algorithm:
 * single-job submit (checked / no-check), asynchronous burst (checked / no-check, target at a random
 * position among decoys), synchronous cipher / hash / AEAD bursts, and the direct functions. Every
 * result is compared with the reference (hence with every other entry point). All buffers are
 * guard-placed, so the direct API is covered by M-GUARD as well (C07). */
#include "imbv.h"

#define NIT 20
static struct item *I[NIT];
static uint64_t n_ep_runs;

static void
ent_done(struct mmgr *mm, IMB_JOB *job, void *arg)
{
        struct item *it = job->user_data;
        (void) arg;
        item_check(it, job, "C09", mm, g_cm->cur_fn);
        it->user = (void *) 1;
}

static void
gen(struct item *it, int slot, const struct suite *cs, const struct suite *hs, uint64_t seed, long len, int dir,
    struct mmgr *mm, const uint8_t *ckey, const uint8_t *akey, int iv_len, int inplace)
{
        struct rng r;
        struct genopt g;
        rng_seed(&r, seed);
        genopt_default(&g);
        g.slot = slot;
        g.pl = (seed & 1) ? PL_START : PL_END;
        g.len = len;
        g.dir = dir;
        g.ckey = ckey;
        g.akey = akey;
        g.iv_len = iv_len;
        g.inplace = inplace;
        item_gen(it, cs, hs, &r, &g, mm);
        item_expect(it);
        it->user = NULL;
}

static void
check_direct(struct item *it, struct mmgr *mm, const char *ep)
{
        char ctx[80];
        snprintf(ctx, sizeof ctx, "direct:%s", ep);
        it->status_expected = IMB_STATUS_COMPLETED;
        item_check(it, NULL, "C09", mm, ctx);
        n_ep_runs++;
        cov_hit("C09", "%s|%s|%s|%s|len%u", variant_name(mm->variant), ep, cipher_name(it->cipher), hash_name(it->hash),
                (it->c_len ? it->c_len : it->h_len) > 64 ? 65 : (it->c_len ? it->c_len : it->h_len) % 17);
}

static void
not_done(struct item *it, struct mmgr *mm, const char *ep)
{
        if (!it->user) {
                char key[200];
                snprintf(key, sizeof key, "C09|%s|%s|%s|%s|not-completed", variant_name(mm->variant), ep,
                         cipher_name(it->cipher), hash_name(it->hash));
                ev_violation("C09", key, "entry point returned without completing the job", item_describe(it));
        }
}

/* ---------------------------------------------------------------- job / burst entry points */
static void
ep_jobs(struct mmgr *mm, struct mmgr *mmb, const struct suite *cs, const struct suite *hs, uint64_t seed, long len)
{
        struct rng r;
        rng_seed(&r, seed ^ 0x55);
        g_job_done = ent_done;
        for (int nocheck = 0; nocheck < 2; nocheck++) {
                gen(I[0], 0, cs, hs, seed, len, 0, mm, NULL, NULL, 0, -1);
                IMB_JOB *j = mm_get_next_job(mm);
                item_fill_job(I[0], j);
                mm_submit_job(mm, nocheck, 0);
                while (mm_flush_job(mm))
                        ;
                not_done(I[0], mm, nocheck ? "submit_job_nocheck" : "submit_job");
                n_ep_runs++;
                cov_hit("C09", "%s|%s|%s|%s", variant_name(mm->variant), nocheck ? "submit_job_nocheck" : "submit_job",
                        cipher_name(I[0]->cipher), hash_name(I[0]->hash));
        }
        /* async burst: target among decoys of the same suite */
        for (int nocheck = 0; nocheck < 2; nocheck++) {
                static const int ns[] = { 1, 2, 7, 16, 17 };
                int n = ns[rng_below(&r, ARRAY_SZ(ns))];
                int pos = (int) rng_below(&r, (uint32_t) n);
                IMB_JOB *jobs[NIT];
                if (mm_get_next_burst(mmb, (uint32_t) n, jobs) != (uint32_t) n)
                        harness_fail("entry: burst slots");
                for (int i = 0; i < n; i++) {
                        gen(I[i], i, cs, hs, i == pos ? seed : seed * 31 + (uint64_t) i + 1, i == pos ? len : -1, 0, mmb, NULL,
                            NULL, 0, -1);
                        item_fill_job(I[i], jobs[i]);
                        mcall("imb_set_session", (void *) imb_set_session, 2, (uint64_t) mmb->m, (uint64_t) jobs[i]);
                }
                mm_submit_burst(mmb, (uint32_t) n, jobs, nocheck, 0);
                while (mm_flush_burst(mmb, NIT, jobs))
                        ;
                for (int i = 0; i < n; i++)
                        not_done(I[i], mmb, nocheck ? "submit_burst_nocheck" : "submit_burst");
                n_ep_runs++;
                cov_hit("C09", "%s|%s|%s|%s|n%d|pos%d", variant_name(mm->variant),
                        nocheck ? "submit_burst_nocheck" : "submit_burst", cipher_name(I[0]->cipher), hash_name(I[0]->hash), n,
                        pos * 3 / n);
        }
        g_job_done = NULL;
}

/* synchronous bursts on caller-owned job arrays */
static void
ep_sync_burst(struct mmgr *mm, const struct suite *cs, const struct suite *hs, uint64_t seed, long len)
{
        static const int ns[] = { 1, 3, 4, 5, 8, 9, 16, 17 };
        struct rng r;
        rng_seed(&r, seed ^ 0x77);
        int kind; /* 0 cipher 1 hash 2 aead */
        if (cs && !hs && !cs->aead &&
            (cs->cipher == IMB_CIPHER_CBC || cs->cipher == IMB_CIPHER_CNTR || cs->cipher == IMB_CIPHER_ECB ||
             cs->cipher == IMB_CIPHER_CFB))
                kind = 0;
        else if (!cs && hs &&
                 (hs->hash == IMB_AUTH_HMAC_SHA_1 || hs->hash == IMB_AUTH_HMAC_SHA_224 || hs->hash == IMB_AUTH_HMAC_SHA_256 ||
                  hs->hash == IMB_AUTH_HMAC_SHA_384 || hs->hash == IMB_AUTH_HMAC_SHA_512 || hs->hash == IMB_AUTH_SHA_1 ||
                  hs->hash == IMB_AUTH_SHA_224 || hs->hash == IMB_AUTH_SHA_256 || hs->hash == IMB_AUTH_SHA_384 ||
                  hs->hash == IMB_AUTH_SHA_512 || hs->hash == IMB_AUTH_AES_CMAC || hs->hash == IMB_AUTH_AES_CMAC_BITLEN ||
                  hs->hash == IMB_AUTH_AES_CMAC_256))
                kind = 1;
        else if (cs && cs->aead && cs->cipher == IMB_CIPHER_CCM)
                kind = 2;
        else
                return;
        for (int nocheck = 0; nocheck < 2; nocheck++) {
                int n = ns[rng_below(&r, ARRAY_SZ(ns))];
                int dir = 1 + (int) rng_below(&r, 2);
                static IMB_JOB jobs[NIT];
                int pos = (int) rng_below(&r, (uint32_t) n);
                for (int i = 0; i < n; i++) {
                        gen(I[i], i, cs, hs, i == pos ? seed : seed * 131 + (uint64_t) i + 7, i == pos ? len : -1, dir, mm, NULL,
                            NULL, 0, -1);
                        item_fill_job(I[i], &jobs[i]);
                }
                uint32_t done;
                const char *ep;
                if (kind == 0) {
                        ep = nocheck ? "submit_cipher_burst_nocheck" : "submit_cipher_burst";
                        done = (uint32_t) mcall(ep, (void *) (nocheck ? mm->m->submit_cipher_burst_nocheck : mm->m->submit_cipher_burst),
                                                6, (uint64_t) mm->m, (uint64_t) jobs, (uint64_t) n, (uint64_t) cs->cipher,
                                                (uint64_t) dir, (uint64_t) cs->keylen);
                } else if (kind == 1) {
                        ep = nocheck ? "submit_hash_burst_nocheck" : "submit_hash_burst";
                        done = (uint32_t) mcall(ep, (void *) (nocheck ? mm->m->submit_hash_burst_nocheck : mm->m->submit_hash_burst), 4,
                                                (uint64_t) mm->m, (uint64_t) jobs, (uint64_t) n, (uint64_t) hs->hash);
                } else {
                        ep = nocheck ? "submit_aead_burst_nocheck" : "submit_aead_burst";
                        done = (uint32_t) mcall(ep, (void *) (nocheck ? mm->m->submit_aead_burst_nocheck : mm->m->submit_aead_burst), 6,
                                                (uint64_t) mm->m, (uint64_t) jobs, (uint64_t) n, (uint64_t) cs->cipher,
                                                (uint64_t) dir, (uint64_t) cs->keylen);
                }
                int err = imb_get_errno(mm->m);
                if (done != (uint32_t) n || err != 0) {
                        char key[200], det[200];
                        snprintf(key, sizeof key, "C09|%s|%s|%s|%s|burst-incomplete", variant_name(mm->variant), ep,
                                 cs ? cipher_name(cs->cipher) : "NULL", hs ? hash_name(hs->hash) : "NULL");
                        snprintf(det, sizeof det, "synchronous burst of %d jobs returned %u completed, errno %d", n, done, err);
                        ev_violation("C09", key, det, item_describe(I[pos]));
                }
                for (int i = 0; i < n; i++) {
                        char ctx[64];
                        snprintf(ctx, sizeof ctx, "%s", ep);
                        item_check(I[i], &jobs[i], "C09", mm, ctx);
                }
                n_ep_runs++;
                cov_hit("C09", "%s|%s|%s|%s|n%d", variant_name(mm->variant), ep, cs ? cipher_name(cs->cipher) : "NULL",
                        hs ? hash_name(hs->hash) : "NULL", n);
        }
}

/* ---------------------------------------------------------------- direct functions */
static void
ep_direct(struct mmgr *mm, const struct suite *cs, const struct suite *hs, uint64_t seed, long len)
{
        IMB_MGR *m = mm->m;
        struct rng r;
        rng_seed(&r, seed ^ 0x99);
        int c = cs ? (int) cs->cipher : IMB_CIPHER_NULL;
        int h = hs ? (int) hs->hash : IMB_AUTH_NULL;
        struct item *it = I[0];

        if (cs && cs->aead && c == IMB_CIPHER_GCM) {
                /* one-shot (12-byte IV) */
                for (int dir = 1; dir <= 2; dir++) {
                        gen(it, 0, cs, NULL, seed, len, dir, mm, NULL, NULL, 12, -1);
                        struct gcm_context_data *ctx = guard_alloc(0, "gcmctx", sizeof *ctx, 16, PL_PLAIN);
                        void *fn = dir == 1 ? (cs->keylen == 16 ? (void *) m->gcm128_enc : cs->keylen == 24 ? (void *) m->gcm192_enc : (void *) m->gcm256_enc)
                                            : (cs->keylen == 16 ? (void *) m->gcm128_dec : cs->keylen == 24 ? (void *) m->gcm192_dec : (void *) m->gcm256_dec);
                        mcall(dir == 1 ? "gcm_enc" : "gcm_dec", fn, 10, (uint64_t) it->k.enc, (uint64_t) ctx, (uint64_t) it->dst,
                              (uint64_t) (it->src + it->c_off), (uint64_t) it->c_len, (uint64_t) it->ivp, (uint64_t) it->aad,
                              (uint64_t) it->aad_len, (uint64_t) it->tag, (uint64_t) it->tag_len);
                        check_direct(it, mm, dir == 1 ? "gcm_enc" : "gcm_dec");
                }
                /* init (any IV length) / update in two parts / finalize */
                for (int dir = 1; dir <= 2; dir++) {
                        gen(it, 0, cs, NULL, seed + 1, len, dir, mm, NULL, NULL, 0, -1);
                        struct gcm_context_data *ctx = guard_alloc(0, "gcmctx", sizeof *ctx, 16, PL_PLAIN);
                        void *fi = cs->keylen == 16 ? (void *) m->gcm128_init_var_iv : cs->keylen == 24 ? (void *) m->gcm192_init_var_iv : (void *) m->gcm256_init_var_iv;
                        void *fu = dir == 1 ? (cs->keylen == 16 ? (void *) m->gcm128_enc_update : cs->keylen == 24 ? (void *) m->gcm192_enc_update : (void *) m->gcm256_enc_update)
                                            : (cs->keylen == 16 ? (void *) m->gcm128_dec_update : cs->keylen == 24 ? (void *) m->gcm192_dec_update : (void *) m->gcm256_dec_update);
                        void *ff = dir == 1 ? (cs->keylen == 16 ? (void *) m->gcm128_enc_finalize : cs->keylen == 24 ? (void *) m->gcm192_enc_finalize : (void *) m->gcm256_enc_finalize)
                                            : (cs->keylen == 16 ? (void *) m->gcm128_dec_finalize : cs->keylen == 24 ? (void *) m->gcm192_dec_finalize : (void *) m->gcm256_dec_finalize);
                        mcall("gcm_init_var_iv", fi, 6, (uint64_t) it->k.enc, (uint64_t) ctx, (uint64_t) it->ivp, (uint64_t) it->iv_len,
                              (uint64_t) it->aad, (uint64_t) it->aad_len);
                        uint32_t cut = it->c_len ? rng_below(&r, it->c_len + 1) : 0;
                        if (cut)
                                mcall("gcm_update", fu, 5, (uint64_t) it->k.enc, (uint64_t) ctx, (uint64_t) it->dst,
                                      (uint64_t) (it->src + it->c_off), (uint64_t) cut);
                        if (it->c_len - cut)
                                mcall("gcm_update", fu, 5, (uint64_t) it->k.enc, (uint64_t) ctx, (uint64_t) (it->dst + cut),
                                      (uint64_t) (it->src + it->c_off + cut), (uint64_t) (it->c_len - cut));
                        mcall("gcm_finalize", ff, 4, (uint64_t) it->k.enc, (uint64_t) ctx, (uint64_t) it->tag, (uint64_t) it->tag_len);
                        check_direct(it, mm, dir == 1 ? "gcm_init_update_finalize_enc" : "gcm_init_update_finalize_dec");
                }
        }
        if (hs && (h == IMB_AUTH_AES_GMAC_128 || h == IMB_AUTH_AES_GMAC_192 || h == IMB_AUTH_AES_GMAC_256)) {
                gen(it, 0, NULL, hs, seed, len, 0, mm, NULL, NULL, 0, -1);
                struct gcm_context_data *ctx = guard_alloc(0, "gcmctx", sizeof *ctx, 16, PL_PLAIN);
                int k = h == IMB_AUTH_AES_GMAC_128 ? 0 : h == IMB_AUTH_AES_GMAC_192 ? 1 : 2;
                void *fi[] = { (void *) m->gmac128_init, (void *) m->gmac192_init, (void *) m->gmac256_init };
                void *fu[] = { (void *) m->gmac128_update, (void *) m->gmac192_update, (void *) m->gmac256_update };
                void *ff[] = { (void *) m->gmac128_finalize, (void *) m->gmac192_finalize, (void *) m->gmac256_finalize };
                mcall("gmac_init", fi[k], 4, (uint64_t) it->k.a1, (uint64_t) ctx, (uint64_t) it->aivp, (uint64_t) it->aiv_len);
                uint32_t cut = it->h_len ? rng_below(&r, it->h_len + 1) : 0;
                if (cut)
                        mcall("gmac_update", fu[k], 4, (uint64_t) it->k.a1, (uint64_t) ctx, (uint64_t) (it->src + it->h_off), (uint64_t) cut);
                if (it->h_len - cut)
                        mcall("gmac_update", fu[k], 4, (uint64_t) it->k.a1, (uint64_t) ctx, (uint64_t) (it->src + it->h_off + cut),
                              (uint64_t) (it->h_len - cut));
                mcall("gmac_finalize", ff[k], 4, (uint64_t) it->k.a1, (uint64_t) ctx, (uint64_t) it->tag, (uint64_t) it->tag_len);
                check_direct(it, mm, "gmac_init_update_finalize");
        }
        if (hs && h == IMB_AUTH_GHASH) {
                gen(it, 0, NULL, hs, seed, len < 1 ? 1 : len, 0, mm, NULL, NULL, 0, -1);
                memcpy(it->tag, it->init_tag, it->tag_len);
                mcall("ghash", (void *) m->ghash, 5, (uint64_t) it->k.a1, (uint64_t) (it->src + it->h_off), (uint64_t) it->h_len,
                      (uint64_t) it->tag, (uint64_t) it->tag_len);
                check_direct(it, mm, "ghash");
        }
        if (hs && (h == IMB_AUTH_SHA_1 || h == IMB_AUTH_SHA_224 || h == IMB_AUTH_SHA_256 || h == IMB_AUTH_SHA_384 ||
                   h == IMB_AUTH_SHA_512)) {
                gen(it, 0, NULL, hs, seed, len, 0, mm, NULL, NULL, 0, -1);
                void *fn = h == IMB_AUTH_SHA_1     ? (void *) m->sha1
                           : h == IMB_AUTH_SHA_224 ? (void *) m->sha224
                           : h == IMB_AUTH_SHA_256 ? (void *) m->sha256
                           : h == IMB_AUTH_SHA_384 ? (void *) m->sha384
                                                   : (void *) m->sha512;
                mcall("sha_one_shot", fn, 3, (uint64_t) (it->src + it->h_off), (uint64_t) it->h_len, (uint64_t) it->tag);
                check_direct(it, mm, "sha_one_shot");
        }
        {
                /* CRC function pointers */
                struct {
                        int h;
                        void *fn;
                } crcs[] = { { IMB_AUTH_CRC32_ETHERNET_FCS, (void *) m->crc32_ethernet_fcs }, { IMB_AUTH_CRC32_SCTP, (void *) m->crc32_sctp },
                             { IMB_AUTH_CRC32_WIMAX_OFDMA_DATA, (void *) m->crc32_wimax_ofdma_data }, { IMB_AUTH_CRC24_LTE_A, (void *) m->crc24_lte_a },
                             { IMB_AUTH_CRC24_LTE_B, (void *) m->crc24_lte_b }, { IMB_AUTH_CRC16_X25, (void *) m->crc16_x25 },
                             { IMB_AUTH_CRC16_FP_DATA, (void *) m->crc16_fp_data }, { IMB_AUTH_CRC11_FP_HEADER, (void *) m->crc11_fp_header },
                             { IMB_AUTH_CRC10_IUUP_DATA, (void *) m->crc10_iuup_data }, { IMB_AUTH_CRC8_WIMAX_OFDMA_HCS, (void *) m->crc8_wimax_ofdma_hcs },
                             { IMB_AUTH_CRC7_FP_HEADER, (void *) m->crc7_fp_header }, { IMB_AUTH_CRC6_IUUP_HEADER, (void *) m->crc6_iuup_header } };
                for (unsigned i = 0; hs && i < ARRAY_SZ(crcs); i++)
                        if (crcs[i].h == h) {
                                gen(it, 0, NULL, hs, seed, len < 1 ? 1 : len, 0, mm, NULL, NULL, 0, -1);
                                uint32_t v = (uint32_t) mcall("crc_fn", crcs[i].fn, 2, (uint64_t) (it->src + it->h_off), (uint64_t) it->h_len);
                                memcpy(it->tag, &v, 4);
                                check_direct(it, mm, "crc_fn");
                        }
        }
        if (cs && cs->aead && c == IMB_CIPHER_CHACHA20_POLY1305) {
                for (int dir = 1; dir <= 2; dir++) {
                        gen(it, 0, cs, NULL, seed, len, dir, mm, NULL, NULL, 0, -1);
                        struct chacha20_poly1305_context_data *ctx = guard_alloc(0, "cpctx", sizeof *ctx, 16, PL_PLAIN);
                        mcall("chacha20_poly1305_init", (void *) m->chacha20_poly1305_init, 5, (uint64_t) it->k.enc, (uint64_t) ctx,
                              (uint64_t) it->ivp, (uint64_t) it->aad, (uint64_t) it->aad_len);
                        void *fu = dir == 1 ? (void *) m->chacha20_poly1305_enc_update : (void *) m->chacha20_poly1305_dec_update;
                        uint32_t cut = it->c_len ? rng_below(&r, it->c_len + 1) : 0;
                        if (cut)
                                mcall("chacha20_poly1305_update", fu, 5, (uint64_t) it->k.enc, (uint64_t) ctx, (uint64_t) it->dst,
                                      (uint64_t) (it->src + it->c_off), (uint64_t) cut);
                        if (it->c_len - cut)
                                mcall("chacha20_poly1305_update", fu, 5, (uint64_t) it->k.enc, (uint64_t) ctx, (uint64_t) (it->dst + cut),
                                      (uint64_t) (it->src + it->c_off + cut), (uint64_t) (it->c_len - cut));
                        mcall("chacha20_poly1305_finalize", (void *) m->chacha20_poly1305_finalize, 3, (uint64_t) ctx, (uint64_t) it->tag,
                              (uint64_t) it->tag_len);
                        check_direct(it, mm, dir == 1 ? "chacha20_poly1305_direct_enc" : "chacha20_poly1305_direct_dec");
                }
        }
        /* ---- ZUC-EEA3 128: 1 / 4 / n buffers (own key and IV per buffer, unequal lengths) */
        if (cs && c == IMB_CIPHER_ZUC_EEA3 && cs->keylen == 16) {
                gen(it, 0, cs, NULL, seed, len, 1, mm, NULL, NULL, 0, -1);
                mcall("eea3_1_buffer", (void *) m->eea3_1_buffer, 5, (uint64_t) it->k.enc, (uint64_t) it->ivp, (uint64_t) (it->src + it->c_off),
                      (uint64_t) it->dst, (uint64_t) it->c_len);
                check_direct(it, mm, "zuc_eea3_1_buffer");
                static const int ns[] = { 4, 1, 3, 5, 8, 9, 16, 17 };
                for (unsigned q = 0; q < 3; q++) {
                        int n = q == 0 ? 4 : ns[1 + rng_below(&r, ARRAY_SZ(ns) - 1)];
                        const void *keys[NIT], *ivs[NIT], *ins[NIT];
                        void *outs[NIT];
                        uint32_t lens[NIT];
                        for (int i = 0; i < n; i++) {
                                gen(I[i], i, cs, NULL, seed * 17 + (uint64_t) i + q * 100, i == 0 ? len : -1, 1, mm, NULL, NULL, 0, -1);
                                keys[i] = I[i]->k.enc;
                                ivs[i] = I[i]->ivp;
                                ins[i] = I[i]->src + I[i]->c_off;
                                outs[i] = I[i]->dst;
                                lens[i] = I[i]->c_len;
                        }
                        if (q == 0)
                                mcall("eea3_4_buffer", (void *) m->eea3_4_buffer, 5, (uint64_t) keys, (uint64_t) ivs, (uint64_t) ins,
                                      (uint64_t) outs, (uint64_t) lens);
                        else
                                mcall("eea3_n_buffer", (void *) m->eea3_n_buffer, 6, (uint64_t) keys, (uint64_t) ivs, (uint64_t) ins,
                                      (uint64_t) outs, (uint64_t) lens, (uint64_t) n);
                        for (int i = 0; i < n; i++)
                                check_direct(I[i], mm, q == 0 ? "zuc_eea3_4_buffer" : "zuc_eea3_n_buffer");
                }
        }
        if (hs && h == IMB_AUTH_ZUC_EIA3_BITLEN) {
                gen(it, 0, NULL, hs, seed, len < 1 ? 1 : len, 0, mm, NULL, NULL, 0, -1);
                mcall("eia3_1_buffer", (void *) m->eia3_1_buffer, 5, (uint64_t) it->k.a1, (uint64_t) it->aivp, (uint64_t) (it->src + it->h_off),
                      (uint64_t) it->h_len_bits, (uint64_t) it->tag);
                check_direct(it, mm, "zuc_eia3_1_buffer");
                int n = 1 + (int) rng_below(&r, 17);
                const void *keys[NIT], *ivs[NIT], *ins[NIT];
                uint32_t *tags[NIT];
                uint32_t lens[NIT];
                for (int i = 0; i < n; i++) {
                        gen(I[i], i, NULL, hs, seed * 19 + (uint64_t) i, i == 0 ? (len < 1 ? 1 : len) : -1, 0, mm, NULL, NULL, 0, -1);
                        keys[i] = I[i]->k.a1;
                        ivs[i] = I[i]->aivp;
                        ins[i] = I[i]->src + I[i]->h_off;
                        tags[i] = (uint32_t *) I[i]->tag;
                        lens[i] = I[i]->h_len_bits;
                }
                mcall("eia3_n_buffer", (void *) m->eia3_n_buffer, 6, (uint64_t) keys, (uint64_t) ivs, (uint64_t) ins, (uint64_t) lens,
                      (uint64_t) tags, (uint64_t) n);
                for (int i = 0; i < n; i++)
                        check_direct(I[i], mm, "zuc_eia3_n_buffer");
        }
        /* ---- SNOW3G f8: 1 / bit / 2 / 4 / 8 / n (one key) and multikey; f9 */
        if (cs && c == IMB_CIPHER_SNOW3G_UEA2_BITLEN) {
                uint8_t key[32];
                rng_bytes(&r, key, 32);
                for (int q = 0; q < 7; q++) {
                        static const int nq[] = { 1, 1, 2, 4, 8, 0, 0 };
                        int n = nq[q] ? nq[q] : 1 + (int) rng_below(&r, 16); /* documented limit: 16 packets */
                        int multikey = q == 6 || (q == 4 && rng_below(&r, 2));
                        const void *ivs[NIT], *ins[NIT];
                        void *outs[NIT];
                        const snow3g_key_schedule_t *kss[NIT];
                        uint32_t lens[NIT];
                        struct suite bs = *cs;
                        for (int i = 0; i < n; i++) {
                                struct rng gr;
                                struct genopt g;
                                rng_seed(&gr, seed * 23 + (uint64_t) i + (uint64_t) q * 1000);
                                genopt_default(&g);
                                g.slot = i;
                                g.pl = (i + q) & 1 ? PL_START : PL_END;
                                g.dir = 1;
                                g.ckey = multikey ? NULL : key;
                                g.off = 0;
                                if (q == 1) { /* bit variant: length in bits, any residue */
                                        g.len = 1 + (long) rng_below(&gr, 600);
                                        g.bits = 1;
                                } else { /* byte-length functions */
                                        g.len = (i == 0 && len > 0) ? len : 1 + (long) rng_below(&gr, 200);
                                        g.bits = 0;
                                }
                                item_gen(I[i], &bs, NULL, &gr, &g, mm);
                                if (q != 1 && (I[i]->c_len_bits & 7)) {
                                        I[i]->c_len_bits &= ~7u;
                                        if (!I[i]->c_len_bits)
                                                I[i]->c_len_bits = 8;
                                        I[i]->c_len = I[i]->c_len_bits / 8;
                                        I[i]->dst_len = I[i]->c_len;
                                }
                                if (q != 1 && I[i]->c_off_bits) {
                                        /* byte functions have no offset: regenerate without */
                                        I[i]->c_off_bits = 0;
                                }
                                item_expect(I[i]);
                                ivs[i] = I[i]->ivp;
                                ins[i] = I[i]->src;
                                outs[i] = I[i]->inplace ? I[i]->src : I[i]->dst;
                                kss[i] = I[i]->k.enc;
                                lens[i] = I[i]->c_len_bits / 8;
                        }
                        const char *ep;
                        switch (q) {
                        case 0:
                                ep = "snow3g_f8_1_buffer";
                                mcall(ep, (void *) m->snow3g_f8_1_buffer, 5, (uint64_t) kss[0], (uint64_t) ivs[0], (uint64_t) ins[0],
                                      (uint64_t) outs[0], (uint64_t) lens[0]);
                                break;
                        case 1:
                                ep = "snow3g_f8_1_buffer_bit";
                                mcall(ep, (void *) m->snow3g_f8_1_buffer_bit, 6, (uint64_t) kss[0], (uint64_t) ivs[0], (uint64_t) ins[0],
                                      (uint64_t) outs[0], (uint64_t) I[0]->c_len_bits, (uint64_t) I[0]->c_off_bits);
                                break;
                        case 2:
                                ep = "snow3g_f8_2_buffer";
                                mcall(ep, (void *) m->snow3g_f8_2_buffer, 9, (uint64_t) kss[0], (uint64_t) ivs[0], (uint64_t) ivs[1],
                                      (uint64_t) ins[0], (uint64_t) outs[0], (uint64_t) lens[0], (uint64_t) ins[1], (uint64_t) outs[1],
                                      (uint64_t) lens[1]);
                                break;
                        case 3:
                                ep = "snow3g_f8_4_buffer";
                                mcall(ep, (void *) m->snow3g_f8_4_buffer, 17, (uint64_t) kss[0], (uint64_t) ivs[0], (uint64_t) ivs[1],
                                      (uint64_t) ivs[2], (uint64_t) ivs[3], (uint64_t) ins[0], (uint64_t) outs[0], (uint64_t) lens[0],
                                      (uint64_t) ins[1], (uint64_t) outs[1], (uint64_t) lens[1], (uint64_t) ins[2], (uint64_t) outs[2],
                                      (uint64_t) lens[2], (uint64_t) ins[3], (uint64_t) outs[3], (uint64_t) lens[3]);
                                break;
                        case 4:
                                if (multikey) {
                                        ep = "snow3g_f8_8_buffer_multikey";
                                        mcall(ep, (void *) m->snow3g_f8_8_buffer_multikey, 5, (uint64_t) kss, (uint64_t) ivs, (uint64_t) ins,
                                              (uint64_t) outs, (uint64_t) lens);
                                } else {
                                        ep = "snow3g_f8_8_buffer";
                                        mcall(ep, (void *) m->snow3g_f8_8_buffer, 33, (uint64_t) kss[0], (uint64_t) ivs[0], (uint64_t) ivs[1],
                                              (uint64_t) ivs[2], (uint64_t) ivs[3], (uint64_t) ivs[4], (uint64_t) ivs[5], (uint64_t) ivs[6],
                                              (uint64_t) ivs[7], (uint64_t) ins[0], (uint64_t) outs[0], (uint64_t) lens[0], (uint64_t) ins[1],
                                              (uint64_t) outs[1], (uint64_t) lens[1], (uint64_t) ins[2], (uint64_t) outs[2], (uint64_t) lens[2],
                                              (uint64_t) ins[3], (uint64_t) outs[3], (uint64_t) lens[3], (uint64_t) ins[4], (uint64_t) outs[4],
                                              (uint64_t) lens[4], (uint64_t) ins[5], (uint64_t) outs[5], (uint64_t) lens[5], (uint64_t) ins[6],
                                              (uint64_t) outs[6], (uint64_t) lens[6], (uint64_t) ins[7], (uint64_t) outs[7], (uint64_t) lens[7]);
                                }
                                break;
                        case 5:
                                ep = "snow3g_f8_n_buffer";
                                mcall(ep, (void *) m->snow3g_f8_n_buffer, 6, (uint64_t) kss[0], (uint64_t) ivs, (uint64_t) ins, (uint64_t) outs,
                                      (uint64_t) lens, (uint64_t) n);
                                break;
                        default:
                                ep = "snow3g_f8_n_buffer_multikey";
                                mcall(ep, (void *) m->snow3g_f8_n_buffer_multikey, 6, (uint64_t) kss, (uint64_t) ivs, (uint64_t) ins,
                                      (uint64_t) outs, (uint64_t) lens, (uint64_t) n);
                        }
                        for (int i = 0; i < n; i++)
                                check_direct(I[i], mm, ep);
                }
        }
        if (hs && h == IMB_AUTH_SNOW3G_UIA2_BITLEN) {
                gen(it, 0, NULL, hs, seed, len < 1 ? 1 : len, 0, mm, NULL, NULL, 0, -1);
                mcall("snow3g_f9_1_buffer", (void *) m->snow3g_f9_1_buffer, 5, (uint64_t) it->k.a1, (uint64_t) it->aivp,
                      (uint64_t) (it->src + it->h_off), (uint64_t) it->h_len_bits, (uint64_t) it->tag);
                check_direct(it, mm, "snow3g_f9_1_buffer");
        }
        /* ---- KASUMI f8: 1 / bit / 2 / 3 / 4 / n; f9 */
        if (cs && c == IMB_CIPHER_KASUMI_UEA1_BITLEN) {
                uint8_t key[32];
                rng_bytes(&r, key, 32);
                for (int q = 0; q < 6; q++) {
                        static const int nq[] = { 1, 1, 2, 3, 4, 0 };
                        int n = nq[q] ? nq[q] : 1 + (int) rng_below(&r, 16);
                        uint64_t ivs[NIT];
                        const void *ins[NIT];
                        void *outs[NIT];
                        uint32_t lens[NIT];
                        long common = 1 + (long) rng_below(&r, 200);
                        for (int i = 0; i < n; i++) {
                                struct rng gr;
                                struct genopt g;
                                rng_seed(&gr, seed * 29 + (uint64_t) i + (uint64_t) q * 1000);
                                genopt_default(&g);
                                g.slot = i;
                                g.pl = (i + q) & 1 ? PL_START : PL_END;
                                g.dir = 1;
                                g.ckey = key;
                                g.off = 0;
                                if (q == 1) {
                                        g.len = 1 + (long) rng_below(&gr, 600);
                                        g.bits = 1;
                                } else
                                        g.len = (q == 3 || q == 4) ? common : ((i == 0 && len > 0) ? len : 1 + (long) rng_below(&gr, 200));
                                item_gen(I[i], cs, NULL, &gr, &g, mm);
                                if (q != 1) {
                                        I[i]->c_off_bits = 0;
                                        if (I[i]->c_len_bits & 7) {
                                                I[i]->c_len_bits &= ~7u;
                                                if (!I[i]->c_len_bits)
                                                        I[i]->c_len_bits = 8;
                                        }
                                        if (q == 3 || q == 4)
                                                I[i]->c_len_bits = (uint32_t) common * 8;
                                        I[i]->c_len = I[i]->c_len_bits / 8;
                                        I[i]->dst_len = I[i]->c_len;
                                }
                                item_expect(I[i]);
                                memcpy(&ivs[i], I[i]->iv, 8);
                                ins[i] = I[i]->src;
                                outs[i] = I[i]->inplace ? I[i]->src : I[i]->dst;
                                lens[i] = I[i]->c_len_bits / 8;
                        }
                        const char *ep;
                        const void *ks = I[0]->k.enc;
                        switch (q) {
                        case 0:
                                ep = "kasumi_f8_1_buffer";
                                mcall(ep, (void *) m->f8_1_buffer, 5, (uint64_t) ks, ivs[0], (uint64_t) ins[0], (uint64_t) outs[0], (uint64_t) lens[0]);
                                break;
                        case 1:
                                ep = "kasumi_f8_1_buffer_bit";
                                mcall(ep, (void *) m->f8_1_buffer_bit, 6, (uint64_t) ks, ivs[0], (uint64_t) ins[0], (uint64_t) outs[0],
                                      (uint64_t) I[0]->c_len_bits, (uint64_t) I[0]->c_off_bits);
                                break;
                        case 2:
                                ep = "kasumi_f8_2_buffer";
                                mcall(ep, (void *) m->f8_2_buffer, 9, (uint64_t) ks, ivs[0], ivs[1], (uint64_t) ins[0], (uint64_t) outs[0],
                                      (uint64_t) lens[0], (uint64_t) ins[1], (uint64_t) outs[1], (uint64_t) lens[1]);
                                break;
                        case 3:
                                ep = "kasumi_f8_3_buffer";
                                mcall(ep, (void *) m->f8_3_buffer, 11, (uint64_t) ks, ivs[0], ivs[1], ivs[2], (uint64_t) ins[0], (uint64_t) outs[0],
                                      (uint64_t) ins[1], (uint64_t) outs[1], (uint64_t) ins[2], (uint64_t) outs[2], (uint64_t) lens[0]);
                                break;
                        case 4:
                                ep = "kasumi_f8_4_buffer";
                                mcall(ep, (void *) m->f8_4_buffer, 14, (uint64_t) ks, ivs[0], ivs[1], ivs[2], ivs[3], (uint64_t) ins[0],
                                      (uint64_t) outs[0], (uint64_t) ins[1], (uint64_t) outs[1], (uint64_t) ins[2], (uint64_t) outs[2],
                                      (uint64_t) ins[3], (uint64_t) outs[3], (uint64_t) lens[0]);
                                break;
                        default:
                                ep = "kasumi_f8_n_buffer";
                                mcall(ep, (void *) m->f8_n_buffer, 6, (uint64_t) ks, (uint64_t) ivs, (uint64_t) ins, (uint64_t) outs,
                                      (uint64_t) lens, (uint64_t) n);
                        }
                        for (int i = 0; i < n; i++)
                                check_direct(I[i], mm, ep);
                }
        }
        if (hs && h == IMB_AUTH_KASUMI_UIA1) {
                gen(it, 0, NULL, hs, seed, len < 9 ? 9 : len, 0, mm, NULL, NULL, 0, -1);
                mcall("kasumi_f9_1_buffer", (void *) m->f9_1_buffer, 4, (uint64_t) it->k.a1, (uint64_t) (it->src + it->h_off),
                      (uint64_t) it->h_len, (uint64_t) it->tag);
                check_direct(it, mm, "kasumi_f9_1_buffer");
        }
        /* ---- single block CFB */
        if (cs && c == IMB_CIPHER_CFB && cs->keylen != 24) {
                for (int dir = 1; dir <= 2; dir++) {
                        gen(it, 0, cs, NULL, seed, 16, dir, mm, NULL, NULL, 0, -1);
                        void *fn = cs->keylen == 16 ? (void *) m->aes128_cfb_one : (void *) m->aes256_cfb_one;
                        /* one-block CFB accepts 1..16 bytes; use a partial block too */
                        mcall("aes_cfb_one", fn, 5, (uint64_t) it->dst, (uint64_t) (it->src + it->c_off), (uint64_t) it->ivp,
                              (uint64_t) it->k.enc, (uint64_t) it->c_len);
                        check_direct(it, mm, dir == 1 ? "aes_cfb_one_enc" : "aes_cfb_one_dec");
                }
        }
}

int
eng_entry(void)
{
        guard_init(NIT + 1);
        for (int i = 0; i < NIT; i++)
                I[i] = item_new();
        long unit = 0;
        long per = g_opt.cases / g_nvariants + 1;
        const struct suite *tabs[3] = { g_cipher_suites, g_hash_suites, g_aead_suites };
        const int ntabs[3] = { g_n_cipher_suites, g_n_hash_suites, g_n_aead_suites };
        for (int vi = 0; vi < g_nvariants; vi++) {
                int cfg = g_variant_cfg[vi];
                if (g_opt.cfg_only >= 0 && cfg != g_opt.cfg_only)
                        continue;
                struct mmgr *mm = mm_new(cfg), *mmb = mm_new(cfg);
                if (!mm || !mmb)
                        continue;
                for (long e = 0; e < per; e++, unit++) {
                        if (unit % g_opt.nshards != g_opt.shard)
                                continue;
                        struct rng r;
                        sigjmp_buf jb;
                        rng_seed(&r, g_opt.seed * 15485863 + (uint64_t) unit);
                        g_case_no = unit;
                        int fam = (int) (e % 3);
                        const struct suite *s = &tabs[fam][(e / 3) % ntabs[fam]];
                        const struct suite *cs = fam == 1 ? NULL : s, *hs = fam == 1 ? s : NULL;
                        /* lengths: mostly short, one in five beyond the by8/by16/by32 kernel main-loop thresholds (tails of long
                         * messages take other paths - and other registers - than short ones) */
                        static const long longlens[] = { 497, 500, 511, 512, 513, 767, 768, 1000, 1023, 1024, 1025, 1499, 2047, 2049, 3000, 4095, 4097, 8191 };
                        long len = rng_below(&r, 4) == 0 ? -1 : 1 + (long) rng_below(&r, 300);
                        if (rng_below(&r, 5) == 0)
                                len = rng_below(&r, 2) ? longlens[rng_below(&r, ARRAY_SZ(longlens))] : 300 + (long) rng_below(&r, 4000);
                        uint64_t seed = rng_u64(&r);
                        if (sigsetjmp(jb, 1)) {
                                char key[240], det[300];
                                snprintf(key, sizeof key, "C07|%s|%s|%s|%s|%s|via-%s", variant_name(mm->variant),
                                         cs ? cipher_name(cs->cipher) : hash_name(hs->hash), g_fault.is_write ? "write" : "read",
                                         g_fault.kind, g_fault.pl == PL_END ? "past-end" : "before-start",
                                         g_cm->cur_fn ? g_cm->cur_fn : "?");
                                snprintf(det, sizeof det, "fault in %s: %s of %s object (%zu bytes) at offset %ld from its end", g_fault.ripsym,
                                         g_fault.is_write ? "write" : "read", g_fault.kind, g_fault.obj_len, g_fault.off_from_obj_end);
                                ev_violation("C07", key, det, NULL);
                                g_job_done = NULL;
                                mm = mm_new(cfg);
                                mmb = mm_new(cfg);
                                continue;
                        }
                        g_fault_jmp = &jb;
                        ep_jobs(mm, mmb, cs, hs, seed, len);
                        ep_sync_burst(mm, cs, hs, seed, len);
                        ep_direct(mm, cs, hs, seed, len);
                        g_fault_jmp = NULL;
                        cov_count("work_items", 1);
                }
                mm_free(mm);
                mm_free(mmb);
        }
        cov_count("entry_point_runs", n_ep_runs);
        return 0;
}
