#define _GNU_SOURCE
/* Engine "residue" (C13): SAFE_DATA residue scan. One secret class (cipher key material,
 * authentication key material or plaintext) is filled with a pattern byte while everything else is
 * random; after the API call that hands back the last job in flight the trampoline's register record
 * (GPRs, vector and mask registers), the 64 KiB stack window below that call and the whole manager
 * block are scanned for 8 consecutive pattern bytes. A hit counts only if it reappears at the same
 * location when the schedule is repeated with a different pattern byte. Key helpers are scanned after
 * each call as well. */
#include "imbv.h"

#define RMAX 20
static struct item *I[RMAX];
static uint8_t pats[2] = { 0xA7, 0x4E }; /* re-chosen per manager so that a fresh manager holds no run of them */

struct hit {
        char where[24]; /* gpr / vec / kreg / stack / mgr */
        long off;
};

static int
scan_buf(const uint8_t *p, size_t n, uint8_t pat, long *off)
{
        size_t run = 0;
        for (size_t i = 0; i < n; i++) {
                if (p[i] == pat) {
                        if (++run == 8) {
                                *off = (long) (i - 7);
                                return 1;
                        }
                } else
                        run = 0;
        }
        return 0;
}

/* scan everything observable after the last call; returns number of hits (max 4 recorded) */
static int
scan_all(struct mmgr *mm, uint8_t pat, struct hit *h, int with_mgr)
{
        struct tramp_ctx *tc = &g_cm->tc;
        int n = 0;
        long off;
        /* caller-saved GPRs and return value; skip rsp (index 7) and the canary registers */
        static const int gi[] = { 0, 2, 3, 4, 5, 8, 9, 10, 11 };
        for (unsigned i = 0; i < ARRAY_SZ(gi) && n < 4; i++) {
                uint64_t v = tc->out_gpr[gi[i]];
                if (scan_buf((uint8_t *) &v, 8, pat, &off)) {
                        snprintf(h[n].where, sizeof h[n].where, "gpr%d", gi[i]);
                        h[n++].off = 0;
                }
        }
        if (n < 4 && scan_buf(tc->vec, sizeof tc->vec, pat, &off)) {
                if (g_opt.verbose)
                        fprintf(stderr, "vec hit at %ld after %s: %s\n", off, g_cm->cur_fn, hexs(tc->vec + (off / 64) * 64, 64));
                snprintf(h[n].where, sizeof h[n].where, "vec-reg%ld", off / 64);
                h[n++].off = off;
        }
        if (n < 4 && scan_buf((uint8_t *) tc->kregs, sizeof tc->kregs, pat, &off)) {
                snprintf(h[n].where, sizeof h[n].where, "kreg");
                h[n++].off = off;
        }
        if (n < 4 && g_cm->stackcopy && scan_buf(g_cm->stackcopy, TRAMP_STACK_WINDOW, pat, &off)) {
                snprintf(h[n].where, sizeof h[n].where, "stack");
                h[n++].off = off - TRAMP_STACK_WINDOW; /* relative to rsp at the call */
        }
        if (with_mgr && n < 4 && scan_buf((const uint8_t *) mm->m, imb_get_mb_mgr_size(), pat, &off)) {
                snprintf(h[n].where, sizeof h[n].where, "mgr");
                h[n++].off = off;
        }
        return n;
}

/* ---- derived secrets (class 3): values the library computes itself from the key and that are as sensitive as the
 * key - the GHASH key H = E_K(0) and the tag mask E_K(J0) of GCM-type modes, the one-time Poly1305 key of
 * ChaCha20-Poly1305, the hash key and end pad of SNOW-V-AEAD. Keys are random here (no pattern byte can mark a value
 * the library derives), the values are computed with the reference models and every observable location is searched
 * for either 8-byte half of each value; an accidental match of 64 high-entropy bits does not happen. */
struct secret {
        uint8_t v[16];
        char name[16];
};
static int derive_ghash_value(const struct item *it, struct secret *s, const uint8_t ej0[16]);
static int
derive_secrets(const struct item *it, struct secret *s)
{
        int n = 0;
        uint8_t z[16] = { 0 }, j0[16];
        const int gmac = it->hash == IMB_AUTH_AES_GMAC_128 || it->hash == IMB_AUTH_AES_GMAC_192 || it->hash == IMB_AUTH_AES_GMAC_256;
        if (it->cipher == IMB_CIPHER_GCM || it->cipher == IMB_CIPHER_GCM_SGL || gmac) {
                struct ref_aes_key ak;
                const uint8_t *iv = gmac && it->cipher != IMB_CIPHER_GCM ? it->aiv : it->iv;
                const uint32_t ivl = gmac && it->cipher != IMB_CIPHER_GCM ? it->aiv_len : it->iv_len;
                memset(&ak, 0, sizeof ak);
                if (gmac && it->cipher != IMB_CIPHER_GCM && it->cipher != IMB_CIPHER_GCM_SGL) {
                        ak.keylen = it->hash == IMB_AUTH_AES_GMAC_128 ? 16 : it->hash == IMB_AUTH_AES_GMAC_192 ? 24 : 32;
                        memcpy(ak.key, it->k.akey, (size_t) ak.keylen);
                } else {
                        ak.keylen = (int) it->keylen;
                        memcpy(ak.key, it->k.ckey, it->keylen);
                }
                ref_aes_enc(&ak, z, s[n].v);
                snprintf(s[n++].name, sizeof s[0].name, "H");
                if (ivl == 12) {
                        memcpy(j0, iv, 12);
                        j0[12] = j0[13] = j0[14] = 0;
                        j0[15] = 1;
                        ref_aes_enc(&ak, j0, s[n].v);
                        snprintf(s[n++].name, sizeof s[0].name, "EJ0");
                        if (it->cipher == IMB_CIPHER_GCM)
                                n += derive_ghash_value(it, &s[n], s[n - 1].v);
                }
        } else if (it->cipher == IMB_CIPHER_CCM && it->iv_len >= 7 && it->iv_len <= 13) {
                /* S0 = E_K(A0), the mask of the CBC-MAC value (tag = T xor S0) */
                struct ref_aes_key ak;
                uint8_t a0[16] = { 0 };
                memset(&ak, 0, sizeof ak);
                ak.keylen = (int) it->keylen;
                memcpy(ak.key, it->k.ckey, it->keylen);
                a0[0] = (uint8_t) (15 - it->iv_len - 1);
                memcpy(a0 + 1, it->iv, it->iv_len);
                ref_aes_enc(&ak, a0, s[n].v);
                snprintf(s[n++].name, sizeof s[0].name, "S0");
        } else if (it->cipher == IMB_CIPHER_SM4_GCM) {
                ref_sm4_enc(it->k.ckey, z, s[n].v);
                snprintf(s[n++].name, sizeof s[0].name, "H");
                if (it->iv_len == 12) {
                        memcpy(j0, it->iv, 12);
                        j0[12] = j0[13] = j0[14] = 0;
                        j0[15] = 1;
                        ref_sm4_enc(it->k.ckey, j0, s[n].v);
                        snprintf(s[n++].name, sizeof s[0].name, "EJ0");
                        n += derive_ghash_value(it, &s[n], s[n - 1].v);
                }
        } else if (it->cipher == IMB_CIPHER_CHACHA20_POLY1305 || it->cipher == IMB_CIPHER_CHACHA20_POLY1305_SGL) {
                uint8_t zero[32] = { 0 }, pk[32];
                ref_chacha20(it->k.ckey, 0, it->iv, zero, pk, 32);
                memcpy(s[n].v, pk, 16);
                snprintf(s[n++].name, sizeof s[0].name, "POLY-R");
                memcpy(s[n].v, pk + 16, 16);
                snprintf(s[n++].name, sizeof s[0].name, "POLY-S");
        } else if (it->cipher == IMB_CIPHER_SNOW_V_AEAD) {
                uint8_t ks[32];
                ref_snowv_keystream(it->k.ckey, it->iv, 1, ks, 32);
                memcpy(s[n].v, ks, 16);
                snprintf(s[n++].name, sizeof s[0].name, "H");
                memcpy(s[n].v, ks + 16, 16);
                snprintf(s[n++].name, sizeof s[0].name, "ENDPAD");
        }
        return n;
}
/* S = GHASH_H(AAD, C, lengths) = full tag xor E_K(J0): not public (only tag_len bytes of S xor E_K(J0) are), and together
 * with the public AAD and ciphertext it determines H */
static int
derive_ghash_value(const struct item *it, struct secret *s, const uint8_t ej0[16])
{
        static uint8_t tmp[70000];
        uint8_t full[16];
        const int dec = it->dir == IMB_DIR_DECRYPT;
        if (it->iv_len != 12 || it->c_len > sizeof tmp || !it->src_orig)
                return 0;
        if (it->cipher == IMB_CIPHER_SM4_GCM)
                ref_gcm(ref_sm4_enc, it->k.ckey, dec, it->iv, 12, it->aad, it->aad_len, it->src_orig + it->c_off, tmp, it->c_len, full, 16);
        else if (it->cipher == IMB_CIPHER_GCM) {
                struct ref_aes_key ak;
                memset(&ak, 0, sizeof ak);
                ak.keylen = (int) it->keylen;
                memcpy(ak.key, it->k.ckey, it->keylen);
                ref_gcm(ref_aes_enc, &ak, dec, it->iv, 12, it->aad, it->aad_len, it->src_orig + it->c_off, tmp, it->c_len, full, 16);
        } else
                return 0;
        for (int i = 0; i < 16; i++)
                s->v[i] = full[i] ^ ej0[i];
        snprintf(s->name, sizeof s->name, "GHASH-S");
        return 1;
}
/* either 8-byte half of the value, as it is or byte-reversed (the GHASH code keeps its state byte-reflected) */
static const uint8_t *
find8(const uint8_t *hay, size_t n, const uint8_t *v)
{
        uint8_t rv[16];
        const uint8_t *a = memmem(hay, n, v, 8);
        if (!a)
                a = memmem(hay, n, v + 8, 8);
        if (a)
                return a;
        for (int i = 0; i < 16; i++)
                rv[i] = v[15 - i];
        a = memmem(hay, n, rv, 8);
        return a ? a : memmem(hay, n, rv + 8, 8);
}
/* search every observable location for either half of one 16-byte value; returns the location name or NULL */
static const char *
search_secret(struct mmgr *mm, const uint8_t v[16], int with_mgr, long *off)
{
        struct tramp_ctx *tc = &g_cm->tc;
        const uint8_t *a;
        int degenerate = 1;
        for (int b = 1; b < 8; b++)
                if (v[b] != v[0] || v[8 + b] != v[8])
                        degenerate = 0;
        if (degenerate)
                return NULL;
        if ((a = find8((const uint8_t *) tc->out_gpr, sizeof tc->out_gpr, v))) {
                *off = a - (const uint8_t *) tc->out_gpr;
                return "gpr";
        }
        if ((a = find8(tc->vec, sizeof tc->vec, v))) {
                *off = (a - tc->vec) / 64;
                return "vec-reg";
        }
        if (g_cm->stackcopy && (a = find8(g_cm->stackcopy, TRAMP_STACK_WINDOW, v))) {
                *off = (a - g_cm->stackcopy) - TRAMP_STACK_WINDOW;
                return "stack";
        }
        if (with_mgr && (a = find8((const uint8_t *) mm->m, imb_get_mb_mgr_size(), v))) {
                *off = a - (const uint8_t *) mm->m;
                return "mgr";
        }
        return NULL;
}
static int g_value_mode, g_value_njobs;
static uint64_t n_value_searches;
struct vhit {
        char where[24], name[16];
        long off;
};
static struct vhit g_vhit[4];
static int
scan_values(struct mmgr *mm)
{
        struct tramp_ctx *tc = &g_cm->tc;
        int n = 0;
        for (int i = 0; i < g_value_njobs && n < 4; i++) {
                struct secret s[4];
                const int ns = derive_secrets(I[i], s);
                for (int k = 0; k < ns && n < 4; k++) {
                        const uint8_t *a;
                        /* skip degenerate values (a half consisting of one repeated byte could match public padding) */
                        int degenerate = 1;
                        for (int b = 1; b < 8; b++)
                                if (s[k].v[b] != s[k].v[0] || s[k].v[8 + b] != s[k].v[8])
                                        degenerate = 0;
                        if (degenerate)
                                continue;
                        n_value_searches++;
                        const char *where = NULL;
                        long off = 0;
                        if ((a = find8((const uint8_t *) tc->out_gpr, sizeof tc->out_gpr, s[k].v))) {
                                where = "gpr";
                                off = a - (const uint8_t *) tc->out_gpr;
                        } else if ((a = find8(tc->vec, sizeof tc->vec, s[k].v))) {
                                where = "vec-reg";
                                off = (a - tc->vec) / 64;
                        } else if (g_cm->stackcopy && (a = find8(g_cm->stackcopy, TRAMP_STACK_WINDOW, s[k].v))) {
                                where = "stack";
                                off = (a - g_cm->stackcopy) - TRAMP_STACK_WINDOW;
                        } else if ((a = find8((const uint8_t *) mm->m, imb_get_mb_mgr_size(), s[k].v))) {
                                where = "mgr";
                                off = a - (const uint8_t *) mm->m;
                        }
                        if (where) {
                                snprintf(g_vhit[n].where, sizeof g_vhit[n].where, "%s", where);
                                snprintf(g_vhit[n].name, sizeof g_vhit[n].name, "%s", s[k].name);
                                g_vhit[n++].off = off;
                        }
                }
        }
        return n;
}

/* pick two fill bytes that do not occur as an 8-byte run in a freshly initialised manager (the
 * out-of-order managers keep public equal-byte runs from the power-up self-test) */
static void
pick_patterns(struct mmgr *mm)
{
        static const uint8_t cand[] = { 0xA7, 0x4E, 0x93, 0x1D, 0xB5, 0x2C, 0xE9, 0x71, 0x8A, 0x47 };
        int n = 0;
        long off;
        for (unsigned i = 0; i < ARRAY_SZ(cand) && n < 2; i++)
                if (!scan_buf((const uint8_t *) mm->m, imb_get_mb_mgr_size(), cand[i], &off))
                        pats[n++] = cand[i];
        if (n < 2)
                harness_fail("residue: no usable pattern bytes");
}

static int outstanding;
static void
res_done(struct mmgr *mm, IMB_JOB *job, void *arg)
{
        (void) mm;
        (void) job;
        (void) arg;
        outstanding--;
}

static void
pattern_item(struct item *it, int cls, uint8_t pat)
{
        if (cls == 2) {
                plain_memset(it->src, pat, it->buf_len);
                return;
        }
        for (int i = 0; i < it->k.nobjs; i++)
                if (it->k.objs[i].cls == cls)
                        plain_memset(it->k.objs[i].p, pat, it->k.objs[i].n);
}

/* returns number of hits; *h filled */
static int
run_schedule(struct mmgr **pmm, int cfg, const struct suite *cs, const struct suite *hs, uint64_t seed, int njobs, int cls,
             uint8_t pat, int lenmode, struct hit *h, int *skipped)
{
        struct mmgr *mm = *pmm;
        sigjmp_buf jb;
        int nh = 0;
        *skipped = 0;
        for (int i = 0; i < njobs; i++) {
                struct rng r;
                struct genopt g;
                rng_seed(&r, seed * 1315423911ULL + (uint64_t) i);
                genopt_default(&g);
                g.slot = i;
                g.pl = PL_PLAIN;
                g.dir = cls == 2 ? IMB_DIR_ENCRYPT : 0;
                g.len = lenmode == 0 ? 16 * (1 + (long) ((seed + (uint64_t) i * 7) % 11)) : lenmode == 1 ? 64 : 1 + (long) ((seed * 31 + (uint64_t) i * 13) % 300);
                g.inplace = cls == 2 ? 0 : -1; /* plaintext class: keep the plaintext pattern out of the (public) output */
                if (cs && (cs->cipher == IMB_CIPHER_KASUMI_UEA1_BITLEN || cs->cipher == IMB_CIPHER_SNOW3G_UEA2_BITLEN ||
                           cs->cipher == IMB_CIPHER_CNTR_BITLEN) && ((seed + (uint64_t) i) & 1)) {
                        /* bit lengths that are not byte multiples (and short ones) take the *_bit code paths */
                        g.bits = 1;
                        g.len = g.len * 8 - (long) ((seed >> 3) % 8);
                        if (((seed >> 6) & 3) == 0)
                                g.len = 1 + (long) ((seed >> 8) % 64); /* single block */
                        if (g.len < 1)
                                g.len = 1;
                }
                item_gen(I[i], cs, hs, &r, &g, mm);
                if (cls == 2 && I[i]->inplace) {
                        *skipped = 1; /* suites forced in place: the ciphertext replaces the plaintext, nothing to find */
                }
                /* GHASH-type MACs: message/AAD blocks that are a single bit at a byte boundary (x^(8k) in GF(2^128)): the
                 * partial products message x hash-key are then byte-shifted copies of the key, so product residue shows as
                 * pattern bytes too (derived key material, not only the raw key) */
                if (cls != 2 && cls != 3 && ((seed >> 11) & 1) &&
                    (I[i]->hash == IMB_AUTH_GHASH || I[i]->hash == IMB_AUTH_AES_GMAC || I[i]->hash == IMB_AUTH_AES_GMAC_128 ||
                     I[i]->hash == IMB_AUTH_AES_GMAC_192 || I[i]->hash == IMB_AUTH_AES_GMAC_256 || I[i]->hash == IMB_AUTH_SM4_GCM)) {
                        struct item *it = I[i];
                        plain_memset(it->src, 0, it->buf_len);
                        for (uint32_t b = 0; b < it->buf_len; b += 16)
                                it->src[b + (uint32_t) ((seed >> 13) + b / 16) % (it->buf_len - b < 16 ? it->buf_len - b : 16)] =
                                        ((seed >> 12) + b) & 1 ? 0x80 : 0x01;
                        if (it->aad && it->aad_len) {
                                plain_memset(it->aad, 0, it->aad_len);
                                for (uint32_t b = 0; b < it->aad_len; b += 16)
                                        it->aad[b] = 0x80;
                        }
                }
                pattern_item(I[i], cls, pat);
                if (g_opt.verbose)
                        fprintf(stderr, "job %d: dir %d order %d c_off %u c_len %u h_off %u h_len %u tag_len %u inplace %d\n", i, I[i]->dir,
                                I[i]->order, I[i]->c_off, I[i]->c_len, I[i]->h_off, I[i]->h_len, I[i]->tag_len, I[i]->inplace);
        }
        if (sigsetjmp(jb, 1)) {
                /* patterned (garbage) key material may legitimately upset nothing; a fault is reported by C07 engines */
                g_job_done = NULL;
                g_cm->want_residue = 0;
                *pmm = mm_new(cfg);
                *skipped = 1;
                return 0;
        }
        g_fault_jmp = &jb;
        g_job_done = res_done;
        outstanding = njobs;
        g_cm->want_residue = 1;
        int scanned = 0;
        for (int i = 0; i < njobs; i++) {
                IMB_JOB *j = mm_get_next_job(mm);
                item_fill_job(I[i], j);
                mm_submit_job(mm, 0, -2);
                if (g_opt.verbose)
                        fprintf(stderr, "submit %d -> outstanding %d\n", i, outstanding);
                if (outstanding == 0 && i == njobs - 1) {
                        nh = g_value_mode ? scan_values(mm) : scan_all(mm, pat, h, 1);
                        scanned = 1;
                }
        }
        while (outstanding > 0) {
                IMB_JOB *r = mm_flush_job(mm);
                if (!r)
                        break;
                if (g_opt.verbose)
                        fprintf(stderr, "flush -> job of item %p outstanding %d\n", r->user_data, outstanding);
                if (outstanding == 0) {
                        nh = g_value_mode ? scan_values(mm) : scan_all(mm, pat, h, 1);
                        scanned = 1;
                }
        }
        g_cm->want_residue = 0;
        g_fault_jmp = NULL;
        g_job_done = NULL;
        if (!scanned)
                *skipped = 1;
        return nh;
}

static uint64_t n_sched, n_scans, n_single_hits, n_helper_scans;

static void
helper_scans(struct mmgr *mm)
{
        /* raw key patterned: round key 0 of AES equals the raw key, DES/SM4/SNOW3G/KASUMI schedules derive
         * from it; any copy of the raw key left in registers or on the stack is residue */
        IMB_MGR *m = mm->m;
        static DECLARE_ALIGNED(uint8_t key[2][64], 16);
        static DECLARE_ALIGNED(uint8_t o1[2048], 64);
        static DECLARE_ALIGNED(uint8_t o2[512], 64);
        static DECLARE_ALIGNED(uint8_t o3[64], 64);
        struct {
                const char *name;
                void *fn;
                int nargs;
                int order; /* 0: (key,o1,o2) 1: (o1,key) 2: (key,o1) 3: (key,o1,o2,o3) 4: hmac */
        } hl[] = {
                { "keyexp_128", (void *) m->keyexp_128, 3, 0 },
                { "keyexp_192", (void *) m->keyexp_192, 3, 0 },
                { "keyexp_256", (void *) m->keyexp_256, 3, 0 },
                { "des_key_sched", (void *) m->des_key_sched, 2, 1 },
                { "sm4_keyexp", (void *) m->sm4_keyexp, 3, 0 },
                { "snow3g_init_key_sched", (void *) m->snow3g_init_key_sched, 2, 2 },
                { "kasumi_init_f8_key_sched", (void *) m->kasumi_init_f8_key_sched, 2, 2 },
                { "kasumi_init_f9_key_sched", (void *) m->kasumi_init_f9_key_sched, 2, 2 },
                { "xcbc_keyexp", (void *) m->xcbc_keyexp, 4, 3 },
                { "gcm128_pre", (void *) m->gcm128_pre, 2, 2 },
                { "gcm192_pre", (void *) m->gcm192_pre, 2, 2 },
                { "gcm256_pre", (void *) m->gcm256_pre, 2, 2 },
                { "ghash_pre", (void *) m->ghash_pre, 2, 2 },
                { "imb_hmac_ipad_opad/sha1", (void *) imb_hmac_ipad_opad, 6, 4 },
                { "imb_hmac_ipad_opad/sha512", (void *) imb_hmac_ipad_opad, 6, 5 },
                /* only one of the two states requested (the helper documents NULL for the other) */
                { "imb_hmac_ipad_opad/sha1-ipad-only", (void *) imb_hmac_ipad_opad, 6, 6 },
                { "imb_hmac_ipad_opad/sha256-opad-only", (void *) imb_hmac_ipad_opad, 6, 7 },
                { "imb_hmac_ipad_opad/sha384-ipad-only", (void *) imb_hmac_ipad_opad, 6, 8 },
        };
        for (unsigned i = 0; i < ARRAY_SZ(hl); i++) {
                struct hit h[2][4];
                int nh[2];
                for (int rep = 0; rep < 2; rep++) {
                        plain_memset(key[rep], pats[rep], 64);
                        g_cm->want_residue = 1;
                        switch (hl[i].order) {
                        case 0:
                                mcall(hl[i].name, hl[i].fn, 3, (uint64_t) key[rep], (uint64_t) o1, (uint64_t) o2);
                                break;
                        case 1:
                                mcall(hl[i].name, hl[i].fn, 2, (uint64_t) o1, (uint64_t) key[rep]);
                                break;
                        case 2:
                                mcall(hl[i].name, hl[i].fn, 2, (uint64_t) key[rep], (uint64_t) o1);
                                break;
                        case 3:
                                mcall(hl[i].name, hl[i].fn, 4, (uint64_t) key[rep], (uint64_t) o1, (uint64_t) o2, (uint64_t) o3);
                                break;
                        case 4:
                                mcall(hl[i].name, hl[i].fn, 6, (uint64_t) m, (uint64_t) IMB_AUTH_HMAC_SHA_1, (uint64_t) key[rep], (uint64_t) 40,
                                      (uint64_t) o1, (uint64_t) o2);
                                break;
                        case 5:
                                mcall(hl[i].name, hl[i].fn, 6, (uint64_t) m, (uint64_t) IMB_AUTH_HMAC_SHA_512, (uint64_t) key[rep], (uint64_t) 64,
                                      (uint64_t) o1, (uint64_t) o2);
                                break;
                        case 6:
                                mcall(hl[i].name, hl[i].fn, 6, (uint64_t) m, (uint64_t) IMB_AUTH_HMAC_SHA_1, (uint64_t) key[rep], (uint64_t) 40,
                                      (uint64_t) o1, (uint64_t) 0);
                                break;
                        case 7:
                                mcall(hl[i].name, hl[i].fn, 6, (uint64_t) m, (uint64_t) IMB_AUTH_HMAC_SHA_256, (uint64_t) key[rep], (uint64_t) 33,
                                      (uint64_t) 0, (uint64_t) o2);
                                break;
                        default:
                                mcall(hl[i].name, hl[i].fn, 6, (uint64_t) m, (uint64_t) IMB_AUTH_HMAC_SHA_384, (uint64_t) key[rep], (uint64_t) 64,
                                      (uint64_t) o1, (uint64_t) 0);
                        }
                        g_cm->want_residue = 0;
                        nh[rep] = scan_all(mm, pats[rep], h[rep], 0);
                        n_helper_scans++;
                }
                for (int a = 0; a < nh[0]; a++)
                        for (int b = 0; b < nh[1]; b++)
                                if (!strcmp(h[0][a].where, h[1][b].where) && h[0][a].off == h[1][b].off) {
                                        char key_[200], det[300];
                                        snprintf(key_, sizeof key_, "C13|%s|helper|%s|%s", variant_name(mm->variant), hl[i].name, h[0][a].where);
                                        snprintf(det, sizeof det,
                                                 "raw key bytes remain in %s (offset %ld) after %s returned; confirmed with two different "
                                                 "fill bytes",
                                                 h[0][a].where, h[0][a].off, hl[i].name);
                                        ev_violation("C13", key_, det, NULL);
                                }
                cov_hit("C13", "%s|helper|%s", variant_name(mm->variant), hl[i].name);
        }
}

/* ---- key-preparation helpers, derived material searched by value (model-free): the helper is called with a random key
 * and everything it wrote into the caller's output objects (round keys, key schedules, sub-keys, hash-key tables,
 * ipad/opad states) is, 8 aligned bytes at a time, looked for in the register dump and the stack window, as is the raw
 * key. Chunks with fewer than 6 distinct bytes are skipped (padding, constants), so a match is 64 matching
 * high-entropy bits. The output objects themselves are static harness storage outside every searched location. */
static uint64_t n_helper_value_scans, n_helper_chunks;
static int
chunk_entropic(const uint8_t *c)
{
        int d = 0;
        for (int i = 0; i < 8; i++) {
                int seen = 0;
                for (int j = 0; j < i; j++)
                        if (c[j] == c[i])
                                seen = 1;
                d += !seen;
        }
        return d >= 6;
}
static const char *
search_chunk(const uint8_t *c, long *off)
{
        struct tramp_ctx *tc = &g_cm->tc;
        const uint8_t *a;
        if ((a = memmem(tc->out_gpr, sizeof tc->out_gpr, c, 8))) {
                *off = a - (const uint8_t *) tc->out_gpr;
                return "gpr";
        }
        if ((a = memmem(tc->vec, sizeof tc->vec, c, 8))) {
                *off = (a - tc->vec) / 64;
                return "vec-reg";
        }
        if (g_cm->stackcopy && (a = memmem(g_cm->stackcopy, TRAMP_STACK_WINDOW, c, 8))) {
                *off = (a - g_cm->stackcopy) - TRAMP_STACK_WINDOW;
                return "stack";
        }
        return NULL;
}
static void
helper_value_scans(struct mmgr *mm, struct rng *r)
{
        IMB_MGR *m = mm->m;
        static DECLARE_ALIGNED(uint8_t key[64], 16);
        static DECLARE_ALIGNED(uint8_t o[3][2048], 64);
        static const struct {
                const char *name;
                int order; /* 0: (key,o0,o1) 1: (o0,key) 2: (key,o0) 3: (key,o0,o1,o2) 4: hmac(hash, key_len, want) */
                int hash, key_len, want;
        } hl[] = {
                { "keyexp_128", 0, 0, 16, 0 },
                { "keyexp_192", 0, 0, 24, 0 },
                { "keyexp_256", 0, 0, 32, 0 },
                { "des_key_sched", 1, 0, 8, 0 },
                { "sm4_keyexp", 0, 0, 16, 0 },
                { "snow3g_init_key_sched", 2, 0, 16, 0 },
                { "kasumi_init_f8_key_sched", 2, 0, 16, 0 },
                { "kasumi_init_f9_key_sched", 2, 0, 16, 0 },
                { "xcbc_keyexp", 3, 0, 16, 0 },
                { "cmac_subkey_gen_128", 5, 0, 16, 0 },
                { "cmac_subkey_gen_256", 5, 0, 32, 0 },
                { "gcm128_pre", 2, 0, 16, 0 },
                { "gcm192_pre", 2, 0, 24, 0 },
                { "gcm256_pre", 2, 0, 32, 0 },
                { "ghash_pre", 2, 0, 16, 0 },
                { "imb_hmac_ipad_opad/sha1", 4, IMB_AUTH_HMAC_SHA_1, 40, 3 },
                { "imb_hmac_ipad_opad/sha224", 4, IMB_AUTH_HMAC_SHA_224, 64, 3 },
                { "imb_hmac_ipad_opad/sha256", 4, IMB_AUTH_HMAC_SHA_256, 33, 3 },
                { "imb_hmac_ipad_opad/sha384", 4, IMB_AUTH_HMAC_SHA_384, 128, 3 },
                { "imb_hmac_ipad_opad/sha512", 4, IMB_AUTH_HMAC_SHA_512, 64, 3 },
                { "imb_hmac_ipad_opad/md5", 4, IMB_AUTH_MD5, 20, 3 },
                { "imb_hmac_ipad_opad/sha256-long-key", 4, IMB_AUTH_HMAC_SHA_256, 200, 3 },
                { "imb_hmac_ipad_opad/sha512-ipad-only", 4, IMB_AUTH_HMAC_SHA_512, 64, 1 },
                { "imb_hmac_ipad_opad/sha1-opad-only", 4, IMB_AUTH_HMAC_SHA_1, 20, 2 },
        };
        static uint8_t longkey[256];
        for (unsigned i = 0; i < ARRAY_SZ(hl); i++) {
                void *fn = NULL;
                const uint8_t *kp = key;
                rng_bytes(r, key, sizeof key);
                rng_bytes(r, longkey, sizeof longkey);
                plain_memset(o, 0, sizeof o);
                switch (i) {
                case 0: fn = (void *) m->keyexp_128; break;
                case 1: fn = (void *) m->keyexp_192; break;
                case 2: fn = (void *) m->keyexp_256; break;
                case 3: fn = (void *) m->des_key_sched; break;
                case 4: fn = (void *) m->sm4_keyexp; break;
                case 5: fn = (void *) m->snow3g_init_key_sched; break;
                case 6: fn = (void *) m->kasumi_init_f8_key_sched; break;
                case 7: fn = (void *) m->kasumi_init_f9_key_sched; break;
                case 8: fn = (void *) m->xcbc_keyexp; break;
                case 9: fn = (void *) m->cmac_subkey_gen_128; break;
                case 10: fn = (void *) m->cmac_subkey_gen_256; break;
                case 11: fn = (void *) m->gcm128_pre; break;
                case 12: fn = (void *) m->gcm192_pre; break;
                case 13: fn = (void *) m->gcm256_pre; break;
                case 14: fn = (void *) m->ghash_pre; break;
                default: fn = (void *) imb_hmac_ipad_opad;
                }
                if (!fn)
                        continue;
                if (hl[i].order == 5) {
                        /* CMAC sub-keys derive from the expanded key: expand first (unobserved), then observe the sub-key call */
                        if (hl[i].key_len == 16)
                                IMB_AES_KEYEXP_128(m, key, o[2], o[2] + 1024);
                        else
                                IMB_AES_KEYEXP_256(m, key, o[2], o[2] + 1024);
                }
                g_cm->want_residue = 1;
                switch (hl[i].order) {
                case 0:
                        mcall(hl[i].name, fn, 3, (uint64_t) key, (uint64_t) o[0], (uint64_t) o[1]);
                        break;
                case 1:
                        mcall(hl[i].name, fn, 2, (uint64_t) o[0], (uint64_t) key);
                        break;
                case 2:
                        mcall(hl[i].name, fn, 2, (uint64_t) key, (uint64_t) o[0]);
                        break;
                case 3:
                        mcall(hl[i].name, fn, 4, (uint64_t) key, (uint64_t) o[0], (uint64_t) o[1], (uint64_t) (o[1] + 1024));
                        break;
                case 5:
                        mcall(hl[i].name, fn, 3, (uint64_t) o[2], (uint64_t) o[0], (uint64_t) o[1]);
                        break;
                default:
                        if (hl[i].key_len > 64)
                                kp = longkey;
                        mcall(hl[i].name, fn, 6, (uint64_t) m, (uint64_t) hl[i].hash, (uint64_t) kp, (uint64_t) hl[i].key_len,
                              (uint64_t) ((hl[i].want & 1) ? o[0] : NULL), (uint64_t) ((hl[i].want & 2) ? o[1] : NULL));
                }
                g_cm->want_residue = 0;
                n_helper_value_scans++;
                /* what to look for: the raw key and every entropic chunk the helper wrote */
                int reported = 0;
                for (int src = 0; src < 4 && !reported; src++) {
                        const uint8_t *base = src == 3 ? kp : o[src];
                        const size_t n = src == 3 ? (size_t) (hl[i].key_len & ~7) : sizeof o[0];
                        for (size_t b = 0; b + 8 <= n && !reported; b += 8) {
                                long off = 0;
                                if (!chunk_entropic(base + b))
                                        continue;
                                n_helper_chunks++;
                                const char *where = search_chunk(base + b, &off);
                                if (where) {
                                        char key_[200], det[300];
                                        snprintf(key_, sizeof key_, "C13|%s|helper|%s|DERIVED-%s|%s", variant_name(mm->variant), hl[i].name,
                                                 src == 3 ? "raw-key" : "output", where);
                                        snprintf(det, sizeof det,
                                                 "8 bytes %s of the %s (offset %zu of %s) remain in %s at %ld after %s returned (random key)",
                                                 hexs(base + b, 8), src == 3 ? "raw key" : "material the helper produced", b,
                                                 src == 3 ? "the key" : src == 0 ? "output object 1" : src == 1 ? "output object 2" : "output object 3",
                                                 where, off, hl[i].name);
                                        ev_violation("C13", key_, det, NULL);
                                        reported = 1;
                                }
                        }
                }
                cov_hit("C13", "%s|helper-values|%s", variant_name(mm->variant), hl[i].name);
        }
}

/* ---- direct (manager-less) AEAD calls: after each call the secrets of the operation are searched by value */
static uint64_t n_direct_value_scans;
static void
direct_report(struct mmgr *mm, const char *fn, const struct secret *s, int ns)
{
        for (int k = 0; k < ns; k++) {
                long off = 0;
                const char *where = search_secret(mm, s[k].v, 0, &off);
                n_value_searches++;
                if (where) {
                        char key[200], det[300];
                        if (g_opt.verbose && !strcmp(where, "vec-reg"))
                                fprintf(stderr, "%s: %s=%s found in vec-reg %ld: %s\n", fn, s[k].name, hexs(s[k].v, 16), off,
                                        hexs(g_cm->tc.vec + off * 64, 64));
                        snprintf(key, sizeof key, "C13|%s|direct|%s|DERIVED-%s|%s", variant_name(mm->variant), fn, s[k].name, where);
                        snprintf(det, sizeof det, "secret %s (8 bytes of its value) found in %s at %ld after %s returned", s[k].name, where, off, fn);
                        ev_violation("C13", key, det, NULL);
                }
        }
        n_direct_value_scans++;
        cov_hit("C13", "%s|direct-values|%s", variant_name(mm->variant), fn);
}
static void
direct_value_scans(struct mmgr *mm, struct rng *r)
{
        IMB_MGR *m = mm->m;
        static struct gcm_key_data gk;
        static struct gcm_context_data gctx;
        static struct chacha20_poly1305_context_data cctx;
        static uint8_t pt[1200], ct[1200], aad[64], tag[16];
        uint8_t key[32], iv[12], z[16] = { 0 }, j0[16];
        struct secret s[6];
        for (int ks = 16; ks <= 32; ks += 8) {
                struct ref_aes_key ak;
                size_t len = 1 + rng_below(r, sizeof pt), aadl = rng_below(r, sizeof aad + 1);
                int ns = 0;
                rng_bytes(r, key, sizeof key);
                rng_bytes(r, iv, sizeof iv);
                rng_bytes(r, pt, len);
                rng_bytes(r, aad, sizeof aad);
                memset(&ak, 0, sizeof ak);
                ak.keylen = ks;
                memcpy(ak.key, key, (size_t) ks);
                ref_aes_enc(&ak, z, s[ns].v);
                snprintf(s[ns++].name, sizeof s[0].name, "H");
                memcpy(j0, iv, 12);
                j0[12] = j0[13] = j0[14] = 0;
                j0[15] = 1;
                ref_aes_enc(&ak, j0, s[ns].v);
                snprintf(s[ns++].name, sizeof s[0].name, "EJ0");
                memcpy(s[ns].v, key, 16);
                snprintf(s[ns++].name, sizeof s[0].name, "KEY");
                void *pre = ks == 16 ? (void *) m->gcm128_pre : ks == 24 ? (void *) m->gcm192_pre : (void *) m->gcm256_pre;
                void *enc = ks == 16 ? (void *) m->gcm128_enc : ks == 24 ? (void *) m->gcm192_enc : (void *) m->gcm256_enc;
                void *dec = ks == 16 ? (void *) m->gcm128_dec : ks == 24 ? (void *) m->gcm192_dec : (void *) m->gcm256_dec;
                void *ini = ks == 16 ? (void *) m->gcm128_init : ks == 24 ? (void *) m->gcm192_init : (void *) m->gcm256_init;
                void *upd = ks == 16 ? (void *) m->gcm128_enc_update : ks == 24 ? (void *) m->gcm192_enc_update : (void *) m->gcm256_enc_update;
                void *fin = ks == 16 ? (void *) m->gcm128_enc_finalize : ks == 24 ? (void *) m->gcm192_enc_finalize : (void *) m->gcm256_enc_finalize;
                g_cm->want_residue = 1;
                mcall("gcm_pre", pre, 2, (uint64_t) key, (uint64_t) &gk);
                direct_report(mm, "gcm_pre", s, ns);
                mcall("gcm_enc", enc, 10, (uint64_t) &gk, (uint64_t) &gctx, (uint64_t) ct, (uint64_t) pt, (uint64_t) len, (uint64_t) iv, (uint64_t) aad,
                      (uint64_t) aadl, (uint64_t) tag, (uint64_t) 16);
                direct_report(mm, "gcm_enc", s, ns);
                mcall("gcm_dec", dec, 10, (uint64_t) &gk, (uint64_t) &gctx, (uint64_t) pt, (uint64_t) ct, (uint64_t) len, (uint64_t) iv, (uint64_t) aad,
                      (uint64_t) aadl, (uint64_t) tag, (uint64_t) 16);
                direct_report(mm, "gcm_dec", s, ns);
                mcall("gcm_init", ini, 5, (uint64_t) &gk, (uint64_t) &gctx, (uint64_t) iv, (uint64_t) aad, (uint64_t) aadl);
                direct_report(mm, "gcm_init", s, ns);
                mcall("gcm_enc_update", upd, 5, (uint64_t) &gk, (uint64_t) &gctx, (uint64_t) ct, (uint64_t) pt, (uint64_t) len);
                direct_report(mm, "gcm_enc_update", s, ns);
                mcall("gcm_enc_finalize", fin, 4, (uint64_t) &gk, (uint64_t) &gctx, (uint64_t) tag, (uint64_t) 16);
                direct_report(mm, "gcm_enc_finalize", s, ns);
                g_cm->want_residue = 0;
        }
        {
                /* GHASH: the hash key is the secret */
                int ns = 0;
                size_t len = 1 + rng_below(r, sizeof pt);
                rng_bytes(r, key, 16);
                rng_bytes(r, pt, len);
                memcpy(s[ns].v, key, 16);
                snprintf(s[ns++].name, sizeof s[0].name, "H");
                memset(tag, 0, sizeof tag);
                g_cm->want_residue = 1;
                mcall("ghash_pre", (void *) m->ghash_pre, 2, (uint64_t) key, (uint64_t) &gk);
                direct_report(mm, "ghash_pre", s, ns);
                mcall("ghash", (void *) m->ghash, 5, (uint64_t) &gk, (uint64_t) pt, (uint64_t) len, (uint64_t) tag, (uint64_t) 16);
                direct_report(mm, "ghash", s, ns);
                g_cm->want_residue = 0;
        }
        {
                /* ChaCha20-Poly1305 init / update / finalize: key and the one-time Poly1305 key */
                uint8_t zero[32] = { 0 }, pk[32];
                int ns = 0;
                size_t len = 1 + rng_below(r, sizeof pt), aadl = rng_below(r, sizeof aad + 1);
                rng_bytes(r, key, 32);
                rng_bytes(r, iv, 12);
                rng_bytes(r, pt, len);
                ref_chacha20(key, 0, iv, zero, pk, 32);
                memcpy(s[ns].v, pk, 16);
                snprintf(s[ns++].name, sizeof s[0].name, "POLY-R");
                memcpy(s[ns].v, pk + 16, 16);
                snprintf(s[ns++].name, sizeof s[0].name, "POLY-S");
                memcpy(s[ns].v, key, 16);
                snprintf(s[ns++].name, sizeof s[0].name, "KEY-LO");
                memcpy(s[ns].v, key + 16, 16);
                snprintf(s[ns++].name, sizeof s[0].name, "KEY-HI");
                g_cm->want_residue = 1;
                mcall("chacha20_poly1305_init", (void *) m->chacha20_poly1305_init, 5, (uint64_t) key, (uint64_t) &cctx, (uint64_t) iv, (uint64_t) aad,
                      (uint64_t) aadl);
                direct_report(mm, "chacha20_poly1305_init", s, ns);
                mcall("chacha20_poly1305_enc_update", (void *) m->chacha20_poly1305_enc_update, 5, (uint64_t) key, (uint64_t) &cctx, (uint64_t) ct,
                      (uint64_t) pt, (uint64_t) len);
                direct_report(mm, "chacha20_poly1305_enc_update", s, ns);
                mcall("chacha20_poly1305_dec_update", (void *) m->chacha20_poly1305_dec_update, 5, (uint64_t) key, (uint64_t) &cctx, (uint64_t) pt,
                      (uint64_t) ct, (uint64_t) len);
                direct_report(mm, "chacha20_poly1305_dec_update", s, ns);
                mcall("chacha20_poly1305_finalize", (void *) m->chacha20_poly1305_finalize, 3, (uint64_t) &cctx, (uint64_t) tag, (uint64_t) 16);
                direct_report(mm, "chacha20_poly1305_finalize", s, ns);
                g_cm->want_residue = 0;
        }
}

int
eng_residue(void)
{
        const struct suite *tabs[3] = { g_cipher_suites, g_hash_suites, g_aead_suites };
        const int ntabs[3] = { g_n_cipher_suites, g_n_hash_suites, g_n_aead_suites };
        static const int njs[] = { 1, 2, 3, 4, 5, 7, 8, 9, 12, 15, 16, 17 };
        static const char *clsname[] = { "CIPHER-KEY", "AUTH-KEY", "PLAINTEXT" };
        guard_init(RMAX + 1);
        for (int i = 0; i < RMAX; i++)
                I[i] = item_new();
        long unit = 0;
        for (int vi = 0; vi < g_nvariants; vi++) {
                int cfg = g_variant_cfg[vi];
                if (g_opt.cfg_only >= 0 && cfg != g_opt.cfg_only)
                        continue;
                struct mmgr *mm = mm_new(cfg);
                if (!mm)
                        continue;
                pick_patterns(mm);
                if (g_opt.shard == vi % g_opt.nshards)
                        helper_scans(mm);
                {
                        struct rng dr;
                        rng_seed(&dr, g_opt.seed * 977 + (uint64_t) vi * 131 + (uint64_t) g_opt.shard);
                        for (int k = 0; k < (g_opt.tier ? 40 : 6) && g_opt.from_case <= 0; k++)
                                direct_value_scans(mm, &dr);
                        for (int k = 0; k < (g_opt.tier ? 24 : 3) && g_opt.from_case <= 0; k++)
                                if ((k + vi) % g_opt.nshards == g_opt.shard)
                                        helper_value_scans(mm, &dr);
                }
                long per = g_opt.cases / g_nvariants + 1;
                for (long e = 0; e < per; e++, unit++) {
                        if (unit % g_opt.nshards != g_opt.shard)
                                continue;
                        if (g_opt.from_case > 0 && unit != g_opt.from_case)
                                continue; /* replay aid: --from <case> runs exactly that case */
                        struct rng r;
                        rng_seed(&r, g_opt.seed * 48271 + (uint64_t) unit);
                        g_case_no = unit;
                        /* systematic walk over (suite family, suite, class, job count) with random chaining */
                        int fam = (int) (e % 4);
                        const struct suite *cs = NULL, *hs = NULL;
                        if (fam == 0)
                                cs = &tabs[0][(e / 4) % ntabs[0]];
                        else if (fam == 1)
                                hs = &tabs[1][(e / 4) % ntabs[1]];
                        else if (fam == 2)
                                cs = &tabs[2][(e / 4) % ntabs[2]];
                        else {
                                cs = &tabs[0][rng_below(&r, (uint32_t) ntabs[0])];
                                hs = &tabs[1][rng_below(&r, (uint32_t) ntabs[1])];
                        }
                        int nj = njs[(e / 4 / 7) % ARRAY_SZ(njs)];
                        if (rng_below(&r, 3) == 0)
                                nj = njs[rng_below(&r, ARRAY_SZ(njs))];
                        int lenmode = (int) rng_below(&r, 3);
                        uint64_t seed = rng_u64(&r);
                        for (int cls = 0; cls < 4; cls++) {
                                if (cls == 0 && !cs)
                                        continue;
                                if (cls == 3) {
                                        /* derived secrets of the AEAD-type modes, searched by value */
                                        const int gm = hs && (hs->hash == IMB_AUTH_AES_GMAC_128 || hs->hash == IMB_AUTH_AES_GMAC_192 ||
                                                              hs->hash == IMB_AUTH_AES_GMAC_256);
                                        if (!(cs && cs->aead) && !(gm && !cs))
                                                continue;
                                        struct hit hd[4];
                                        int skipped = 0;
                                        g_value_mode = 1;
                                        g_value_njobs = nj;
                                        const int nv = run_schedule(&mm, cfg, cs, hs, seed, nj, 3, 0, lenmode, hd, &skipped);
                                        g_value_mode = 0;
                                        n_sched++;
                                        if (skipped)
                                                continue;
                                        n_scans++;
                                        cov_hit("C13", "%s|%s|%s|DERIVED|n%d|lm%d", variant_name(mm->variant), cs ? cipher_name(cs->cipher) : "-",
                                                hs ? hash_name(hs->hash) : hash_name(cs->hash), nj, lenmode);
                                        for (int a = 0; a < nv; a++) {
                                                char key[240], det[400];
                                                snprintf(key, sizeof key, "C13|%s|%s|%s|DERIVED-%s|%s", variant_name(mm->variant),
                                                         cs ? cipher_name(cs->cipher) : "-", hs ? hash_name(hs->hash) : hash_name(cs->hash),
                                                         g_vhit[a].name, g_vhit[a].where);
                                                snprintf(det, sizeof det,
                                                         "derived secret %s of a completed job (8 bytes of its value, computed by the reference model) found in "
                                                         "%s at %ld after the call that returned the last of %d job(s) (length mode %d)",
                                                         g_vhit[a].name, g_vhit[a].where, g_vhit[a].off, nj, lenmode);
                                                ev_violation("C13", key, det, item_describe(I[0]));
                                        }
                                        if (nv) {
                                                mm_free(mm);
                                                mm = mm_new(cfg);
                                        }
                                        continue;
                                }
                                if (cls == 1 && !hs && !(cs && cs->aead))
                                        continue;
                                if (cls == 1 && cs && cs->aead && !hs)
                                        continue; /* AEAD suites have no separate authentication key */
                                if (cls == 2 && !cs)
                                        ; /* hash-only: the message is the plaintext */
                                struct hit h[2][4];
                                int nh[2], skipped = 0;
                                nh[0] = run_schedule(&mm, cfg, cs, hs, seed, nj, cls, pats[0], lenmode, h[0], &skipped);
                                n_sched++;
                                if (skipped)
                                        continue;
                                n_scans++;
                                cov_hit("C13", "%s|%s|%s|%s|n%d|lm%d", variant_name(mm->variant), cs ? cipher_name(cs->cipher) : "-",
                                        hs ? hash_name(hs->hash) : (cs && cs->aead ? hash_name(cs->hash) : "-"), clsname[cls], nj, lenmode);
                                if (nh[0] == 0)
                                        continue;
                                n_single_hits++;
                                cov_hit("C13-single", "%s|%s|%s|%s|%s", variant_name(mm->variant), cs ? cipher_name(cs->cipher) : "-",
                                        hs ? hash_name(hs->hash) : "-", clsname[cls], h[0][0].where);
                                /* confirmation: same schedule, other fill byte, on a FRESH manager (lane
                                 * assignment is then the same as it was for nobody: offsets inside the manager
                                 * may differ, so for manager/stack hits the kind of location is compared) */
                                struct mmgr *fresh = mm_new(cfg);
                                nh[1] = run_schedule(&fresh, cfg, cs, hs, seed, nj, cls, pats[1], lenmode, h[1], &skipped);
                                mm_free(fresh);
                                /* the working manager may hold stale pattern bytes now: replace it */
                                mm_free(mm);
                                mm = mm_new(cfg);
                                if (skipped)
                                        continue;
                                for (int a = 0; a < nh[0]; a++)
                                        for (int b = 0; b < nh[1]; b++)
                                                if (!strcmp(h[0][a].where, h[1][b].where) &&
                                                    (h[0][a].off == h[1][b].off || !strcmp(h[0][a].where, "mgr"))) {
                                                        char key[240], det[400];
                                                        snprintf(key, sizeof key, "C13|%s|%s|%s|%s|%s", variant_name(mm->variant),
                                                                 cs ? cipher_name(cs->cipher) : "-",
                                                                 hs ? hash_name(hs->hash) : (cs && cs->aead ? hash_name(cs->hash) : "-"), clsname[cls],
                                                                 h[0][a].where);
                                                        snprintf(det, sizeof det,
                                                                 "%s residue in %s at offset %ld after the call that returned the last of %d job(s) "
                                                                 "(length mode %d); confirmed with fill bytes 0x%02x and 0x%02x",
                                                                 clsname[cls], h[0][a].where, h[0][a].off, nj, lenmode, pats[0], pats[1]);
                                                        ev_violation("C13", key, det, item_describe(I[0]));
                                                }
                        }
                }
                mm_free(mm);
        }
        cov_count("schedules_run", n_sched);
        cov_count("residue_scans", n_scans);
        cov_count("single_pattern_hits", n_single_hits);
        cov_count("helper_scans", n_helper_scans);
        cov_count("derived_secret_searches", n_value_searches);
        cov_count("direct_value_scans", n_direct_value_scans);
        cov_count("helper_value_scans", n_helper_value_scans);
        cov_count("helper_value_chunks_searched", n_helper_chunks);
        return 0;
}
