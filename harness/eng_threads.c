/* Engine "threads" (C17): independence of distinct managers.
 *
 * A "program" is a deterministic sequence of API calls on one manager (allocate + initialise, valid
 * and invalid submissions, get_completed, flush, direct-API calls incl. ones that set the manager's
 * error code, free).  Every call appends a trace record (job handed back, status, output hash,
 * manager error code after the call).  A case runs the same N programs
 *   (a) alone, one after the other                      -> reference traces
 *   (b) interleaved call by call in one thread (random schedule)
 *   (c) concurrently, one thread per program (barrier start, random yields/spins)
 * and the checker requires traces (b) and (c) to equal (a) record by record; every output is also
 * compared with the reference models.  An atomic "threads inside the library" gauge measures how
 * many calls really overlapped.
 *
 * M-SEG (shared-library build only): the library's writable PT_LOAD segment is snapshotted around
 * every case; any byte that changes outside the documented globals (error-code mirror, CPUID cache,
 * session counter) is mutable state shared between managers -> violation naming the symbol.
 *
 * The same engine is run under ThreadSanitizer (tsan flavour); check.py classifies the reports by
 * racing object.
 */
#include "imbv.h"
#include <dlfcn.h>
#include <errno.h>
#include <link.h>
#include <pthread.h>
#include <sched.h>
#include <stdatomic.h>
#include <unistd.h>

#define MAXP 8
#define PN 20
#define POPS 120

enum { OP_INIT, OP_SUBMIT, OP_GETC, OP_FLUSH, OP_BAD, OP_DIRECT, OP_FREE };
static const char *opname[] = { "init", "submit", "get_completed", "flush", "bad-submit", "direct", "free" };

struct trec {
        int16_t ret, status;
        int32_t err;     /* the manager's own error code (IMB_MGR.imb_errno) after the call */
        int32_t err_api; /* what imb_get_errno(mgr) reports after the call */
        uint64_t h;
};
struct prog {
        int cfg;
        uint64_t seed;
        int slot0;
        struct mmgr *mm;
        struct item *it[PN];
        int n_items;
        struct {
                uint8_t kind;
                int16_t arg;
        } ops[POPS];
        int nops, pc;
        struct trec tr[POPS];
        struct trec *cur;
        uint8_t scratch[24576] __attribute__((aligned(64)));
        const char *mode;
};

static uint64_t
fnv1(uint64_t h, const void *p, size_t n)
{
        const uint8_t *b = p;
        for (size_t i = 0; i < n; i++)
                h = (h ^ b[i]) * 0x100000001b3ULL;
        return h;
}

static const struct suite *
fs(const struct suite *t, int n, const char *name)
{
        for (int i = 0; i < n; i++)
                if (!strcmp(t[i].name, name))
                        return &t[i];
        harness_fail("threads: suite %s missing", name);
}

static void
pick(struct rng *r, const struct suite **cs, const struct suite **hs)
{
        /* any suite of the three tables (every algorithm the library offers), sometimes a chained cipher + HMAC pair */
        static const char *cn[] = { "aes-cbc-128", "aes-cbc-256", "aes-cfb-128", "docsis-sec-128", "des-cbc", "3des-cbc", "docsis-des" };
        static const char *hn[] = { "hmac-sha1", "hmac-sha256", "hmac-sha512", "hmac-md5" };
        *cs = *hs = NULL;
        int k = (int) rng_below(r, 10);
        if (k < 4)
                *cs = &g_cipher_suites[rng_below(r, (uint32_t) g_n_cipher_suites)];
        else if (k < 7)
                *hs = &g_hash_suites[rng_below(r, (uint32_t) g_n_hash_suites)];
        else if (k < 8) {
                *cs = fs(g_cipher_suites, g_n_cipher_suites, cn[rng_below(r, ARRAY_SZ(cn))]);
                *hs = fs(g_hash_suites, g_n_hash_suites, hn[rng_below(r, ARRAY_SZ(hn))]);
        } else
                *cs = &g_aead_suites[rng_below(r, (uint32_t) g_n_aead_suites)];
}

static void
prog_done(struct mmgr *mm, IMB_JOB *job, void *arg)
{
        struct prog *p = arg;
        struct item *it = job->user_data;
        int idx = -2;
        for (int i = 0; i < p->n_items; i++)
                if (p->it[i] == it)
                        idx = i;
        if (idx < 0) {
                ev_violation("C17", "C17|foreign-job", "a manager handed back a job that was never submitted to it", NULL);
                return;
        }
        uint64_t h = p->cur->h ? p->cur->h : 0xcbf29ce484222325ULL;
        if (job->status == IMB_STATUS_COMPLETED) {
                char ctx[64];
                snprintf(ctx, sizeof ctx, "mode %s", p->mode);
                item_check(it, job, "C17", mm, ctx);
                uint64_t oh = item_output_hash(it);
                h = fnv1(h, &oh, sizeof oh);
        }
        h = fnv1(h, &idx, sizeof idx);
        p->cur->h = h;
        p->cur->ret = (int16_t) idx;
        p->cur->status = (int16_t) job->status;
}

/* build the op list (deterministic in seed); items are generated in prog_init (needs the manager) */
static void
prog_plan(struct prog *p, int cfg, uint64_t seed, int slot0)
{
        struct rng r;
        struct item *keep[PN];
        memcpy(keep, p->it, sizeof keep);
        memset(p, 0, offsetof(struct prog, scratch));
        memcpy(p->it, keep, sizeof keep);
        memset(p->scratch, 0, sizeof p->scratch);
        p->cfg = cfg;
        p->seed = seed;
        p->slot0 = slot0;
        rng_seed(&r, seed ^ 0x7431ULL);
        p->n_items = 8 + (int) rng_below(&r, PN - 8);
        int n = 0;
        p->ops[n++].kind = OP_INIT;
        for (int i = 0; i < p->n_items && n < POPS - 30; i++) {
                int bad = rng_below(&r, 9) == 0;
                p->ops[n].kind = bad ? OP_BAD : OP_SUBMIT;
                p->ops[n++].arg = (int16_t) i;
                if (rng_below(&r, 4) == 0)
                        p->ops[n++].kind = OP_GETC;
                if (rng_below(&r, 10) == 0)
                        p->ops[n++].kind = OP_FLUSH;
                if (rng_below(&r, 4) == 0) {
                        p->ops[n].kind = OP_DIRECT;
                        p->ops[n++].arg = (int16_t) rng_below(&r, 26);
                }
        }
        for (int i = 0; i < PN + 2 && n < POPS - 1; i++)
                p->ops[n++].kind = OP_FLUSH;
        p->ops[n++].kind = OP_FREE;
        p->nops = n;
}

static void
prog_init(struct prog *p)
{
        struct rng r;
        rng_seed(&r, p->seed);
        p->mm = mm_new(p->cfg);
        if (!p->mm && g_cfg_variant[p->cfg] >= 0) {
                /* the configuration initialised fine alone (start-up probe): creating it while other managers are being
                 * created or used gave a different result */
                char key[160], det[240];
                snprintf(key, sizeof key, "C17|%s|manager-creation-fails-next-to-other-managers", variant_name(g_cfg_variant[p->cfg]));
                snprintf(det, sizeof det,
                         "alloc_mb_mgr + init of configuration %s failed (or selected no architecture) while other managers were "
                         "being created/used, although the same call succeeds alone",
                         g_cfgs[p->cfg].name);
                ev_violation("C17", key, det, NULL);
                for (int t = 0; t < 200 && !p->mm; t++)
                        p->mm = mm_new(p->cfg);
        }
        if (!p->mm)
                harness_fail("threads: configuration %d unavailable", p->cfg);
        p->mm->strict_errno = 2; /* M-ERRNO on the manager's own field; the API value is traced separately */
        for (int i = 0; i < p->n_items; i++) {
                struct genopt g;
                const struct suite *cs, *hs;
                pick(&r, &cs, &hs);
                genopt_default(&g);
                g.slot = p->slot0 + i;
                guard_reset_slot(g.slot);
                g.pl = PL_PLAIN;
                g.max_len = 600;
                if (!p->it[i])
                        p->it[i] = item_new();
                item_gen(p->it[i], cs, hs, &r, &g, p->mm);
                item_expect(p->it[i]);
        }
}

static void
prog_direct(struct prog *p, int k)
{
        IMB_MGR *m = p->mm->m;
        uint8_t *s = p->scratch;
        struct rng r;
        rng_seed(&r, p->seed + (uint64_t) p->pc * 977);
        rng_bytes(&r, s, 256);
        memset(s + 256, 0, sizeof p->scratch - 256);
        rng_bytes(&r, s + 512, 176); /* stands for an expanded key where one is read */
        uint64_t h = 0xcbf29ce484222325ULL;
        switch (k) {
        case 0:
                mcall("sha256_one_block", (void *) m->sha256_one_block, 2, (uint64_t) s, (uint64_t) (s + 512));
                h = fnv1(h, s + 512, 32);
                break;
        case 1:
                mcall("keyexp_128", (void *) m->keyexp_128, 3, (uint64_t) s, (uint64_t) (s + 512), (uint64_t) (s + 1024));
                h = fnv1(h, s + 512, 176);
                h = fnv1(h, s + 1024, 176);
                break;
        case 2: /* direct API misuse: sets THIS manager's error code only */
                mcall("keyexp_128", (void *) m->keyexp_128, 3, (uint64_t) 0, (uint64_t) (s + 512), (uint64_t) (s + 1024));
                break;
        case 3: {
                uint32_t c = (uint32_t) mcall("crc32_ethernet_fcs", (void *) m->crc32_ethernet_fcs, 2, (uint64_t) s, (uint64_t) 200);
                h = fnv1(h, &c, 4);
                break;
        }
        case 4:
                mcall("sha1", (void *) m->sha1, 3, (uint64_t) s, (uint64_t) 131, (uint64_t) (s + 512));
                h = fnv1(h, s + 512, 20);
                break;
        case 5:
                mcall("md5_one_block", (void *) m->md5_one_block, 2, (uint64_t) 0, (uint64_t) (s + 512));
                break;
        case 6:
                mcall("cmac_subkey_gen_128", (void *) m->cmac_subkey_gen_128, 3, (uint64_t) (s + 512), (uint64_t) (s + 1024),
                      (uint64_t) (s + 1100));
                h = fnv1(h, s + 1024, 16);
                h = fnv1(h, s + 1100, 16);
                break;
        case 7:
                mcall("des_key_sched", (void *) m->des_key_sched, 2, (uint64_t) (s + 512), (uint64_t) s);
                h = fnv1(h, s + 512, 128);
                break;
        default: {
                /* multi-buffer 3GPP, QUIC, GCM/GHASH and ChaCha20-Poly1305 direct functions (C glue with local scratch
                 * arrays around the kernels): n buffers of unequal lengths laid out in the program's own scratch area */
                enum { NBUF = 9, BL = 400 };
                uint8_t *in = s + 4096, *out = s + 4096 + NBUF * BL, *ivs = s + 4096 + 2 * NBUF * BL, *ks = s + 16384;
                const void *pin[NBUF], *piv[NBUF], *pks[NBUF];
                void *pout[NBUF];
                uint32_t lens[NBUF];
                uint64_t iv64[NBUF], lens64[NBUF];
                uint8_t tagb[NBUF][16];
                void *ptag[NBUF];
                rng_bytes(&r, in, NBUF * BL);
                rng_bytes(&r, ivs, NBUF * 32);
                memset(out, 0, NBUF * BL);
                memset(tagb, 0, sizeof tagb);
                int n = 2 + (int) rng_below(&r, NBUF - 2);
                for (int i = 0; i < NBUF; i++) {
                        pin[i] = in + i * BL;
                        pout[i] = out + i * BL;
                        piv[i] = ivs + i * 32;
                        pks[i] = ks;
                        ptag[i] = tagb[i];
                        lens[i] = 4 * (1 + rng_below(&r, BL / 4 - 1));
                        lens64[i] = lens[i];
                        iv64[i] = rng_u64(&r);
                }
                switch (k) {
                case 8:
                        mcall("snow3g_init_key_sched", (void *) m->snow3g_init_key_sched, 2, (uint64_t) s, (uint64_t) ks);
                        mcall("snow3g_f8_n_buffer", (void *) m->snow3g_f8_n_buffer, 6, (uint64_t) ks, (uint64_t) piv, (uint64_t) pin, (uint64_t) pout,
                              (uint64_t) lens, (uint64_t) n);
                        break;
                case 9:
                        mcall("snow3g_init_key_sched", (void *) m->snow3g_init_key_sched, 2, (uint64_t) s, (uint64_t) ks);
                        mcall("snow3g_f8_n_buffer_multikey", (void *) m->snow3g_f8_n_buffer_multikey, 6, (uint64_t) pks, (uint64_t) piv, (uint64_t) pin,
                              (uint64_t) pout, (uint64_t) lens, (uint64_t) n);
                        break;
                case 10:
                        mcall("snow3g_init_key_sched", (void *) m->snow3g_init_key_sched, 2, (uint64_t) s, (uint64_t) ks);
                        mcall("snow3g_f8_8_buffer_multikey", (void *) m->snow3g_f8_8_buffer_multikey, 5, (uint64_t) pks, (uint64_t) piv, (uint64_t) pin,
                              (uint64_t) pout, (uint64_t) lens);
                        n = 8;
                        break;
                case 11:
                        mcall("snow3g_init_key_sched", (void *) m->snow3g_init_key_sched, 2, (uint64_t) s, (uint64_t) ks);
                        mcall("snow3g_f8_2_buffer", (void *) m->snow3g_f8_2_buffer, 9, (uint64_t) ks, (uint64_t) piv[0], (uint64_t) piv[1], (uint64_t) pin[0],
                              (uint64_t) pout[0], (uint64_t) lens[0], (uint64_t) pin[1], (uint64_t) pout[1], (uint64_t) lens[1]);
                        n = 2;
                        break;
                case 12:
                        mcall("snow3g_init_key_sched", (void *) m->snow3g_init_key_sched, 2, (uint64_t) s, (uint64_t) ks);
                        mcall("snow3g_f9_1_buffer", (void *) m->snow3g_f9_1_buffer, 5, (uint64_t) ks, (uint64_t) piv[0], (uint64_t) pin[0],
                              (uint64_t) (lens[0] * 8 - 3), (uint64_t) pout[0]);
                        n = 1;
                        lens[0] = 4;
                        break;
                case 13:
                        mcall("kasumi_init_f8_key_sched", (void *) m->kasumi_init_f8_key_sched, 2, (uint64_t) s, (uint64_t) ks);
                        mcall("f8_n_buffer", (void *) m->f8_n_buffer, 6, (uint64_t) ks, (uint64_t) iv64, (uint64_t) pin, (uint64_t) pout, (uint64_t) lens,
                              (uint64_t) n);
                        break;
                case 14:
                        mcall("kasumi_init_f8_key_sched", (void *) m->kasumi_init_f8_key_sched, 2, (uint64_t) s, (uint64_t) ks);
                        mcall("f8_3_buffer", (void *) m->f8_3_buffer, 11, (uint64_t) ks, iv64[0], iv64[1], iv64[2], (uint64_t) pin[0], (uint64_t) pout[0],
                              (uint64_t) pin[1], (uint64_t) pout[1], (uint64_t) pin[2], (uint64_t) pout[2], (uint64_t) lens[0]);
                        n = 3;
                        lens[1] = lens[2] = lens[0];
                        break;
                case 15:
                        mcall("kasumi_init_f9_key_sched", (void *) m->kasumi_init_f9_key_sched, 2, (uint64_t) s, (uint64_t) ks);
                        mcall("f9_1_buffer", (void *) m->f9_1_buffer, 4, (uint64_t) ks, (uint64_t) pin[0], (uint64_t) (lens[0] + 5), (uint64_t) pout[0]);
                        n = 1;
                        lens[0] = 4;
                        break;
                case 16: {
                        const void *pk[NBUF];
                        for (int i = 0; i < NBUF; i++)
                                pk[i] = s + 16 * (i % 4);
                        mcall("eea3_n_buffer", (void *) m->eea3_n_buffer, 6, (uint64_t) pk, (uint64_t) piv, (uint64_t) pin, (uint64_t) pout, (uint64_t) lens,
                              (uint64_t) n);
                        break;
                }
                case 17: {
                        const void *pk[NBUF];
                        uint32_t *pmac[NBUF];
                        uint32_t bits[NBUF];
                        for (int i = 0; i < NBUF; i++) {
                                pk[i] = s + 16 * (i % 4);
                                pmac[i] = (uint32_t *) (out + i * BL);
                                bits[i] = lens[i] * 8 - (uint32_t) i;
                                lens[i] = 4;
                        }
                        mcall("eia3_n_buffer", (void *) m->eia3_n_buffer, 6, (uint64_t) pk, (uint64_t) piv, (uint64_t) pin, (uint64_t) bits, (uint64_t) pmac,
                              (uint64_t) n);
                        break;
                }
                case 18: { /* QUIC AEAD batch */
                        struct gcm_key_data *kd = (struct gcm_key_data *) (s + 8192);
                        mcall("gcm128_pre", (void *) m->gcm128_pre, 2, (uint64_t) s, (uint64_t) kd);
                        mcall("imb_quic_aes_gcm", (void *) imb_quic_aes_gcm, 13, (uint64_t) m, (uint64_t) kd, (uint64_t) IMB_KEY_128_BYTES, (uint64_t) IMB_DIR_ENCRYPT,
                              (uint64_t) pout, (uint64_t) pin, (uint64_t) lens64, (uint64_t) piv, (uint64_t) piv, (uint64_t) 13, (uint64_t) ptag, (uint64_t) 16,
                              (uint64_t) n);
                        h = fnv1(h, tagb, sizeof tagb);
                        break;
                }
                case 19: { /* QUIC header protection */
                        uint8_t ek[240] __attribute__((aligned(16))), dk[240] __attribute__((aligned(16)));
                        mcall("keyexp_128", (void *) m->keyexp_128, 3, (uint64_t) s, (uint64_t) ek, (uint64_t) dk);
                        mcall("imb_quic_hp_aes_ecb", (void *) imb_quic_hp_aes_ecb, 6, (uint64_t) m, (uint64_t) ek, (uint64_t) pout, (uint64_t) pin, (uint64_t) n,
                              (uint64_t) IMB_KEY_128_BYTES);
                        for (int i = 0; i < NBUF; i++)
                                lens[i] = 5;
                        break;
                }
                case 20:
                        mcall("imb_quic_chacha20_poly1305", (void *) imb_quic_chacha20_poly1305, 11, (uint64_t) m, (uint64_t) s, (uint64_t) IMB_DIR_ENCRYPT,
                              (uint64_t) pout, (uint64_t) pin, (uint64_t) lens64, (uint64_t) piv, (uint64_t) piv, (uint64_t) 11, (uint64_t) ptag, (uint64_t) n);
                        h = fnv1(h, tagb, sizeof tagb);
                        break;
                case 21:
                        mcall("imb_quic_hp_chacha20", (void *) imb_quic_hp_chacha20, 5, (uint64_t) m, (uint64_t) s, (uint64_t) pout, (uint64_t) pin, (uint64_t) n);
                        for (int i = 0; i < NBUF; i++)
                                lens[i] = 5;
                        break;
                case 22: { /* GCM one-shot + GHASH */
                        struct gcm_key_data *kd = (struct gcm_key_data *) (s + 8192);
                        struct gcm_context_data *ctx = (struct gcm_context_data *) (s + 12288);
                        mcall("gcm256_pre", (void *) m->gcm256_pre, 2, (uint64_t) s, (uint64_t) kd);
                        mcall("gcm256_enc", (void *) m->gcm256_enc, 10, (uint64_t) kd, (uint64_t) ctx, (uint64_t) pout[0], (uint64_t) pin[0], (uint64_t) lens[0],
                              (uint64_t) piv[0], (uint64_t) pin[1], (uint64_t) 20, (uint64_t) tagb[0], (uint64_t) 16);
                        mcall("ghash", (void *) m->ghash, 5, (uint64_t) kd, (uint64_t) pin[2], (uint64_t) lens[2], (uint64_t) tagb[1], (uint64_t) 16);
                        h = fnv1(h, tagb, 32);
                        n = 1;
                        break;
                }
                case 23: { /* ChaCha20-Poly1305 init/update/finalize */
                        struct chacha20_poly1305_context_data *ctx = (struct chacha20_poly1305_context_data *) (s + 12288);
                        mcall("chacha20_poly1305_init", (void *) m->chacha20_poly1305_init, 5, (uint64_t) s, (uint64_t) ctx, (uint64_t) piv[0], (uint64_t) pin[1],
                              (uint64_t) 17);
                        mcall("chacha20_poly1305_enc_update", (void *) m->chacha20_poly1305_enc_update, 5, (uint64_t) s, (uint64_t) ctx, (uint64_t) pout[0],
                              (uint64_t) pin[0], (uint64_t) lens[0]);
                        mcall("chacha20_poly1305_finalize", (void *) m->chacha20_poly1305_finalize, 3, (uint64_t) ctx, (uint64_t) tagb[0], (uint64_t) 16);
                        h = fnv1(h, tagb, 16);
                        n = 1;
                        break;
                }
                case 24: { /* HMAC key preparation */
                        uint8_t ipad[64], opad[64];
                        mcall("imb_hmac_ipad_opad", (void *) imb_hmac_ipad_opad, 6, (uint64_t) m, (uint64_t) IMB_AUTH_HMAC_SHA_384, (uint64_t) in,
                              (uint64_t) (1 + lens[0] % 200), (uint64_t) ipad, (uint64_t) opad);
                        h = fnv1(h, ipad, 64);
                        h = fnv1(h, opad, 64);
                        n = 0;
                        break;
                }
                default: { /* HEC + CRC family */
                        uint32_t a = (uint32_t) mcall("hec_32", (void *) m->hec_32, 1, (uint64_t) in);
                        uint64_t b = mcall("hec_64", (void *) m->hec_64, 1, (uint64_t) (in + 8));
                        uint32_t c1 = (uint32_t) mcall("crc24_lte_a", (void *) m->crc24_lte_a, 2, (uint64_t) in, (uint64_t) lens[0]);
                        uint32_t c2 = (uint32_t) mcall("crc16_x25", (void *) m->crc16_x25, 2, (uint64_t) in, (uint64_t) lens[1]);
                        h = fnv1(h, &a, 4);
                        h = fnv1(h, &b, 8);
                        h = fnv1(h, &c1, 4);
                        h = fnv1(h, &c2, 4);
                        n = 0;
                }
                }
                for (int i = 0; i < n; i++)
                        h = fnv1(h, pout[i], lens[i]);
        }
        }
        p->cur->h = h;
}

static atomic_int g_inlib;
static atomic_ullong g_overlapped, g_steps, g_thr_steps;
static __thread int in_thread_mode;
static atomic_int g_maxconc;

static int
prog_step(struct prog *p)
{
        if (p->pc >= p->nops)
                return 0;
        int kind = p->ops[p->pc].kind, arg = p->ops[p->pc].arg;
        p->cur = &p->tr[p->pc];
        memset(p->cur, 0, sizeof *p->cur);
        p->cur->ret = -1;
        g_job_done = prog_done;
        g_job_done_arg = p;
        int c = atomic_fetch_add(&g_inlib, 1) + 1;
        if (c > 1)
                atomic_fetch_add(&g_overlapped, 1);
        if (in_thread_mode)
                atomic_fetch_add(&g_thr_steps, 1);
        int mx = atomic_load(&g_maxconc);
        while (c > mx && !atomic_compare_exchange_weak(&g_maxconc, &mx, c))
                ;
        atomic_fetch_add(&g_steps, 1);
        switch (kind) {
        case OP_INIT:
                prog_init(p);
                break;
        case OP_SUBMIT:
        case OP_BAD: {
                IMB_JOB *j = mm_get_next_job(p->mm);
                item_fill_job(p->it[arg], j);
                if (kind == OP_BAD) {
                        j->src = NULL;
                        mm_submit_job(p->mm, 0, -1);
                } else
                        mm_submit_job(p->mm, 0, 0);
                break;
        }
        case OP_GETC:
                mm_get_completed_job(p->mm);
                break;
        case OP_FLUSH:
                mm_flush_job(p->mm);
                break;
        case OP_DIRECT:
                prog_direct(p, arg);
                break;
        case OP_FREE:
                break;
        }
        if (kind != OP_FREE) {
                p->cur->err = p->mm->m->imb_errno;
                p->cur->err_api = imb_get_errno(p->mm->m);
        }
        else {
                mm_free(p->mm);
                p->mm = NULL;
        }
        atomic_fetch_sub(&g_inlib, 1);
        p->pc++;
        return 1;
}

static void
compare(const struct prog *ref, const struct prog *p, const char *mode, const char *combo)
{
        for (int i = 0; i < ref->nops; i++) {
                const struct trec *a = &ref->tr[i], *b = &p->tr[i];
                const char *what = NULL;
                if (a->ret != b->ret)
                        what = "returned-job";
                else if (a->status != b->status)
                        what = "status";
                else if (a->h != b->h)
                        what = "output";
                else if (a->err != b->err)
                        what = "errno";
                else if (a->err_api != b->err_api)
                        /* imb_get_errno(mgr) falls back to the process-wide mirror when the manager's own code is 0,
                         * and direct-API errors are stored in the mirror only */
                        what = ref->ops[i].kind == OP_DIRECT ? "errno-api-direct-call-mirror-only" : "errno-api-falls-back-to-global-mirror";
                if (!what)
                        continue;
                char key[200], det[400], rp[200];
                snprintf(key, sizeof key, "C17|%s|%s|%s|%s", variant_name(g_cfg_variant[p->cfg]), mode, opname[ref->ops[i].kind], what);
                snprintf(det, sizeof det,
                         "call %d (%s; job suite %s) of the program differs from the run alone: job %d/%d status %d/%d errno field %d/%d imb_get_errno %d/%d hash %llx/%llx; "
                         "managers in the case: %s",
                         i, opname[ref->ops[i].kind],
                         a->ret >= 0 && a->ret < PN && ref->it[a->ret] ? (ref->it[a->ret]->cipher != IMB_CIPHER_NULL ? cipher_name(ref->it[a->ret]->cipher) : hash_name(ref->it[a->ret]->hash)) : "-",
                         a->ret, b->ret, a->status, b->status, a->err, b->err, a->err_api, b->err_api, (unsigned long long) a->h,
                         (unsigned long long) b->h, combo);
                snprintf(rp, sizeof rp, "{\"engine\":\"threads\",\"case\":%ld,\"mode\":\"%s\"}", g_case_no, mode);
                ev_violation("C17", key, det, rp);
                return;
        }
}

#define NSESS 12000
static int
cmp_u32(const void *a, const void *b)
{
        uint32_t x = *(const uint32_t *) a, y = *(const uint32_t *) b;
        return x < y ? -1 : x > y;
}
struct targ {
        struct prog *p;
        pthread_barrier_t *bar;
        uint64_t seed;
        uint32_t *ids; /* session ids handed out by imb_set_session() during the contention phase */
        int nids;
};
static void *
thread_main(void *a)
{
        struct targ *t = a;
        static __thread struct callmon cm;
        struct rng r;
        callmon_init(&cm, t->seed);
        rng_seed(&r, t->seed);
        in_thread_mode = 1;
        pthread_barrier_wait(t->bar);
        prog_step(t->p); /* allocate + initialise (self-test included) concurrently */
        pthread_barrier_wait(t->bar);
        /* contention phase on the one piece of state all managers share by design, the atomic session counter: every
         * thread opens NSESS sessions of the same suite back to back; the ids are checked for uniqueness afterwards */
        if (t->ids && t->p->mm) {
                static __thread IMB_JOB sj;
                memset(&sj, 0, sizeof sj);
                sj.cipher_mode = IMB_CIPHER_CBC;
                sj.cipher_direction = IMB_DIR_ENCRYPT;
                sj.hash_alg = IMB_AUTH_HMAC_SHA_1;
                sj.chain_order = IMB_ORDER_CIPHER_HASH;
                sj.key_len_in_bytes = 16;
                IMB_MGR *m = t->p->mm->m;
                for (int i = 0; i < NSESS; i++)
                        t->ids[i] = imb_set_session(m, &sj);
                t->nids = NSESS;
        }
        pthread_barrier_wait(t->bar);
        while (prog_step(t->p)) {
                uint32_t k = rng_below(&r, 32);
                if (k == 0)
                        sched_yield();
                else if (k < 6)
                        for (volatile int s = (int) rng_below(&r, 300); s > 0; s--)
                                ;
        }
        return NULL;
}

/* ------------------------------------------------------------------ M-SEG */
static uint8_t *seg_lo, *seg_hi, *seg_snap;
static uint64_t seg_base;
static char seg_path[512];
static struct symr {
        uint64_t lo, hi;
        char name[64];
} *syms;
static int nsyms;

static int
phdr_cb(struct dl_phdr_info *info, size_t size, void *data)
{
        (void) size;
        (void) data;
        if (!info->dlpi_name || !strstr(info->dlpi_name, "libIPSec_MB"))
                return 0;
        snprintf(seg_path, sizeof seg_path, "%s", info->dlpi_name);
        seg_base = info->dlpi_addr;
        for (int i = 0; i < info->dlpi_phnum; i++) {
                const ElfW(Phdr) *ph = &info->dlpi_phdr[i];
                if (ph->p_type == PT_LOAD && (ph->p_flags & PF_W)) {
                        seg_lo = (uint8_t *) (info->dlpi_addr + ph->p_vaddr);
                        seg_hi = seg_lo + ph->p_memsz;
                }
        }
        return 1;
}
static void
seg_init(void)
{
        dl_iterate_phdr(phdr_cb, NULL);
        if (!seg_lo)
                return;
        seg_snap = malloc((size_t) (seg_hi - seg_lo));
        char cmd[700], line[400];
        snprintf(cmd, sizeof cmd, "nm -S --defined-only '%s' 2>/dev/null", seg_path);
        FILE *f = popen(cmd, "r");
        if (!f)
                return;
        syms = calloc(4096, sizeof *syms);
        while (fgets(line, sizeof line, f) && nsyms < 4096) {
                unsigned long long a, sz;
                char t, name[200];
                if (sscanf(line, "%llx %llx %c %199s", &a, &sz, &t, name) == 4 && strchr("bBdD", t)) {
                        syms[nsyms].lo = a;
                        syms[nsyms].hi = a + sz;
                        snprintf(syms[nsyms].name, sizeof syms[nsyms].name, "%s", name);
                        nsyms++;
                }
        }
        pclose(f);
}
static const char *
seg_sym(uint64_t off)
{
        for (int i = 0; i < nsyms; i++)
                if (off >= syms[i].lo && off < syms[i].hi)
                        return syms[i].name;
        return "unnamed";
}
static void
seg_take(void)
{
        if (seg_lo)
                memcpy(seg_snap, seg_lo, (size_t) (seg_hi - seg_lo));
}
static uint64_t seg_checked;
static void
seg_diff(const char *combo)
{
        /* documented process-wide state: error-code mirror, CPUID cache, session-id counter;
         * imb_verif_cpu_feature_mask is this project's own hook */
        static const char *allowed[] = { "imb_errno", "cpuid_1_0", "cpuid_7_0", "cpuid_7_1", "counter.0", "imb_verif_cpu_feature_mask" };
        if (!seg_lo)
                return;
        size_t n = (size_t) (seg_hi - seg_lo);
        seg_checked += n;
        for (size_t i = 0; i < n; i++) {
                if (seg_lo[i] == seg_snap[i])
                        continue;
                uint64_t off = (uint64_t) (seg_lo + i) - seg_base;
                const char *s = seg_sym(off);
                int ok = 0;
                for (unsigned a = 0; a < ARRAY_SZ(allowed); a++)
                        if (!strcmp(s, allowed[a]))
                                ok = 1;
                cov_hit("seg_changed_symbol", "%s", s);
                if (!ok) {
                        char key[200], det[300];
                        snprintf(key, sizeof key, "C17|global-state|%s", s);
                        snprintf(det, sizeof det,
                                 "writable library global '%s' (offset %#llx in %s) changed while managers %s were running: mutable state "
                                 "shared between managers",
                                 s, (unsigned long long) off, seg_path, combo);
                        ev_violation("C17", key, det, NULL);
                }
                /* skip to the end of this symbol */
                while (i + 1 < n && !strcmp(seg_sym((uint64_t) (seg_lo + i + 1) - seg_base), s) && strcmp(s, "unnamed"))
                        i++;
        }
}

int
eng_threads(void)
{
        static struct prog solo[MAXP], inter[MAXP], thr[MAXP];
        guard_init(3 * MAXP * PN);
        seg_init();
        if (seg_lo)
                ev_printf("{\"ev\":\"extra\",\"name\":\"mseg\",\"value\":\"%s rw segment %zu bytes, %d data symbols\"}", seg_path,
                          (size_t) (seg_hi - seg_lo), nsyms);
        /* warm-up: one manager per configuration so that lazily initialised process-wide caches are set */
        for (int v = 0; v < g_nvariants; v++) {
                struct mmgr *w = mm_new(g_variant_cfg[v]);
                mm_free(w);
        }
        if (seg_lo) {
                /* positive control: a direct-API misuse must show up as a change of the error-code mirror */
                struct mmgr *w = mm_new(g_variant_cfg[0]);
                uint8_t tmp[400];
                seg_take();
                mcall("keyexp_128", (void *) w->m->keyexp_128, 3, (uint64_t) 0, (uint64_t) tmp, (uint64_t) tmp);
                int seen = 0;
                for (size_t i = 0; i < (size_t) (seg_hi - seg_lo); i++)
                        if (seg_lo[i] != seg_snap[i] && !strcmp(seg_sym((uint64_t) (seg_lo + i) - seg_base), "imb_errno"))
                                seen = 1;
                if (!seen)
                        harness_fail("M-SEG self-check: the change of the library's error-code mirror was not observed");
                cov_count("mseg_selfcheck_ok", 1);
                mm_get_next_job(w); /* any successful call resets the mirror */
                mm_free(w);
        }
        uint64_t cases = 0, ncmp = 0;
        for (long cs = g_opt.shard; cs < g_opt.cases; cs += g_opt.nshards) {
                struct rng r;
                g_case_no = cs;
                rng_seed(&r, g_opt.seed * 1000003ULL + (uint64_t) cs);
                int np = 2 + (int) rng_below(&r, MAXP - 1);
                int same = rng_below(&r, 3) == 0; /* all managers of one variant */
                int v0 = (int) rng_below(&r, (uint32_t) g_nvariants);
                char combo[200] = "";
                for (int i = 0; i < np; i++) {
                        int v = same ? v0 : (int) rng_below(&r, (uint32_t) g_nvariants);
                        uint64_t seed = rng_u64(&r);
                        if (i > 0 && rng_below(&r, 4) == 0)
                                seed = solo[i - 1].seed; /* identical programs on two managers */
                        prog_plan(&solo[i], g_variant_cfg[v], seed, i * PN);
                        prog_plan(&inter[i], g_variant_cfg[v], seed, (MAXP + i) * PN);
                        prog_plan(&thr[i], g_variant_cfg[v], seed, (2 * MAXP + i) * PN);
                        solo[i].mode = "alone";
                        inter[i].mode = "interleaved";
                        thr[i].mode = "threads";
                        if (strlen(combo) < 180)
                                snprintf(combo + strlen(combo), sizeof combo - strlen(combo), "%s%s", i ? "," : "",
                                         variant_name(g_cfg_variant[solo[i].cfg]));
                }
                seg_take();
                /* (a) alone */
                for (int i = 0; i < np; i++)
                        while (prog_step(&solo[i]))
                                ;
                /* (b) interleaved in one thread */
                for (int left = np; left;) {
                        int i = (int) rng_below(&r, (uint32_t) np);
                        int burst = 1 + (int) rng_below(&r, 3);
                        left = 0;
                        for (int k = 0; k < burst; k++)
                                prog_step(&inter[i]);
                        /* delayed read: another manager's error code must still be what its own last call left */
                        int q = (int) rng_below(&r, (uint32_t) np);
                        if (q != i && inter[q].mm && inter[q].pc > 0 && inter[q].pc < inter[q].nops) {
                                const struct trec *lt = &inter[q].tr[inter[q].pc - 1];
                                int e = imb_get_errno(inter[q].mm->m), f = inter[q].mm->m->imb_errno;
                                cov_count("delayed_errno_reads", 1);
                                if (f != lt->err || e != lt->err_api) {
                                        char key[200], det[300];
                                        snprintf(key, sizeof key, "C17|%s|interleaved|delayed-read|%s", variant_name(g_cfg_variant[inter[q].cfg]),
                                                 f != lt->err ? "errno" : "errno-api-falls-back-to-global-mirror");
                                        snprintf(det, sizeof det,
                                                 "error code of an idle manager changed while another manager (%s) was used: field %d -> %d, "
                                                 "imb_get_errno %d -> %d",
                                                 variant_name(g_cfg_variant[inter[i].cfg]), lt->err, f, lt->err_api, e);
                                        ev_violation("C17", key, det, NULL);
                                }
                        }
                        for (int q = 0; q < np; q++)
                                left += inter[q].pc < inter[q].nops;
                }
                for (int i = 0; i < np; i++)
                        compare(&solo[i], &inter[i], "interleaved", combo);
                /* (c) threads, repeated with different yield patterns */
                int reps = g_opt.tier ? 4 : 3;
                for (int rep = 0; rep < reps; rep++) {
                        pthread_t th[MAXP];
                        struct targ ta[MAXP];
                        pthread_barrier_t bar;
                        pthread_barrier_init(&bar, NULL, (unsigned) np);
                        for (int i = 0; i < np; i++) {
                                if (rep)
                                        prog_plan(&thr[i], solo[i].cfg, solo[i].seed, (2 * MAXP + i) * PN);
                                thr[i].mode = "threads";
                                ta[i].p = &thr[i];
                                ta[i].bar = &bar;
                                ta[i].seed = rng_u64(&r);
                                static uint32_t idbuf[MAXP][NSESS];
                                ta[i].ids = rep == 0 ? idbuf[i] : NULL;
                                ta[i].nids = 0;
                                if (pthread_create(&th[i], NULL, thread_main, &ta[i]))
                                        harness_fail("pthread_create failed");
                        }
                        for (int i = 0; i < np; i++)
                                pthread_join(th[i], NULL);
                        pthread_barrier_destroy(&bar);
                        for (int i = 0; i < np; i++)
                                compare(&solo[i], &thr[i], "threads", combo);
                        if (rep == 0) {
                                /* session ids: zero is the error value, and no id may be handed out twice */
                                static uint32_t all[MAXP * NSESS];
                                int na = 0;
                                for (int i = 0; i < np; i++)
                                        for (int k = 0; k < ta[i].nids; k++)
                                                all[na++] = ta[i].ids[k];
                                qsort(all, (size_t) na, sizeof all[0], cmp_u32);
                                int dups = 0, zeros = 0;
                                for (int k = 0; k < na; k++) {
                                        zeros += all[k] == 0;
                                        dups += k > 0 && all[k] == all[k - 1];
                                }
                                cov_count("session_ids_checked", (uint64_t) na);
                                if (dups || zeros) {
                                        char det[300];
                                        snprintf(det, sizeof det,
                                                 "%d threads opened %d sessions each concurrently on their own managers (%s): %d of %d ids were handed out "
                                                 "more than once, %d were 0",
                                                 np, NSESS, combo, dups, na, zeros);
                                        ev_violation("C17", "C17|threads|imb_set_session|duplicate-session-id", det, NULL);
                                }
                        }
                        ncmp += (uint64_t) np;
                        for (int i = 0; i < np; i++)
                                cov_count("trace_records_compared", (uint64_t) solo[i].nops);
                }
                seg_diff(combo);
                ncmp += (uint64_t) np;
                cases++;
                cov_hit("C17", "%s|n%d", combo, np);
                for (int i = 0; i < np; i++)
                        cov_count("trace_records_compared", (uint64_t) solo[i].nops);
        }
        cov_count("cases", cases);
        cov_count("program_traces_compared", ncmp);
        cov_count("steps", atomic_load(&g_steps));
        cov_count("steps_in_threads", atomic_load(&g_thr_steps));
        cov_count("overlapped_steps", atomic_load(&g_overlapped));
        cov_count("mseg_bytes_diffed", seg_checked);
        ev_printf("{\"ev\":\"extra\",\"name\":\"max_threads_inside_library\",\"value\":%d}", atomic_load(&g_maxconc));
        return 0;
}
