/* Engine "keys" (C11): key-preparation helpers of every variant against reference key material,
 * structured and random keys; material with a common format is produced by one variant and consumed
 * by jobs on another. */
#include "imbv.h"
#include <openssl/sha.h>
#include <openssl/md5.h>

static uint64_t n_helper_calls, n_interchange;

static void
kviol(struct mmgr *mm, const char *helper, const char *detail, const uint8_t *key, size_t klen)
{
        char k[200], d[500];
        snprintf(k, sizeof k, "C11|%s|%s", variant_name(mm->variant), helper);
        snprintf(d, sizeof d, "%s (key %s, len %zu)", detail, hexs(key, klen > 40 ? 40 : klen), klen);
        ev_violation("C11", k, d, NULL);
}

/* structured keys: class 0 all-zero, 1 all-one, 2 single bit, 3 walking byte, 4 random */
static void
mk_key(struct rng *r, uint8_t *key, size_t n, uint64_t idx)
{
        unsigned cls = (unsigned) (idx % 5);
        switch (cls) {
        case 0:
                memset(key, 0, n);
                break;
        case 1:
                memset(key, 0xff, n);
                break;
        case 2:
                memset(key, 0, n);
                key[(idx / 5) % n] = (uint8_t) (1u << ((idx / 5 / n) & 7));
                break;
        case 3:
                for (size_t i = 0; i < n; i++)
                        key[i] = (uint8_t) (i + idx / 5);
                break;
        default:
                rng_bytes(r, key, n);
        }
}

/* HMAC partial states via libcrypto low-level contexts / own SM3 */
static size_t
hmac_ref_state(IMB_HASH_ALG h, const uint8_t *key, size_t klen, uint8_t *ipad, uint8_t *opad)
{
        uint8_t k0[128] = { 0 }, blk[128];
        size_t bs = (h == IMB_AUTH_HMAC_SHA_384 || h == IMB_AUTH_HMAC_SHA_512) ? 128 : 64;
        if (klen > bs) {
                switch (h) {
                case IMB_AUTH_HMAC_SHA_1:
                        SHA1(key, klen, k0);
                        break;
                case IMB_AUTH_HMAC_SHA_224:
                        SHA224(key, klen, k0);
                        break;
                case IMB_AUTH_HMAC_SHA_256:
                        SHA256(key, klen, k0);
                        break;
                case IMB_AUTH_HMAC_SHA_384:
                        SHA384(key, klen, k0);
                        break;
                case IMB_AUTH_HMAC_SHA_512:
                        SHA512(key, klen, k0);
                        break;
                case IMB_AUTH_HMAC_SM3:
                        ref_sm3(key, klen, k0);
                        break;
                default:
                        return 0; /* HMAC-MD5: refused */
                }
        } else
                memcpy(k0, key, klen);
        for (int pass = 0; pass < 2; pass++) {
                uint8_t *out = pass ? opad : ipad;
                for (size_t i = 0; i < bs; i++)
                        blk[i] = k0[i] ^ (pass ? 0x5c : 0x36);
                switch (h) {
                case IMB_AUTH_HMAC_SHA_1: {
                        SHA_CTX c;
                        SHA1_Init(&c);
                        SHA1_Transform(&c, blk);
                        uint32_t w[5] = { c.h0, c.h1, c.h2, c.h3, c.h4 };
                        memcpy(out, w, 20);
                        break;
                }
                case IMB_AUTH_HMAC_SHA_224:
                case IMB_AUTH_HMAC_SHA_256: {
                        SHA256_CTX c;
                        if (h == IMB_AUTH_HMAC_SHA_224)
                                SHA224_Init(&c);
                        else
                                SHA256_Init(&c);
                        SHA256_Transform(&c, blk);
                        memcpy(out, c.h, 32);
                        break;
                }
                case IMB_AUTH_HMAC_SHA_384:
                case IMB_AUTH_HMAC_SHA_512: {
                        SHA512_CTX c;
                        if (h == IMB_AUTH_HMAC_SHA_384)
                                SHA384_Init(&c);
                        else
                                SHA512_Init(&c);
                        SHA512_Transform(&c, blk);
                        memcpy(out, c.h, 64);
                        break;
                }
                case IMB_AUTH_MD5: {
                        MD5_CTX c;
                        MD5_Init(&c);
                        MD5_Transform(&c, blk);
                        uint32_t w[4] = { c.A, c.B, c.C, c.D };
                        memcpy(out, w, 16);
                        break;
                }
                default: {
                        uint32_t st[8];
                        ref_sm3_init(st);
                        ref_sm3_compress(st, blk);
                        memcpy(out, st, 32);
                }
                }
        }
        switch (h) {
        case IMB_AUTH_HMAC_SHA_1:
                return 20;
        case IMB_AUTH_MD5:
                return 16;
        case IMB_AUTH_HMAC_SHA_384:
        case IMB_AUTH_HMAC_SHA_512:
                return 64;
        default:
                return 32;
        }
}

static void
be32(uint8_t *p, uint32_t v)
{
        p[0] = (uint8_t) (v >> 24);
        p[1] = (uint8_t) (v >> 16);
        p[2] = (uint8_t) (v >> 8);
        p[3] = (uint8_t) v;
}

static struct item *IT;
static IMB_JOB *kret;
static void
k_done(struct mmgr *mm, IMB_JOB *job, void *arg)
{
        (void) mm;
        (void) arg;
        kret = job;
}

/* run a cipher/hash job on 'user' whose key material was prepared by 'maker' */
static void
interchange(struct mmgr *maker, struct mmgr *user, const struct suite *cs, const struct suite *hs, uint64_t seed)
{
        struct rng r;
        struct genopt g;
        rng_seed(&r, seed);
        genopt_default(&g);
        g.slot = 0;
        g.len = 16 + (long) rng_below(&r, 100);
        item_gen(IT, cs, hs, &r, &g, maker); /* helpers of 'maker' prepare the key objects */
        item_expect(IT);
        kret = NULL;
        g_job_done = k_done;
        IMB_JOB *j = mm_get_next_job(user);
        item_fill_job(IT, j);
        mm_submit_job(user, 0, 0);
        while (mm_flush_job(user))
                ;
        g_job_done = NULL;
        if (kret) {
                char ctx[80];
                snprintf(ctx, sizeof ctx, "keys made by %s", variant_name(maker->variant));
                item_check(IT, kret, "C11", user, ctx);
        }
        n_interchange++;
        cov_hit("C11", "x|%s|%s|%s|%s", variant_name(maker->variant), variant_name(user->variant),
                cs ? cipher_name(cs->cipher) : "-", hs ? hash_name(hs->hash) : "-");
}

int
eng_keys(void)
{
        struct mmgr *MM[16];
        int nm = 0;
        guard_init(2);
        IT = item_new();
        for (int vi = 0; vi < g_nvariants; vi++) {
                MM[nm] = mm_new(g_variant_cfg[vi]);
                if (MM[nm])
                        nm++;
        }
        long per = g_opt.cases;
        for (int vi = 0; vi < nm; vi++) {
                struct mmgr *mm = MM[vi];
                IMB_MGR *m = mm->m;
                g_cm->cur_variant = mm->variant;
                for (long u = g_opt.shard; u < per; u += g_opt.nshards) {
                        struct rng r;
                        uint8_t key[200];
                        DECLARE_ALIGNED(uint8_t e[240], 16);
                        DECLARE_ALIGNED(uint8_t d[240], 16);
                        uint8_t re[240], rd[240];
                        rng_seed(&r, g_opt.seed * 7919 + (uint64_t) u * 13 + (uint64_t) vi);
                        g_case_no = u;
                        /* ---- AES key expansion, all three sizes */
                        for (int ks = 16; ks <= 32; ks += 8) {
                                size_t sz = 16 * ((size_t) ks / 4 + 7);
                                mk_key(&r, key, (size_t) ks, (uint64_t) u + (uint64_t) ks);
                                memset(e, 0xAA, sizeof e);
                                memset(d, 0xAA, sizeof d);
                                void *fn = ks == 16 ? (void *) m->keyexp_128 : ks == 24 ? (void *) m->keyexp_192 : (void *) m->keyexp_256;
                                mcall("aes_keyexp", fn, 3, (uint64_t) key, (uint64_t) e, (uint64_t) d);
                                ref_aes_expand_enc(key, ks, re);
                                ref_aes_expand_dec(key, ks, rd);
                                n_helper_calls++;
                                if (memcmp(e, re, sz))
                                        kviol(mm, ks == 16 ? "aes_keyexp_128|enc" : ks == 24 ? "aes_keyexp_192|enc" : "aes_keyexp_256|enc",
                                              "encryption schedule differs from FIPS-197 expansion", key, (size_t) ks);
                                if (memcmp(d, rd, sz))
                                        kviol(mm, ks == 16 ? "aes_keyexp_128|dec" : ks == 24 ? "aes_keyexp_192|dec" : "aes_keyexp_256|dec",
                                              "decryption schedule differs from the equivalent-inverse-cipher schedule", key, (size_t) ks);
                                cov_hit("C11", "%s|aes_keyexp_%d|cls%ld", variant_name(mm->variant), ks * 8, u % 5);
                                /* CMAC sub-keys (128 and 256) */
                                if (ks != 24) {
                                        DECLARE_ALIGNED(uint8_t s1[16], 16);
                                        DECLARE_ALIGNED(uint8_t s2[16], 16);
                                        uint8_t r1[16], r2[16];
                                        struct ref_aes_key ak;
                                        ak.keylen = ks;
                                        memcpy(ak.key, key, (size_t) ks);
                                        mcall("cmac_subkey_gen", ks == 16 ? (void *) m->cmac_subkey_gen_128 : (void *) m->cmac_subkey_gen_256, 3,
                                              (uint64_t) e, (uint64_t) s1, (uint64_t) s2);
                                        ref_cmac_subkeys(ref_aes_enc, &ak, r1, r2);
                                        n_helper_calls++;
                                        if (memcmp(s1, r1, 16) || memcmp(s2, r2, 16))
                                                kviol(mm, ks == 16 ? "cmac_subkey_gen_128" : "cmac_subkey_gen_256",
                                                      "CMAC sub-keys differ from SP 800-38B", key, (size_t) ks);
                                }
                        }
                        /* ---- XCBC */
                        {
                                DECLARE_ALIGNED(uint8_t k1[176], 16);
                                DECLARE_ALIGNED(uint8_t k2[16], 16);
                                DECLARE_ALIGNED(uint8_t k3[16], 16);
                                uint8_t r1[16], r2[16], r3[16], r1e[176];
                                mk_key(&r, key, 16, (uint64_t) u + 3);
                                mcall("xcbc_keyexp", (void *) m->xcbc_keyexp, 4, (uint64_t) key, (uint64_t) k1, (uint64_t) k2, (uint64_t) k3);
                                ref_xcbc_keys(key, r1, r2, r3);
                                ref_aes_expand_enc(r1, 16, r1e);
                                n_helper_calls++;
                                if (memcmp(k1, r1e, 176) || memcmp(k2, r2, 16) || memcmp(k3, r3, 16))
                                        kviol(mm, "xcbc_keyexp", "XCBC K1(expanded)/K2/K3 differ from RFC 3566", key, 16);
                        }
                        /* ---- HMAC ipad/opad for every hash, key lengths 0 .. 3 blocks + 1 */
                        {
                                static const IMB_HASH_ALG hs[] = { IMB_AUTH_HMAC_SHA_1,   IMB_AUTH_HMAC_SHA_224, IMB_AUTH_HMAC_SHA_256,
                                                                   IMB_AUTH_HMAC_SHA_384, IMB_AUTH_HMAC_SHA_512, IMB_AUTH_MD5,
                                                                   IMB_AUTH_HMAC_SM3 };
                                IMB_HASH_ALG h = hs[u % ARRAY_SZ(hs)];
                                size_t bs = (h == IMB_AUTH_HMAC_SHA_384 || h == IMB_AUTH_HMAC_SHA_512) ? 128 : 64;
                                static const int rel[] = { 1, -1, 0, 1, 2 };
                                size_t klen = (u / 7) % 11 < 5 ? (size_t) ((long) bs * (long) (1 + (u / 7) % 3 / 2) + rel[(u / 7) % 5])
                                                               : 1 + rng_below(&r, (uint32_t) (3 * bs + 1));
                                if (klen > sizeof key)
                                        klen = sizeof key;
                                if (klen == 0)
                                        klen = 1;
                                uint8_t ip[64], op[64], rip[64], rop[64];
                                mk_key(&r, key, klen, (uint64_t) u / 3);
                                memset(ip, 0xEE, 64);
                                memset(op, 0xEE, 64);
                                mcall("imb_hmac_ipad_opad", (void *) imb_hmac_ipad_opad, 6, (uint64_t) m, (uint64_t) h, (uint64_t) key,
                                      (uint64_t) klen, (uint64_t) ip, (uint64_t) op);
                                int err = imb_get_errno(m);
                                size_t ss = hmac_ref_state(h, key, klen, rip, rop);
                                n_helper_calls++;
                                if (h == IMB_AUTH_MD5 && klen > 64) {
                                        int untouched = 1;
                                        for (int i = 0; i < 64; i++)
                                                if (ip[i] != 0xEE || op[i] != 0xEE)
                                                        untouched = 0;
                                        if (err != IMB_ERR_KEY_LEN || !untouched) {
                                                char dd[160];
                                                snprintf(dd, sizeof dd, "HMAC-MD5 key longer than a block: errno %d (expected IMB_ERR_KEY_LEN), outputs %s", err,
                                                         untouched ? "untouched" : "modified");
                                                kviol(mm, "imb_hmac_ipad_opad|md5-long-key", dd, key, klen);
                                        }
                                } else if (err != 0 || memcmp(ip, rip, ss) || memcmp(op, rop, ss)) {
                                        char hn[80], dd[200];
                                        snprintf(hn, sizeof hn, "imb_hmac_ipad_opad|%s|%s", hash_name(h), klen > bs ? "long-key" : klen == bs ? "block-key" : "short-key");
                                        snprintf(dd, sizeof dd, "ipad/opad state differs from the reference (errno %d, key length %zu, block %zu)", err, klen, bs);
                                        kviol(mm, hn, dd, key, klen);
                                }
                                cov_hit("C11", "%s|hmac|%s|klen%zu", variant_name(mm->variant), hash_name(h), klen);
                        }
                        /* ---- SM4 */
                        {
                                DECLARE_ALIGNED(uint32_t se[32], 16);
                                DECLARE_ALIGNED(uint32_t sd[32], 16);
                                uint32_t rk[32];
                                int bad = 0;
                                mk_key(&r, key, 16, (uint64_t) u + 9);
                                mcall("sm4_keyexp", (void *) m->sm4_keyexp, 3, (uint64_t) key, (uint64_t) se, (uint64_t) sd);
                                ref_sm4_expand(key, rk);
                                n_helper_calls++;
                                for (int i = 0; i < 32; i++)
                                        if (se[i] != rk[i] || sd[i] != rk[31 - i])
                                                bad = 1;
                                if (bad)
                                        kviol(mm, "sm4_keyexp", "SM4 round keys differ from GB/T 32907", key, 16);
                        }
                        /* ---- GCM pre: the expanded AES key part is standard */
                        for (int ks = 16; ks <= 32; ks += 8) {
                                static struct gcm_key_data gk;
                                mk_key(&r, key, (size_t) ks, (uint64_t) u + 17 + (uint64_t) ks);
                                void *fn = ks == 16 ? (void *) m->gcm128_pre : ks == 24 ? (void *) m->gcm192_pre : (void *) m->gcm256_pre;
                                mcall("gcm_pre", fn, 2, (uint64_t) key, (uint64_t) &gk);
                                ref_aes_expand_enc(key, ks, re);
                                n_helper_calls++;
                                if (memcmp(gk.expanded_keys, re, 16 * ((size_t) ks / 4 + 7)))
                                        kviol(mm, "gcm_pre|expanded_keys", "AES schedule inside gcm_key_data differs from FIPS-197", key, (size_t) ks);
                        }
                        /* ---- GHASH pre-computation through its consumer on the same variant (the layout of
                         * the hash-key powers is variant specific): messages long enough to use every power */
                        {
                                static struct gcm_key_data gk;
                                static uint8_t msg[1040];
                                uint8_t tag[16], ex[16];
                                size_t len = (u % 5) == 0   ? 1 + rng_below(&r, 16)
                                             : (u % 5) == 1 ? 16 * (1 + rng_below(&r, 9))
                                             : (u % 5) == 2 ? 100 + rng_below(&r, 200)
                                                            : 1 + rng_below(&r, sizeof msg);
                                mk_key(&r, key, 16, (uint64_t) u + 23);
                                rng_bytes(&r, msg, len);
                                memset(&gk, 0xAA, sizeof gk);
                                mcall("ghash_pre", (void *) m->ghash_pre, 2, (uint64_t) key, (uint64_t) &gk);
                                memset(tag, 0, sizeof tag);
                                mcall("ghash", (void *) m->ghash, 5, (uint64_t) &gk, (uint64_t) msg, (uint64_t) len, (uint64_t) tag,
                                      (uint64_t) 16);
                                ref_ghash_raw(key, NULL, msg, len, ex);
                                n_helper_calls++;
                                if (memcmp(tag, ex, 16))
                                        kviol(mm, "ghash_pre|ghash", "GHASH computed from IMB_GHASH_PRE key material differs from SP 800-38D",
                                              key, 16);
                                cov_hit("C11", "%s|ghash_pre|cls%ld|len%s", variant_name(mm->variant), u % 5,
                                        len <= 16 ? "<=16" : len <= 128 ? "<=128" : len <= 512 ? "<=512" : ">512");
                        }
                        /* ---- GCM pre-computation (key expansion + hash-key powers) through one-shot encryption on
                         * the same variant; both IMB_AESxxx_GCM_PRE and _PRECOMP (powers from a given schedule) */
                        {
                                static struct gcm_key_data gk;
                                static struct gcm_context_data gctx;
                                static uint8_t pt[1040], ct[1040], ect[1040];
                                uint8_t iv[12], aad[40], tag[16], etag[16];
                                struct ref_aes_key ak;
                                int ks = 16 + 8 * (int) (u % 3);
                                int precomp = (int) ((u / 3) & 1);
                                size_t len = (u % 7) == 0 ? 0 : (u % 7) < 3 ? 1 + rng_below(&r, 64) : 1 + rng_below(&r, sizeof pt);
                                size_t aadl = rng_below(&r, sizeof aad + 1);
                                mk_key(&r, key, (size_t) ks, (uint64_t) u + 29);
                                rng_bytes(&r, pt, len);
                                rng_bytes(&r, iv, sizeof iv);
                                rng_bytes(&r, aad, sizeof aad);
                                memset(&gk, 0xAA, sizeof gk);
                                if (precomp) {
                                        void *kx = ks == 16 ? (void *) m->keyexp_128 : ks == 24 ? (void *) m->keyexp_192 : (void *) m->keyexp_256;
                                        void *pc = ks == 16   ? (void *) m->gcm128_precomp
                                                   : ks == 24 ? (void *) m->gcm192_precomp
                                                              : (void *) m->gcm256_precomp;
                                        mcall("aes_keyexp", kx, 3, (uint64_t) key, (uint64_t) gk.expanded_keys, (uint64_t) d);
                                        mcall("gcm_precomp", pc, 1, (uint64_t) &gk);
                                } else {
                                        void *fn = ks == 16 ? (void *) m->gcm128_pre : ks == 24 ? (void *) m->gcm192_pre : (void *) m->gcm256_pre;
                                        mcall("gcm_pre", fn, 2, (uint64_t) key, (uint64_t) &gk);
                                }
                                void *enc = ks == 16 ? (void *) m->gcm128_enc : ks == 24 ? (void *) m->gcm192_enc : (void *) m->gcm256_enc;
                                memset(tag, 0, sizeof tag);
                                mcall("gcm_enc", enc, 10, (uint64_t) &gk, (uint64_t) &gctx, (uint64_t) ct, (uint64_t) pt, (uint64_t) len,
                                      (uint64_t) iv, (uint64_t) aad, (uint64_t) aadl, (uint64_t) tag, (uint64_t) 16);
                                ak.keylen = ks;
                                memset(ak.key, 0, sizeof ak.key);
                                memcpy(ak.key, key, (size_t) ks);
                                ref_gcm(ref_aes_enc, &ak, 0, iv, 12, aad, aadl, pt, ect, len, etag, 16);
                                n_helper_calls++;
                                if (memcmp(tag, etag, 16) || memcmp(ct, ect, len))
                                        kviol(mm, precomp ? "gcm_precomp|gcm_enc" : "gcm_pre|gcm_enc",
                                              "AES-GCM output computed from the pre-computed key material differs from SP 800-38D", key,
                                              (size_t) ks);
                                cov_hit("C11", "%s|%s|%d|len%s", variant_name(mm->variant), precomp ? "gcm_precomp" : "gcm_pre", ks * 8,
                                        len == 0 ? "0" : len <= 128 ? "<=128" : len <= 512 ? "<=512" : ">512");
                        }
                        /* ---- 3GPP IV generators (variant independent exported functions) */
                        if (vi == 0) {
                                uint32_t count = (uint32_t) rng_u64(&r), fresh = (uint32_t) rng_u64(&r);
                                uint8_t bearer = (uint8_t) rng_below(&r, 32), dir = (uint8_t) rng_below(&r, 2);
                                uint8_t iv[32], ex[32];
                                if (u % 4 == 0)
                                        count = 0xffffffffu;
                                memset(iv, 0, sizeof iv);
                                mcall("snow3g_f8_iv_gen", (void *) snow3g_f8_iv_gen, 4, (uint64_t) count, (uint64_t) bearer, (uint64_t) dir, (uint64_t) iv);
                                be32(ex, count);
                                be32(ex + 4, ((uint32_t) bearer << 27) | ((uint32_t) dir << 26));
                                memcpy(ex + 8, ex, 8);
                                if (memcmp(iv, ex, 16))
                                        kviol(mm, "snow3g_f8_iv_gen", "IV layout differs from TS 35.215", iv, 16);
                                mcall("snow3g_f9_iv_gen", (void *) snow3g_f9_iv_gen, 4, (uint64_t) count, (uint64_t) fresh, (uint64_t) dir, (uint64_t) iv);
                                be32(ex, count);
                                be32(ex + 4, fresh);
                                be32(ex + 8, count ^ ((uint32_t) dir << 31));
                                be32(ex + 12, fresh ^ ((uint32_t) dir << 15));
                                if (memcmp(iv, ex, 16))
                                        kviol(mm, "snow3g_f9_iv_gen", "IV layout differs from TS 35.215", iv, 16);
                                mcall("kasumi_f8_iv_gen", (void *) kasumi_f8_iv_gen, 4, (uint64_t) count, (uint64_t) bearer, (uint64_t) dir, (uint64_t) iv);
                                memset(ex, 0, 8);
                                be32(ex, count);
                                ex[4] = (uint8_t) ((bearer << 3) | (dir << 2));
                                if (memcmp(iv, ex, 8))
                                        kviol(mm, "kasumi_f8_iv_gen", "IV layout differs from TS 35.201", iv, 8);
                                mcall("kasumi_f9_iv_gen", (void *) kasumi_f9_iv_gen, 3, (uint64_t) count, (uint64_t) fresh, (uint64_t) iv);
                                be32(ex, count);
                                be32(ex + 4, fresh);
                                if (memcmp(iv, ex, 8))
                                        kviol(mm, "kasumi_f9_iv_gen", "IV layout differs from TS 35.201", iv, 8);
                                mcall("zuc_eea3_iv_gen", (void *) zuc_eea3_iv_gen, 4, (uint64_t) count, (uint64_t) bearer, (uint64_t) dir, (uint64_t) iv);
                                memset(ex, 0, 16);
                                be32(ex, count);
                                ex[4] = (uint8_t) ((bearer << 3) | (dir << 2));
                                memcpy(ex + 8, ex, 8);
                                if (memcmp(iv, ex, 16))
                                        kviol(mm, "zuc_eea3_iv_gen", "IV layout differs from 128-EEA3 specification", iv, 16);
                                mcall("zuc_eia3_iv_gen", (void *) zuc_eia3_iv_gen, 4, (uint64_t) count, (uint64_t) bearer, (uint64_t) dir, (uint64_t) iv);
                                memset(ex, 0, 16);
                                be32(ex, count);
                                ex[4] = (uint8_t) (bearer << 3);
                                memcpy(ex + 8, ex, 8);
                                ex[8] ^= (uint8_t) (dir << 7);
                                ex[14] ^= (uint8_t) (dir << 7);
                                if (memcmp(iv, ex, 16))
                                        kviol(mm, "zuc_eia3_iv_gen", "IV layout differs from 128-EIA3 specification", iv, 16);
                                n_helper_calls += 6;
                                cov_hit("C11", "ivgen|b%u|d%u|c%d", bearer, dir, count == 0xffffffffu);
                        }
                        /* ---- interchange: material made by this variant consumed by the next one */
                        if (nm > 1 && (u % 3) == 0) {
                                struct mmgr *user = MM[(vi + 1 + (int) (u / 3) % (nm - 1)) % nm];
                                static const char *cnames[] = { "aes-cbc-128", "aes-cbc-256", "aes-ctr-192", "aes-ecb-128", "des-cbc", "3des-cbc",
                                                                "docsis-des", "sm4-cbc", "snow3g-uea2", "kasumi-uea1", "docsis-sec-256" };
                                static const char *hnames[] = { "hmac-sha1", "hmac-sha512", "hmac-md5", "hmac-sm3", "aes-xcbc", "aes-cmac",
                                                                "aes-cmac-256", "snow3g-uia2", "kasumi-uia1" };
                                const struct suite *cs = NULL, *hs = NULL;
                                if ((u / 3) & 1) {
                                        const char *nm_ = cnames[(u / 6) % ARRAY_SZ(cnames)];
                                        for (int i = 0; i < g_n_cipher_suites; i++)
                                                if (!strcmp(g_cipher_suites[i].name, nm_))
                                                        cs = &g_cipher_suites[i];
                                } else {
                                        const char *nm_ = hnames[(u / 6) % ARRAY_SZ(hnames)];
                                        for (int i = 0; i < g_n_hash_suites; i++)
                                                if (!strcmp(g_hash_suites[i].name, nm_))
                                                        hs = &g_hash_suites[i];
                                }
                                if (cs || hs)
                                        interchange(mm, user, cs, hs, g_opt.seed * 313 + (uint64_t) u);
                                g_cm->cur_variant = mm->variant;
                        }
                }
                /* weak / semi-weak DES keys through a consuming job (schedule layout is private) */
                if (g_opt.shard == vi % g_opt.nshards) {
                        static const uint8_t weak[][8] = {
                                { 0x01, 0x01, 0x01, 0x01, 0x01, 0x01, 0x01, 0x01 }, { 0xFE, 0xFE, 0xFE, 0xFE, 0xFE, 0xFE, 0xFE, 0xFE },
                                { 0xE0, 0xE0, 0xE0, 0xE0, 0xF1, 0xF1, 0xF1, 0xF1 }, { 0x1F, 0x1F, 0x1F, 0x1F, 0x0E, 0x0E, 0x0E, 0x0E },
                                { 0x01, 0xFE, 0x01, 0xFE, 0x01, 0xFE, 0x01, 0xFE }, { 0xFE, 0x01, 0xFE, 0x01, 0xFE, 0x01, 0xFE, 0x01 },
                                { 0x1F, 0xE0, 0x1F, 0xE0, 0x0E, 0xF1, 0x0E, 0xF1 }, { 0xE0, 0x1F, 0xE0, 0x1F, 0xF1, 0x0E, 0xF1, 0x0E },
                                { 0x01, 0xE0, 0x01, 0xE0, 0x01, 0xF1, 0x01, 0xF1 }, { 0xE0, 0x01, 0xE0, 0x01, 0xF1, 0x01, 0xF1, 0x01 },
                                { 0x1F, 0xFE, 0x1F, 0xFE, 0x0E, 0xFE, 0x0E, 0xFE }, { 0xFE, 0x1F, 0xFE, 0x1F, 0xFE, 0x0E, 0xFE, 0x0E },
                                { 0x01, 0x1F, 0x01, 0x1F, 0x01, 0x0E, 0x01, 0x0E }, { 0x1F, 0x01, 0x1F, 0x01, 0x0E, 0x01, 0x0E, 0x01 },
                                { 0xE0, 0xFE, 0xE0, 0xFE, 0xF1, 0xFE, 0xF1, 0xFE }, { 0xFE, 0xE0, 0xFE, 0xE0, 0xFE, 0xF1, 0xFE, 0xF1 },
                        };
                        const struct suite *des = NULL;
                        for (int i = 0; i < g_n_cipher_suites; i++)
                                if (!strcmp(g_cipher_suites[i].name, "des-cbc"))
                                        des = &g_cipher_suites[i];
                        for (unsigned w = 0; w < ARRAY_SZ(weak); w++) {
                                struct rng r;
                                struct genopt g;
                                uint8_t k32[32] = { 0 };
                                memcpy(k32, weak[w], 8);
                                rng_seed(&r, 77 + w);
                                genopt_default(&g);
                                g.slot = 0;
                                g.len = 64;
                                g.ckey = k32;
                                item_gen(IT, des, NULL, &r, &g, mm);
                                item_expect(IT);
                                kret = NULL;
                                g_job_done = k_done;
                                IMB_JOB *j = mm_get_next_job(mm);
                                item_fill_job(IT, j);
                                mm_submit_job(mm, 0, 0);
                                while (mm_flush_job(mm))
                                        ;
                                g_job_done = NULL;
                                if (kret)
                                        item_check(IT, kret, "C11", mm, "weak DES key");
                                n_helper_calls++;
                                cov_hit("C11", "%s|des-weak|%u", variant_name(mm->variant), w);
                        }
                }
        }
        cov_count("helper_calls", n_helper_calls);
        cov_count("interchange_jobs", n_interchange);
        return 0;
}
