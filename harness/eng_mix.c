/* Engine "mix" (C04): schedule fuzzer. Episodes mix focus suites that share an out-of-order manager
 * with background suites, chained jobs, unequal lengths, random flush / get-completed points; every
 * returned job is compared with the reference and a sample is replayed alone on a fresh manager. */
#include "imbv.h"

#define EP_MAX 56
struct live {
        struct item *it;
        const struct suite *cs, *hs;
        struct genopt g;
        struct rng gen_rng;
        int submitted, done;
        uint64_t order_no;
};
static struct live L[EP_MAX];
static int nlive;
static uint64_t g_checked, g_twins;
static struct item *twin;

static int
inflight_same(const struct live *me)
{
        int n = 0;
        for (int i = 0; i < nlive; i++)
                if (L[i].submitted && !L[i].done && L[i].cs == me->cs && L[i].hs == me->hs)
                        n++;
        return n;
}

static void
mix_done(struct mmgr *mm, IMB_JOB *job, void *arg)
{
        struct item *it = job->user_data;
        (void) arg;
        for (int i = 0; i < nlive; i++)
                if (L[i].it == it) {
                        if (L[i].done) {
                                ev_violation("C05", "C05|duplicate-return", "job returned twice", item_describe(it));
                                return;
                        }
                        int infl = inflight_same(&L[i]);
                        L[i].done = 1;
                        item_check(it, job, "C04", mm, "mix");
                        g_checked++;
                        cov_hit("C04", "%s|%s|%s|inflight%d|chain%d|ord%d|%s", variant_name(mm->variant),
                                cipher_name(it->cipher), hash_name(it->hash), infl,
                                it->cipher != IMB_CIPHER_NULL && it->hash != IMB_AUTH_NULL, it->order,
                                g_cm->cur_fn);
                        return;
                }
        ev_violation("C05", "C05|unknown-job", "returned job does not belong to the episode", NULL);
}

static const struct suite *
pick_cipher(struct rng *r)
{
        return &g_cipher_suites[rng_below(r, (uint32_t) g_n_cipher_suites)];
}
static const struct suite *
pick_hash(struct rng *r)
{
        return &g_hash_suites[rng_below(r, (uint32_t) g_n_hash_suites)];
}

static void
fault_report_mix(struct mmgr *mm)
{
        char key[256], det[400];
        struct item *it = NULL;
        for (int i = 0; i < nlive; i++)
                if (L[i].it->slot == g_fault.slot)
                        it = L[i].it;
        const char *sname = it ? item_fault_suite(it, g_fault.kind) : "?";
        snprintf(key, sizeof key, "C07|%s|%s|%s|%s|%s", variant_name(mm->variant), sname,
                 g_fault.is_write ? "write" : "read", g_fault.kind,
                 g_fault.pl == PL_END ? "past-end" : "before-start");
        snprintf(det, sizeof det, "fault in %s (mix) accessing %s object of %zu bytes at offset %ld from its end",
                 g_fault.ripsym, g_fault.kind, g_fault.obj_len, g_fault.off_from_obj_end);
        ev_violation("C07", key, det, it ? item_describe(it) : NULL);
}

int
eng_mix(void)
{
        guard_init(EP_MAX + 1);
        for (int i = 0; i < EP_MAX; i++)
                L[i].it = item_new();
        twin = item_new();
        long unit = 0;
        long per = g_opt.cases / g_nvariants + 1;
        for (int vi = 0; vi < g_nvariants; vi++) {
                int cfg = g_variant_cfg[vi];
                if (g_opt.cfg_only >= 0 && cfg != g_opt.cfg_only)
                        continue;
                struct mmgr *mm = mm_new(cfg);
                struct mmgr *mm2 = mm_new(cfg); /* for alone twins */
                if (!mm || !mm2)
                        continue;
                for (long e = 0; e < per; e++, unit++) {
                        if (unit % g_opt.nshards != g_opt.shard)
                                continue;
                        struct rng r;
                        sigjmp_buf jb;
                        rng_seed(&r, g_opt.seed * 7777 + (uint64_t) unit * 13 + 1);
                        g_case_no = unit;
                        /* focus suites */
                        const struct suite *fc[3], *fh[3];
                        int nf = 1 + (int) rng_below(&r, 3);
                        for (int i = 0; i < nf; i++) {
                                fc[i] = pick_cipher(&r);
                                fh[i] = pick_hash(&r);
                        }
                        int lenmode = (int) rng_below(&r, 5);
                        uint32_t base = 1 + rng_below(&r, 200);
                        nlive = 4 + (int) rng_below(&r, EP_MAX - 4);
                        for (int i = 0; i < nlive; i++) {
                                struct live *l = &L[i];
                                genopt_default(&l->g);
                                l->g.slot = i;
                                l->g.pl = rng_below(&r, 3) == 0 ? PL_START : PL_END;
                                switch (lenmode) {
                                case 0:
                                        l->g.len = 1 + (long) rng_below(&r, 24); /* tiny */
                                        break;
                                case 1:
                                        l->g.len = base; /* equal */
                                        break;
                                case 2:
                                        l->g.len = base + 7 * i; /* strictly increasing */
                                        break;
                                case 3:
                                        l->g.len = i == 0 ? 8000 + (long) rng_below(&r, 8000) : 1 + (long) rng_below(&r, 40);
                                        break; /* one huge + many tiny */
                                default:
                                        l->g.len = -1;
                                }
                                unsigned w = rng_below(&r, 10);
                                int f = (int) rng_below(&r, (uint32_t) nf);
                                if (w < 3) { /* focus cipher only */
                                        l->cs = fc[f];
                                        l->hs = NULL;
                                } else if (w < 5) { /* focus hash only */
                                        l->cs = NULL;
                                        l->hs = fh[f];
                                } else if (w < 8) { /* chained focus cipher + focus hash */
                                        l->cs = fc[f];
                                        l->hs = fh[(f + 1) % nf];
                                } else if (w < 9) { /* background */
                                        l->cs = pick_cipher(&r);
                                        l->hs = rng_below(&r, 2) ? pick_hash(&r) : NULL;
                                } else { /* AEAD background */
                                        l->cs = &g_aead_suites[rng_below(&r, (uint32_t) g_n_aead_suites)];
                                        l->hs = NULL;
                                }
                                l->gen_rng = r;
                                item_gen(l->it, l->cs, l->hs, &r, &l->g, mm);
                                item_expect(l->it);
                                l->submitted = l->done = 0;
                        }
                        g_job_done = mix_done;
                        g_job_done_arg = NULL;
                        if (sigsetjmp(jb, 1)) {
                                fault_report_mix(mm);
                                g_job_done = NULL;
                                mm = mm_new(cfg);
                                cov_count("faults_recovered", 1);
                                continue;
                        }
                        g_fault_jmp = &jb;
                        unsigned pflush = rng_below(&r, 3) == 0 ? 0 : rng_below(&r, 50);
                        unsigned pgc = rng_below(&r, 40);
                        for (int i = 0; i < nlive; i++) {
                                IMB_JOB *j = mm_get_next_job(mm);
                                item_fill_job(L[i].it, j);
                                L[i].submitted = 1;
                                mm_submit_job(mm, (int) rng_below(&r, 4) == 0, 0);
                                if (rng_below(&r, 100) < pflush)
                                        mm_flush_job(mm);
                                if (rng_below(&r, 100) < pgc)
                                        while (mm_get_completed_job(mm))
                                                ;
                                if (rng_below(&r, 40) == 0) /* whole drain mid-episode */
                                        while (mm_flush_job(mm))
                                                ;
                        }
                        while (mm_flush_job(mm))
                                ;
                        g_fault_jmp = NULL;
                        mm_queue_size(mm);
                        for (int i = 0; i < nlive; i++)
                                if (!L[i].done)
                                        ev_violation("C05", "C05|lost-job", "job never returned after draining",
                                                     item_describe(L[i].it));
                        g_job_done = NULL;
                        /* alone twins */
                        for (int i = 0; i < nlive; i++) {
                                if (rng_below(&r, 20) != 0 || !L[i].done)
                                        continue;
                                struct live *l = &L[i];
                                struct rng gr = l->gen_rng;
                                struct genopt g2 = l->g;
                                sigjmp_buf jb2;
                                g2.slot = EP_MAX;
                                item_gen(twin, l->cs, l->hs, &gr, &g2, mm2);
                                if (sigsetjmp(jb2, 1)) {
                                        mm2 = mm_new(cfg);
                                        continue; /* reported by the main run already */
                                }
                                g_fault_jmp = &jb2;
                                IMB_JOB *j = mm_get_next_job(mm2);
                                item_fill_job(twin, j);
                                IMB_JOB *rj = mm_submit_job(mm2, 0, 0);
                                if (!rj)
                                        rj = mm_flush_job(mm2);
                                g_fault_jmp = NULL;
                                g_twins++;
                                int bad = 0;
                                if (!rj || rj->status != IMB_STATUS_COMPLETED)
                                        bad = 1;
                                else {
                                        const uint8_t *a = l->it->inplace ? l->it->src : l->it->dst;
                                        const uint8_t *b = twin->inplace ? twin->src : twin->dst;
                                        uint32_t n = l->it->inplace ? l->it->buf_len : l->it->dst_len;
                                        if (l->it->cipher != IMB_CIPHER_NULL && n && memcmp(a, b, n))
                                                bad = 2;
                                        /* PON with PLI <= 4: the CRC half of the tag is not specified (stale register on SSE/AVX) */
                                        uint32_t tn = l->it->tag_unspec ? 0 : (l->it->cipher == IMB_CIPHER_PON_AES_CNTR && !l->it->pon_crc_defined) ? 4 : l->it->tag_len;
                                        if (l->it->tag_len && memcmp(l->it->tag, twin->tag, tn))
                                                bad = 3;
                                }
                                if (bad) {
                                        char key[200], det[200];
                                        snprintf(key, sizeof key, "C04|%s|%s|%s|alone-differs", variant_name(mm->variant),
                                                 cipher_name(l->it->cipher), hash_name(l->it->hash));
                                        snprintf(det, sizeof det,
                                                 "job result inside the schedule differs from the same job run alone "
                                                 "(kind %d)",
                                                 bad);
                                        ev_violation("C04", key, det, item_describe(l->it));
                                }
                        }
                        cov_count("episodes", 1);
                        cov_count("jobs", (uint64_t) nlive);
                }
                cov_count("ring_wraps", mm->n_wraps);
                mm_free(mm);
                mm_free(mm2);
        }
        cov_count("jobs_checked", g_checked);
        cov_count("alone_twins", g_twins);
        return 0;
}
