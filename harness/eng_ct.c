/* Engine "ct" (C19): SAFE_LOOKUP constant-time check by definedness taint under valgrind memcheck.
 *
 * Must run under `valgrind --tool=memcheck`.  For DES / 3DES / DOCSIS-DES, KASUMI (F8, F9) and
 * SNOW3G (UEA2, UIA2) every key object handed to the library (expanded schedules) is marked
 * UNDEFINED (= secret) before the job is submitted; IV, lengths and pointers stay defined
 * (= public).  memcheck then reports every conditional branch that depends on an undefined value
 * and every memory access whose ADDRESS depends on one - exactly "branch on / address from secret".
 * The error counter is sampled around the library calls of each case; any increase is a violation.
 * Outputs are made defined again before the harness compares them with the reference models.
 *
 * Positive control at start: a table-driven S-box lookup indexed by a secret byte and a branch on a
 * secret bit in harness code MUST raise the counter, else the run is a harness failure (blind).
 * Negative control: a secret-independent copy/XOR of the tainted key must NOT raise it.
 */
#include "imbv.h"
#include <valgrind/memcheck.h>

static uint64_t
verrs(void)
{
        return (uint64_t) VALGRIND_COUNT_ERRORS;
}

static volatile uint8_t ctl_tab[256];
static volatile unsigned ctl_sink;
static void __attribute__((noinline))
control_lookup(const uint8_t *secret)
{
        ctl_sink += ctl_tab[secret[0]]; /* address from secret */
}
static void __attribute__((noinline))
control_branch(const uint8_t *secret)
{
        if (secret[1] & 1) /* branch on secret */
                ctl_sink += 3;
}
static void __attribute__((noinline))
control_clean(const uint8_t *secret, uint8_t *out)
{
        for (int i = 0; i < 16; i++)
                out[i] = (uint8_t) (secret[i] ^ 0x5a);
}

struct ctcase {
        const char *cs, *hs; /* suite names */
        int bits;            /* bit-length suite */
};
static const struct ctcase cases[] = {
        { "des-cbc", NULL, 0 },     { "3des-cbc", NULL, 0 },    { "docsis-des", NULL, 0 },  { "kasumi-uea1", NULL, 1 },
        { NULL, "kasumi-uia1", 0 }, { "snow3g-uea2", NULL, 1 }, { NULL, "snow3g-uia2", 0 }, { "docsis-des", "hmac-sha1", 0 },
        { "snow3g-uea2", "snow3g-uia2", 1 },
};

static const struct suite *
fsu(const struct suite *t, int n, const char *name)
{
        if (!name)
                return NULL;
        for (int i = 0; i < n; i++)
                if (!strcmp(t[i].name, name))
                        return &t[i];
        harness_fail("ct: suite %s missing", name);
}

static int n_done;
static void
ct_done(struct mmgr *mm, IMB_JOB *job, void *arg)
{
        (void) mm;
        (void) job;
        (void) arg;
        n_done++;
}

#define NB 20
static struct item *B[NB];

static void
taint_keys(struct item *it, int on)
{
        for (int i = 0; i < it->k.nobjs; i++) {
                if (on)
                        (void) VALGRIND_MAKE_MEM_UNDEFINED(it->k.objs[i].p, it->k.objs[i].n);
                else
                        (void) VALGRIND_MAKE_MEM_DEFINED(it->k.objs[i].p, it->k.objs[i].n);
        }
}
static void
define_outputs(struct item *it)
{
        (void) VALGRIND_MAKE_MEM_DEFINED(it->src, it->buf_len);
        if (it->dst)
                (void) VALGRIND_MAKE_MEM_DEFINED(it->dst, it->buf_len);
        if (it->tag)
                (void) VALGRIND_MAKE_MEM_DEFINED(it->tag, it->tag_len ? it->tag_len : 4);
}

int
eng_ct(void)
{
        if (!RUNNING_ON_VALGRIND)
                harness_fail("ct: this engine must run under valgrind memcheck");
        guard_init(NB + 2);
        /* ---- controls */
        {
                uint8_t sec[16], out[16];
                for (int i = 0; i < 256; i++)
                        ctl_tab[i] = (uint8_t) (i * 7);
                memset(sec, 0x11, sizeof sec);
                (void) VALGRIND_MAKE_MEM_UNDEFINED(sec, sizeof sec);
                uint64_t e0 = verrs();
                control_clean(sec, out);
                uint64_t e1 = verrs();
                control_lookup(sec);
                uint64_t e2 = verrs();
                control_branch(sec);
                uint64_t e3 = verrs();
                if (e1 != e0)
                        harness_fail("ct: negative control raised %llu errors", (unsigned long long) (e1 - e0));
                if (e2 == e1 || e3 == e2)
                        harness_fail("ct: positive control not detected (lookup %llu, branch %llu): memcheck is blind",
                                     (unsigned long long) (e2 - e1), (unsigned long long) (e3 - e2));
                cov_count("ct_controls_ok", 1);
                (void) VALGRIND_MAKE_MEM_DEFINED(sec, sizeof sec);
                (void) VALGRIND_MAKE_MEM_DEFINED(out, sizeof out);
        }
        uint64_t ncases = 0, njobs = 0;
        static const int lens[] = { 1, 7, 8, 9, 15, 16, 17, 24, 31, 32, 33, 47, 63, 64, 65, 100, 128, 255, 256, 500, 1000 };
        for (int v = 0; v < g_nvariants; v++) {
                int cfg = g_variant_cfg[v];
                if (g_opt.cfg_only >= 0 && cfg != g_opt.cfg_only)
                        continue;
                struct mmgr *mm = mm_new(cfg);
                if (!mm)
                        continue;
                size_t mgr_sz = imb_get_mb_mgr_size();
                long caseno = 0;
                for (unsigned ci = 0; ci < ARRAY_SZ(cases); ci++)
                        for (long rep = 0; rep < g_opt.cases; rep++, caseno++) {
                                if ((caseno % g_opt.nshards) != g_opt.shard)
                                        continue;
                                struct rng r;
                                rng_seed(&r, g_opt.seed * 31337ULL + (uint64_t) caseno * 7 + (uint64_t) v);
                                g_case_no = caseno;
                                const struct suite *cs = fsu(g_cipher_suites, g_n_cipher_suites, cases[ci].cs);
                                const struct suite *hs = fsu(g_hash_suites, g_n_hash_suites, cases[ci].hs);
                                /* batch: 1 job (flush path), lanes-1, or more than the lane count (submit completes) */
                                int nb = rep % 3 == 0 ? 1 : (rep % 3 == 1 ? 3 + (int) rng_below(&r, 5) : 9 + (int) rng_below(&r, NB - 9));
                                int dir = (rep & 1) ? IMB_DIR_DECRYPT : IMB_DIR_ENCRYPT;
                                for (int i = 0; i < nb; i++) {
                                        struct genopt g;
                                        genopt_default(&g);
                                        g.slot = i;
                                        guard_reset_slot(i);
                                        g.pl = PL_PLAIN;
                                        g.dir = dir;
                                        g.len = lens[rng_below(&r, ARRAY_SZ(lens))];
                                        if (cs && (cs->cipher == IMB_CIPHER_DES || cs->cipher == IMB_CIPHER_DES3))
                                                g.len = (g.len + 7) & ~7L;
                                        if (!B[i])
                                                B[i] = item_new();
                                        item_gen(B[i], cs, hs, &r, &g, mm);
                                        item_expect(B[i]);
                                }
                                for (int i = 0; i < nb; i++)
                                        taint_keys(B[i], 1);
                                n_done = 0;
                                g_job_done = ct_done;
                                uint64_t e0 = verrs();
                                for (int i = 0; i < nb; i++) {
                                        IMB_JOB *j = mm_get_next_job(mm);
                                        item_fill_job(B[i], j);
                                        mm_submit_job(mm, 0, 0);
                                }
                                while (mm_flush_job(mm))
                                        ;
                                uint64_t e1 = verrs();
                                g_job_done = NULL;
                                /* declassify before the harness looks at anything */
                                for (int i = 0; i < nb; i++) {
                                        taint_keys(B[i], 0);
                                        define_outputs(B[i]);
                                }
                                (void) VALGRIND_MAKE_MEM_DEFINED(mm->m, mgr_sz);
                                const char *vn = variant_name(mm->variant);
                                char alg[64];
                                snprintf(alg, sizeof alg, "%s+%s", cases[ci].cs ? cases[ci].cs : "null", cases[ci].hs ? cases[ci].hs : "null");
                                if (e1 != e0) {
                                        char key[200], det[300];
                                        snprintf(key, sizeof key, "C19|%s|%s|dir%d|secret-dependent-branch-or-address", vn, alg, dir);
                                        snprintf(det, sizeof det,
                                                 "memcheck reported %llu uses of key-derived (undefined) values as branch condition or address "
                                                 "while %d job(s) were processed (see valgrind output on stderr)",
                                                 (unsigned long long) (e1 - e0), nb);
                                        ev_violation("C19", key, det, NULL);
                                }
                                if (n_done != nb)
                                        harness_fail("ct: %d of %d jobs returned", n_done, nb);
                                /* results must still be right (the taint must not have changed anything) */
                                for (int i = 0; i < nb; i++) {
                                        B[i]->status_expected = IMB_STATUS_COMPLETED;
                                        item_check(B[i], NULL, "C19", mm, "ct run");
                                }
                                ncases++;
                                njobs += (uint64_t) nb;
                                cov_hit("C19", "%s|%s|dir%d|nb%d", vn, alg, dir, nb > 8 ? 9 : nb);
                        }
                /* ---- key set-up functions with the raw key secret (informational class: not "while processing a job") */
                if (g_opt.shard == 0) {
                        uint8_t key[32], sched[4096] __attribute__((aligned(64)));
                        struct rng r;
                        rng_seed(&r, g_opt.seed + 99);
                        static const char *kn[] = { "des_key_sched", "kasumi_init_f8_key_sched", "kasumi_init_f9_key_sched",
                                                    "snow3g_init_key_sched" };
                        for (int k = 0; k < 4; k++) {
                                rng_bytes(&r, key, sizeof key);
                                (void) VALGRIND_MAKE_MEM_UNDEFINED(key, 16);
                                uint64_t e0 = verrs();
                                switch (k) {
                                case 0:
                                        mcall(kn[k], (void *) mm->m->des_key_sched, 2, (uint64_t) sched, (uint64_t) key);
                                        break;
                                case 1:
                                        mcall(kn[k], (void *) mm->m->kasumi_init_f8_key_sched, 2, (uint64_t) key, (uint64_t) sched);
                                        break;
                                case 2:
                                        mcall(kn[k], (void *) mm->m->kasumi_init_f9_key_sched, 2, (uint64_t) key, (uint64_t) sched);
                                        break;
                                default:
                                        mcall(kn[k], (void *) mm->m->snow3g_init_key_sched, 2, (uint64_t) key, (uint64_t) sched);
                                }
                                uint64_t e1 = verrs();
                                (void) VALGRIND_MAKE_MEM_DEFINED(key, sizeof key);
                                (void) VALGRIND_MAKE_MEM_DEFINED(sched, sizeof sched);
                                cov_hit("ct_keysetup", "%s|%s|%s", variant_name(mm->variant), kn[k], e1 != e0 ? "secret-dependent" : "clean");
                                ev_printf("{\"ev\":\"extra\",\"name\":\"keysetup_%s_%s\",\"value\":\"%s (%llu memcheck errors)\"}",
                                          variant_name(mm->variant), kn[k], e1 != e0 ? "secret-dependent" : "clean",
                                          (unsigned long long) (e1 - e0));
                        }
                }
                /* ---- direct 3GPP functions with the key schedule secret */
                if (g_opt.shard == g_opt.nshards - 1) {
                        IMB_MGR *m = mm->m;
                        static uint8_t ks[8192] __attribute__((aligned(64))), sn[8192] __attribute__((aligned(64)));
                        static uint8_t in[8][512], out[8][512], iv[8][16], tag[16];
                        uint8_t key[16];
                        struct rng r;
                        rng_seed(&r, g_opt.seed + 4242);
                        size_t ksz = (size_t) mcall("kasumi_key_sched_size", (void *) m->kasumi_key_sched_size, 0);
                        size_t ssz = (size_t) mcall("snow3g_key_sched_size", (void *) m->snow3g_key_sched_size, 0);
                        if (ksz > sizeof ks || ssz > sizeof sn)
                                harness_fail("ct: key schedule larger than expected");
                        const void *pin[8];
                        void *pout[8];
                        const void *piv[8];
                        uint32_t lens8[8];
                        uint64_t ivs[8];
                        for (int i = 0; i < 8; i++) {
                                pin[i] = in[i];
                                pout[i] = out[i];
                                piv[i] = iv[i];
                        }
                        for (int d = 0; d < 13; d++) {
                                for (int rep = 0; rep < (g_opt.cases < 4 ? (int) g_opt.cases : 4); rep++) {
                                        rng_bytes(&r, key, 16);
                                        rng_bytes(&r, in, sizeof in);
                                        rng_bytes(&r, iv, sizeof iv);
                                        for (int i = 0; i < 8; i++) {
                                                lens8[i] = 1 + rng_below(&r, 300);
                                                ivs[i] = rng_u64(&r);
                                        }
                                        uint32_t L = lens8[0];
                                        const char *nm;
                                        if (d < 7)
                                                mcall(d >= 5 ? "kasumi_init_f9_key_sched" : "kasumi_init_f8_key_sched",
                                                      d >= 5 ? (void *) m->kasumi_init_f9_key_sched : (void *) m->kasumi_init_f8_key_sched, 2,
                                                      (uint64_t) key, (uint64_t) ks);
                                        else
                                                mcall("snow3g_init_key_sched", (void *) m->snow3g_init_key_sched, 2, (uint64_t) key, (uint64_t) sn);
                                        (void) VALGRIND_MAKE_MEM_UNDEFINED(ks, ksz);
                                        (void) VALGRIND_MAKE_MEM_UNDEFINED(sn, ssz);
                                        uint64_t e0 = verrs();
                                        switch (d) {
                                        case 0:
                                                mcall(nm = "f8_1_buffer", (void *) m->f8_1_buffer, 5, (uint64_t) ks, ivs[0], (uint64_t) in[0],
                                                      (uint64_t) out[0], (uint64_t) L);
                                                break;
                                        case 1:
                                                mcall(nm = "f8_1_buffer_bit", (void *) m->f8_1_buffer_bit, 6, (uint64_t) ks, ivs[0], (uint64_t) in[0],
                                                      (uint64_t) out[0], (uint64_t) (L * 8 - 3), (uint64_t) 3);
                                                break;
                                        case 2:
                                                mcall(nm = "f8_2_buffer", (void *) m->f8_2_buffer, 9, (uint64_t) ks, ivs[0], ivs[1], (uint64_t) in[0],
                                                      (uint64_t) out[0], (uint64_t) lens8[0], (uint64_t) in[1], (uint64_t) out[1], (uint64_t) lens8[1]);
                                                break;
                                        case 3:
                                                mcall(nm = "f8_4_buffer", (void *) m->f8_4_buffer, 14, (uint64_t) ks, ivs[0], ivs[1], ivs[2], ivs[3],
                                                      (uint64_t) in[0], (uint64_t) out[0], (uint64_t) in[1], (uint64_t) out[1], (uint64_t) in[2],
                                                      (uint64_t) out[2], (uint64_t) in[3], (uint64_t) out[3], (uint64_t) L);
                                                break;
                                        case 4:
                                                mcall(nm = "f8_n_buffer", (void *) m->f8_n_buffer, 6, (uint64_t) ks, (uint64_t) ivs, (uint64_t) pin,
                                                      (uint64_t) pout, (uint64_t) lens8, (uint64_t) 5);
                                                break;
                                        case 5:
                                                mcall(nm = "f9_1_buffer", (void *) m->f9_1_buffer, 4, (uint64_t) ks, (uint64_t) in[0], (uint64_t) L,
                                                      (uint64_t) tag);
                                                break;
                                        case 6:
                                                mcall(nm = "f9_1_buffer_user", (void *) m->f9_1_buffer_user, 6, (uint64_t) ks, ivs[0], (uint64_t) in[0],
                                                      (uint64_t) (L * 8 - 5), (uint64_t) tag, (uint64_t) 1);
                                                break;
                                        case 7:
                                                mcall(nm = "snow3g_f8_1_buffer", (void *) m->snow3g_f8_1_buffer, 5, (uint64_t) sn, (uint64_t) iv[0],
                                                      (uint64_t) in[0], (uint64_t) out[0], (uint64_t) L);
                                                break;
                                        case 8:
                                                mcall(nm = "snow3g_f8_1_buffer_bit", (void *) m->snow3g_f8_1_buffer_bit, 6, (uint64_t) sn,
                                                      (uint64_t) iv[0], (uint64_t) in[0], (uint64_t) out[0], (uint64_t) (L * 8 - 3), (uint64_t) 3);
                                                break;
                                        case 9:
                                                mcall(nm = "snow3g_f8_2_buffer", (void *) m->snow3g_f8_2_buffer, 9, (uint64_t) sn, (uint64_t) iv[0],
                                                      (uint64_t) iv[1], (uint64_t) in[0], (uint64_t) out[0], (uint64_t) lens8[0], (uint64_t) in[1],
                                                      (uint64_t) out[1], (uint64_t) lens8[1]);
                                                break;
                                        case 10:
                                                mcall(nm = "snow3g_f8_n_buffer", (void *) m->snow3g_f8_n_buffer, 6, (uint64_t) sn, (uint64_t) piv,
                                                      (uint64_t) pin, (uint64_t) pout, (uint64_t) lens8, (uint64_t) 7);
                                                break;
                                        case 11: {
                                                const void *pk[8];
                                                for (int i = 0; i < 8; i++)
                                                        pk[i] = sn;
                                                mcall(nm = "snow3g_f8_8_buffer_multikey", (void *) m->snow3g_f8_8_buffer_multikey, 5, (uint64_t) pk,
                                                      (uint64_t) piv, (uint64_t) pin, (uint64_t) pout, (uint64_t) lens8);
                                                break;
                                        }
                                        default:
                                                mcall(nm = "snow3g_f9_1_buffer", (void *) m->snow3g_f9_1_buffer, 5, (uint64_t) sn, (uint64_t) iv[0],
                                                      (uint64_t) in[0], (uint64_t) (L * 8 - 1), (uint64_t) tag);
                                        }
                                        uint64_t e1 = verrs();
                                        (void) VALGRIND_MAKE_MEM_DEFINED(ks, sizeof ks);
                                        (void) VALGRIND_MAKE_MEM_DEFINED(sn, sizeof sn);
                                        (void) VALGRIND_MAKE_MEM_DEFINED(out, sizeof out);
                                        (void) VALGRIND_MAKE_MEM_DEFINED(tag, sizeof tag);
                                        if (e1 != e0) {
                                                char key_[200], det[200];
                                                snprintf(key_, sizeof key_, "C19|%s|direct|%s|secret-dependent-branch-or-address",
                                                         variant_name(mm->variant), nm);
                                                snprintf(det, sizeof det, "memcheck reported %llu uses of key-schedule-derived values as branch or address",
                                                         (unsigned long long) (e1 - e0));
                                                ev_violation("C19", key_, det, NULL);
                                        }
                                        cov_hit("C19", "%s|direct|%s|len%u", variant_name(mm->variant), nm, L % 9);
                                        cov_count("ct_direct_calls_tainted", 1);
                                }
                        }
                }
                mm_free(mm);
        }
        cov_count("ct_cases", ncases);
        cov_count("ct_jobs_tainted", njobs);
        return 0;
}
