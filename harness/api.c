/* Monitored manager: every scheduler call goes through the trampoline and is checked online by
 * M-RING (FIFO model), M-ERRNO (error-code model) and M-DESC (descriptor snapshots). */
#include "imbv.h"

__thread job_done_cb g_job_done;
__thread void *g_job_done_arg;

static const char *
vn(struct mmgr *mm)
{
        return variant_name(mm->variant);
}

static void
ring_viol(struct mmgr *mm, const char *what, const char *detail)
{
        char key[200];
        snprintf(key, sizeof key, "C05|%s|%s|%s", vn(mm), mm->burst_mode ? "burst" : "job", what);
        ev_violation("C05", key, detail, NULL);
}

static int
cur_errno(struct mmgr *mm)
{
        if (mm->strict_errno == 2)
                return mm->m->imb_errno;
        return imb_get_errno(mm->m);
}

static __thread char errno_ctx[80];
static void
errno_check(struct mmgr *mm, const char *call, int expect)
{
        if (!mm->strict_errno || expect == -2)
                return;
        int e = cur_errno(mm);
        int ok = expect == -1 ? (e != 0) : (e == expect);
        cov_count("errno_checks", 1);
        if (!ok) {
                char key[200], det[200];
                snprintf(key, sizeof key, "C14|%s|errno|%s|expect%d|got%d%s", vn(mm), call, expect, e, errno_ctx);
                snprintf(det, sizeof det, "after %s the manager error code is %d (%s), expected %d", call,
                         e, imb_get_strerror(e), expect);
                ev_violation("C14", key, det, NULL);
        }
}

void
mm_init_arch(IMB_MGR *m, int arch)
{
        IMB_ARCH a;
        switch (arch) {
        case 0:
                mcall("init_mb_mgr_sse", (void *) init_mb_mgr_sse, 1, (uint64_t) m);
                break;
        case 1:
                mcall("init_mb_mgr_avx2", (void *) init_mb_mgr_avx2, 1, (uint64_t) m);
                break;
        case 2:
                mcall("init_mb_mgr_avx512", (void *) init_mb_mgr_avx512, 1, (uint64_t) m);
                break;
        default:
                mcall("init_mb_mgr_auto", (void *) init_mb_mgr_auto, 2, (uint64_t) m, (uint64_t) &a);
        }
}

static void
model_reset(struct mmgr *mm)
{
        mm->head = 0;
        mm->count = 0;
        mm->next_slot = NULL;
}

struct mmgr *
mm_wrap(IMB_MGR *m, int cfg)
{
        struct mmgr *mm = calloc(1, sizeof *mm);
        mm->m = m;
        mm->cfg = cfg;
        mm->variant = (int) m->used_arch * 8 + m->used_arch_type;
        mm->strict_errno = 1;
        if (g_cm)
                g_cm->cur_variant = mm->variant;
        return mm;
}

struct mmgr *
mm_new(int cfg)
{
        IMB_MGR *m = (IMB_MGR *) mcall("alloc_mb_mgr", (void *) alloc_mb_mgr, 1, g_cfgs[cfg].flags);
        if (!m)
                harness_fail("alloc_mb_mgr returned NULL");
        mm_init_arch(m, g_cfgs[cfg].arch);
        /* the manager's own field: imb_get_errno() may fall back to the process-wide mirror, which another thread's
         * failing call can set (known finding KF-ERRNO-GLOBAL-MIRROR) */
        if (m->imb_errno != 0 || m->used_arch == IMB_ARCH_NONE) {
                mcall("free_mb_mgr", (void *) free_mb_mgr, 1, (uint64_t) m);
                return NULL;
        }
        struct mmgr *mm = mm_wrap(m, cfg);
        mm->owns = 1;
        return mm;
}

void
mm_reinit(struct mmgr *mm, int cfg)
{
        mm_init_arch(mm->m, g_cfgs[cfg].arch);
        mm->cfg = cfg;
        mm->variant = (int) mm->m->used_arch * 8 + mm->m->used_arch_type;
        if (g_cm)
                g_cm->cur_variant = mm->variant;
        model_reset(mm);
}

void
mm_free(struct mmgr *mm)
{
        if (!mm)
                return;
        if (mm->owns)
                mcall("free_mb_mgr", (void *) free_mb_mgr, 1, (uint64_t) mm->m);
        free(mm);
}

static struct ring_ent *
fifo_at(struct mmgr *mm, int i)
{
        return &mm->fifo[(mm->head + i) % RING_CAP];
}

static int
fifo_find(struct mmgr *mm, IMB_JOB *slot)
{
        for (int i = 0; i < mm->count; i++)
                if (fifo_at(mm, i)->slot == slot)
                        return i;
        return -1;
}

/* M-DESC */
static void
desc_check(struct mmgr *mm, const struct ring_ent *e, const IMB_JOB *j)
{
        const IMB_JOB *s = &e->snap;
        const char *f = NULL;
#define CMP(field)                                                                                 \
        if (!f && memcmp(&s->field, &j->field, sizeof s->field) != 0)                              \
                f = #field;
        CMP(enc_keys)
        CMP(dec_keys)
        CMP(key_len_in_bytes)
        CMP(src)
        CMP(dst)
        CMP(cipher_start_src_offset_in_bytes)
        CMP(hash_start_src_offset_in_bytes)
        CMP(iv)
        CMP(auth_tag_output)
        if (s->hash_alg == IMB_AUTH_SNOW_V_AEAD) {
                /* u.SNOW_V_AEAD.reserved is documented scratch space */
                CMP(u.SNOW_V_AEAD.aad)
                CMP(u.SNOW_V_AEAD.aad_len_in_bytes)
        } else {
                CMP(u)
        }
        CMP(cipher_mode)
        CMP(cipher_direction)
        CMP(hash_alg)
        CMP(chain_order)
        CMP(user_data)
        CMP(user_data2)
        CMP(cipher_func)
        CMP(hash_func)
        CMP(cipher_fields)
        CMP(suite_id)
        CMP(session_id)
#undef CMP
        cov_count("desc_checks", 1);
        if (f) {
                char key[200], det[300];
                snprintf(key, sizeof key, "C14|%s|desc|%s|cipher%d|hash%d", vn(mm), f, s->cipher_mode,
                         s->hash_alg);
                snprintf(det, sizeof det,
                         "descriptor field %s changed between submit and return (cipher %s hash %s dir %d)",
                         f, cipher_name(s->cipher_mode), hash_name(s->hash_alg), s->cipher_direction);
                ev_violation("C14", key, det, NULL);
        }
}

static void
handed_back(struct mmgr *mm, IMB_JOB *r, const char *call)
{
        char det[300];
        if (mm->count == 0) {
                snprintf(det, sizeof det, "%s returned job %p although the model queue is empty", call,
                         (void *) r);
                ring_viol(mm, "phantom", det);
                return;
        }
        struct ring_ent *e = fifo_at(mm, 0);
        if (e->slot != r) {
                int pos = fifo_find(mm, r);
                snprintf(det, sizeof det,
                         "%s returned slot %ld but the oldest outstanding job is slot %ld (returned job is "
                         "at queue position %d, -1 = not outstanding: duplicate/phantom)",
                         call, (long) (r - mm->m->jobs), (long) (e->slot - mm->m->jobs), pos);
                ring_viol(mm, pos < 0 ? "phantom" : "order", det);
                if (pos < 0)
                        return;
                /* resynchronise the model: drop everything up to pos */
                mm->head = (mm->head + pos) % RING_CAP;
                mm->count -= pos;
                e = fifo_at(mm, 0);
        }
        /* status */
        if (e->expect_reject == 1) {
                if (r->status != IMB_STATUS_INVALID_ARGS) {
                        char key[200];
                        snprintf(key, sizeof key, "C12|%s|accepted-invalid|cipher%d|hash%d", vn(mm),
                                 e->snap.cipher_mode, e->snap.hash_alg);
                        snprintf(det, sizeof det,
                                 "job expected to be rejected came back with status %d via %s", r->status,
                                 call);
                        ev_violation("C12", key, det, NULL);
                }
        } else if (e->expect_reject == 0) {
                if (r->status != IMB_STATUS_COMPLETED) {
                        char key[200];
                        snprintf(key, sizeof key, "C05|%s|%s|status%d|cipher%d|hash%d", vn(mm),
                                 mm->burst_mode ? "burst" : "job", r->status, e->snap.cipher_mode,
                                 e->snap.hash_alg);
                        snprintf(det, sizeof det,
                                 "valid job handed back by %s with status %d (cipher %s hash %s)", call,
                                 r->status, cipher_name(e->snap.cipher_mode),
                                 hash_name(e->snap.hash_alg));
                        ev_violation(r->status == IMB_STATUS_INVALID_ARGS ? "C12" : "C05", key, det, NULL);
                }
        } else {
                if (r->status != IMB_STATUS_COMPLETED && r->status != IMB_STATUS_INVALID_ARGS &&
                    r->status != IMB_STATUS_INTERNAL_ERROR && r->status != IMB_STATUS_ERROR) {
                        char key[200];
                        snprintf(key, sizeof key, "C14|%s|partial-status%d", vn(mm), r->status);
                        snprintf(det, sizeof det, "job handed back by %s with non-final status %d", call,
                                 r->status);
                        ev_violation("C14", key, det, NULL);
                }
        }
        desc_check(mm, e, r);
        mm->head = (mm->head + 1) % RING_CAP;
        mm->count--;
        mm->n_returned++;
        if (g_job_done)
                g_job_done(mm, r, g_job_done_arg);
}

static void
qsize_check(struct mmgr *mm, const char *after)
{
        uint32_t q = (uint32_t) mcall("queue_size", (void *) mm->m->queue_size, 1, (uint64_t) mm->m);
        if (q != (uint32_t) mm->count) {
                char det[200];
                snprintf(det, sizeof det, "queue size reported %u after %s, model has %d outstanding", q,
                         after, mm->count);
                ring_viol(mm, "qsize", det);
        }
}

IMB_JOB *
mm_get_next_job(struct mmgr *mm)
{
        IMB_JOB *j = (IMB_JOB *) mcall("get_next_job", (void *) mm->m->get_next_job, 1, (uint64_t) mm->m);
        errno_check(mm, "get_next_job", 0);
        if (j == NULL) {
                ring_viol(mm, "next-null", "get_next_job returned NULL");
                return NULL;
        }
        if (j < mm->m->jobs || j >= mm->m->jobs + IMB_MAX_JOBS)
                ring_viol(mm, "next-outside", "get_next_job returned a pointer outside the ring");
        if (fifo_find(mm, j) >= 0) {
                char det[200];
                snprintf(det, sizeof det,
                         "get_next_job offered slot %ld which still holds a job awaiting return",
                         (long) (j - mm->m->jobs));
                ring_viol(mm, "slot-in-flight", det);
        }
        mm->next_slot = j;
        return j;
}

IMB_JOB *
mm_submit_job(struct mmgr *mm, int nocheck, int expect_err)
{
        IMB_JOB *slot = mm->next_slot;
        struct ring_ent *e;
        const char *cn = nocheck ? "submit_job_nocheck" : "submit_job";
        if (!slot)
                harness_fail("mm_submit_job without get_next_job");
        e = fifo_at(mm, mm->count);
        e->slot = slot;
        e->snap = *slot;
        e->expect_reject = expect_err == 0 ? 0 : ((expect_err == -2 || expect_err == -3) ? -1 : 1);
        if (expect_err == -3)
                expect_err = 0; /* accepted (error code 0), final status not predicted */
        e->id = mm->next_id++;
        mm->count++;
        mm->n_submit++;
        if (slot == &mm->m->jobs[IMB_MAX_JOBS - 1])
                mm->n_wraps++;
        int was = mm->count;
        mm->next_slot = NULL;
        snprintf(errno_ctx, sizeof errno_ctx, "|%s|%s", cipher_name(e->snap.cipher_mode), hash_name(e->snap.hash_alg));
        IMB_JOB *r = (IMB_JOB *) mcall(cn, (void *) (nocheck ? mm->m->submit_job_nocheck : mm->m->submit_job),
                                       1, (uint64_t) mm->m);
        errno_check(mm, cn, expect_err);
        if (g_abi_cov)
                cov_hit("abi_lane_state", "%s|%s%s|q%d|%s", vn(mm), cn, errno_ctx, was > 17 ? 18 : was,
                        r ? (r->status == IMB_STATUS_COMPLETED ? "completed" : "rejected") : "parked");
        errno_ctx[0] = 0;
        if (was >= IMB_MAX_JOBS) {
                mm->n_full++;
                if (r == NULL) {
                        ring_viol(mm, "full-null",
                                  "submit into a full queue returned NULL instead of the oldest job");
                }
        }
        if (r)
                handed_back(mm, r, cn);
        return r;
}

IMB_JOB *
mm_get_completed_job(struct mmgr *mm)
{
        IMB_JOB *r = (IMB_JOB *) mcall("get_completed_job", (void *) mm->m->get_completed_job, 1,
                                       (uint64_t) mm->m);
        errno_check(mm, "get_completed_job", 0);
        if (r) {
                if (r->status < IMB_STATUS_COMPLETED)
                        ring_viol(mm, "incomplete", "get_completed_job returned a job still in progress");
                handed_back(mm, r, "get_completed_job");
        }
        return r;
}

IMB_JOB *
mm_flush_job(struct mmgr *mm)
{
        int before = mm->count;
        IMB_JOB *r = (IMB_JOB *) mcall("flush_job", (void *) mm->m->flush_job, 1, (uint64_t) mm->m);
        errno_check(mm, "flush_job", 0);
        if (g_abi_cov)
                cov_hit("abi_lane_state", "%s|flush_job|%s|%s|q%d", vn(mm), r ? cipher_name(r->cipher_mode) : "-",
                        r ? hash_name(r->hash_alg) : "-", before > 17 ? 18 : before);
        if (r == NULL) {
                mm->n_flush_null++;
                if (before != 0) {
                        char det[200];
                        snprintf(det, sizeof det, "flush_job returned NULL with %d jobs outstanding", before);
                        ring_viol(mm, "flush-null", det);
                }
        } else
                handed_back(mm, r, "flush_job");
        return r;
}

uint32_t
mm_queue_size(struct mmgr *mm)
{
        uint32_t q = (uint32_t) mcall("queue_size", (void *) mm->m->queue_size, 1, (uint64_t) mm->m);
        errno_check(mm, "queue_size", 0);
        cov_count("qsize_checks", 1);
        if (q != (uint32_t) mm->count) {
                char det[200];
                snprintf(det, sizeof det, "queue size reported %u, model has %d outstanding", q, mm->count);
                ring_viol(mm, "qsize", det);
        }
        return q;
}

/* ---- burst API */
uint32_t
mm_get_next_burst(struct mmgr *mm, uint32_t n, IMB_JOB **jobs)
{
        mm->burst_mode = 1;
        uint32_t k = (uint32_t) mcall("get_next_burst", (void *) mm->m->get_next_burst, 3, (uint64_t) mm->m,
                                      (uint64_t) n, (uint64_t) jobs);
        if (n > IMB_MAX_BURST_SIZE) {
                errno_check(mm, "get_next_burst", IMB_ERR_BURST_SIZE);
                if (k != 0)
                        ring_viol(mm, "burst-size", "get_next_burst with n > 128 returned jobs");
                return k;
        }
        errno_check(mm, "get_next_burst", 0);
        uint32_t freeslots = (uint32_t) (IMB_MAX_JOBS - mm->count);
        uint32_t want = n < freeslots ? n : freeslots;
        if (k != want) {
                char det[200];
                snprintf(det, sizeof det, "get_next_burst(%u) returned %u, expected min(req, free=%u)", n, k,
                         freeslots);
                ring_viol(mm, "next-burst-count", det);
        }
        for (uint32_t i = 0; i < k; i++) {
                if (fifo_find(mm, jobs[i]) >= 0) {
                        ring_viol(mm, "slot-in-flight",
                                  "get_next_burst offered a slot that still holds a job awaiting return");
                        break;
                }
                for (uint32_t q = 0; q < i; q++)
                        if (jobs[q] == jobs[i]) {
                                ring_viol(mm, "slot-dup", "get_next_burst offered the same slot twice");
                                i = k;
                                break;
                        }
        }
        return k;
}

uint32_t
mm_submit_burst(struct mmgr *mm, uint32_t n, IMB_JOB **jobs, int nocheck, int expect_err)
{
        const char *cn = nocheck ? "submit_burst_nocheck" : "submit_burst";
        IMB_JOB *in[IMB_MAX_BURST_SIZE + 8];
        mm->burst_mode = 1;
        uint32_t nn = n > IMB_MAX_BURST_SIZE ? IMB_MAX_BURST_SIZE : n;
        if (jobs)
                memcpy(in, jobs, nn * sizeof *in);
        int before = mm->count;
        /* -3: valid jobs (accepted, error code 0) whose final status is not predicted (failing CUSTOM callbacks) */
        const int any_final = expect_err == -3;
        if (any_final)
                expect_err = 0;
        if (expect_err == 0) {
                for (uint32_t i = 0; i < nn; i++) {
                        struct ring_ent *e = fifo_at(mm, mm->count);
                        e->slot = in[i];
                        e->snap = *in[i];
                        e->expect_reject = any_final ? -1 : 0;
                        e->id = mm->next_id++;
                        mm->count++;
                        mm->n_submit++;
                        if (in[i] == &mm->m->jobs[IMB_MAX_JOBS - 1])
                                mm->n_wraps++;
                }
                if (mm->count >= IMB_MAX_JOBS)
                        mm->n_full++;
        }
        uint32_t r = (uint32_t) mcall(cn, (void *) (nocheck ? mm->m->submit_burst_nocheck : mm->m->submit_burst),
                                      3, (uint64_t) mm->m, (uint64_t) n, (uint64_t) jobs);
        errno_check(mm, cn, expect_err);
        if (expect_err != 0) {
                if (expect_err != -2 && r != 0)
                        ring_viol(mm, "rejected-burst-returned", "rejected burst returned jobs");
                if (expect_err != -2 && mm->count != before)
                        ring_viol(mm, "rejected-burst", "model changed");
                if (expect_err != -2)
                        qsize_check(mm, "rejected submit_burst");
                return r;
        }
        if (r > n) {
                char det[200];
                snprintf(det, sizeof det, "%s(%u) returned %u jobs (> n_jobs)", cn, n, r);
                ring_viol(mm, "burst-return-count", det);
        }
        if (mm->count >= IMB_MAX_JOBS && r == 0 && n > 0)
                ring_viol(mm, "full-null", "burst submit filled the queue but returned no job");
        for (uint32_t i = 0; i < r && jobs; i++)
                handed_back(mm, jobs[i], cn);
        return r;
}

uint32_t
mm_flush_burst(struct mmgr *mm, uint32_t max, IMB_JOB **jobs)
{
        mm->burst_mode = 1;
        int before = mm->count;
        uint32_t r = (uint32_t) mcall("flush_burst", (void *) mm->m->flush_burst, 3, (uint64_t) mm->m,
                                      (uint64_t) max, (uint64_t) jobs);
        errno_check(mm, "flush_burst", 0);
        uint32_t want = (uint32_t) before < max ? (uint32_t) before : max;
        if (r != want) {
                char det[200];
                snprintf(det, sizeof det, "flush_burst(max %u) returned %u with %d outstanding", max, r,
                         before);
                ring_viol(mm, "flush-burst-count", det);
        }
        for (uint32_t i = 0; i < r; i++)
                handed_back(mm, jobs[i], "flush_burst");
        return r;
}

int
mm_errno(struct mmgr *mm)
{
        return (int) mcall("imb_get_errno", (void *) imb_get_errno, 1, (uint64_t) mm->m);
}
