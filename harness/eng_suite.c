/* Engine "suite" (C06): exhaustive sweep of cipher_mode x key size x direction x hash_alg x chain
 * order on every variant, through the checked job API and through imb_set_session + burst API.
 * The acceptance model is written from the documentation (README table of supported algorithms
 * and the header rules about dedicated pairings), not from the validation code. */
#include "imbv.h"

enum { REJ = 0, ACC = 1, SILENT = 2 };

static int
key_legal(int c, unsigned k)
{
        switch (c) {
        case IMB_CIPHER_CBC:
        case IMB_CIPHER_CNTR:
        case IMB_CIPHER_ECB:
        case IMB_CIPHER_CNTR_BITLEN:
        case IMB_CIPHER_CFB:
        case IMB_CIPHER_GCM:
        case IMB_CIPHER_GCM_SGL:
                return k == 16 || k == 24 || k == 32 ? ACC : REJ;
        case IMB_CIPHER_CBCS_1_9:
                /* only AES-128 CBCS is documented; other AES key sizes: documents are silent */
                return k == 16 ? ACC : (k == 24 || k == 32 ? SILENT : REJ);
        case IMB_CIPHER_DOCSIS_SEC_BPI:
        case IMB_CIPHER_CCM:
        case IMB_CIPHER_ZUC_EEA3:
                return k == 16 || k == 32 ? ACC : REJ;
        case IMB_CIPHER_DES:
        case IMB_CIPHER_DOCSIS_DES:
                return k == 8 ? ACC : REJ;
        case IMB_CIPHER_DES3:
                return k == 24 ? ACC : REJ;
        case IMB_CIPHER_PON_AES_CNTR:
        case IMB_CIPHER_SNOW3G_UEA2_BITLEN:
        case IMB_CIPHER_KASUMI_UEA1_BITLEN:
        case IMB_CIPHER_SM4_ECB:
        case IMB_CIPHER_SM4_CBC:
        case IMB_CIPHER_SM4_CNTR:
        case IMB_CIPHER_SM4_GCM:
                return k == 16 ? ACC : REJ;
        case IMB_CIPHER_CHACHA20:
        case IMB_CIPHER_CHACHA20_POLY1305:
        case IMB_CIPHER_CHACHA20_POLY1305_SGL:
        case IMB_CIPHER_SNOW_V:
        case IMB_CIPHER_SNOW_V_AEAD:
                return k == 32 ? ACC : REJ;
        case IMB_CIPHER_NULL:
        case IMB_CIPHER_CUSTOM:
                return ACC;
        default:
                return REJ;
        }
}
/* dedicated partner hash of a cipher (0 = none) and dedicated partner cipher of a hash */
static int
cipher_partner(int c)
{
        switch (c) {
        case IMB_CIPHER_GCM:
                return IMB_AUTH_AES_GMAC;
        case IMB_CIPHER_CCM:
                return IMB_AUTH_AES_CCM;
        case IMB_CIPHER_PON_AES_CNTR:
                return IMB_AUTH_PON_CRC_BIP;
        case IMB_CIPHER_CHACHA20_POLY1305:
                return IMB_AUTH_CHACHA20_POLY1305;
        case IMB_CIPHER_CHACHA20_POLY1305_SGL:
                return IMB_AUTH_CHACHA20_POLY1305_SGL;
        case IMB_CIPHER_SNOW_V_AEAD:
                return IMB_AUTH_SNOW_V_AEAD;
        case IMB_CIPHER_GCM_SGL:
                return IMB_AUTH_GCM_SGL;
        case IMB_CIPHER_SM4_GCM:
                return IMB_AUTH_SM4_GCM;
        default:
                return 0;
        }
}
static int
hash_partner(int h)
{
        switch (h) {
        case IMB_AUTH_AES_GMAC:
                return IMB_CIPHER_GCM;
        case IMB_AUTH_AES_CCM:
                return IMB_CIPHER_CCM;
        case IMB_AUTH_PON_CRC_BIP:
                return IMB_CIPHER_PON_AES_CNTR;
        case IMB_AUTH_CHACHA20_POLY1305:
                return IMB_CIPHER_CHACHA20_POLY1305;
        case IMB_AUTH_CHACHA20_POLY1305_SGL:
                return IMB_CIPHER_CHACHA20_POLY1305_SGL;
        case IMB_AUTH_SNOW_V_AEAD:
                return IMB_CIPHER_SNOW_V_AEAD;
        case IMB_AUTH_GCM_SGL:
                return IMB_CIPHER_GCM_SGL;
        case IMB_AUTH_SM4_GCM:
                return IMB_CIPHER_SM4_GCM;
        case IMB_AUTH_DOCSIS_CRC32:
                return IMB_CIPHER_DOCSIS_SEC_BPI;
        default:
                return 0;
        }
}

static int
cell_model(int c, unsigned k, int d, int h, int o)
{
        int kl = key_legal(c, k);
        if (kl == REJ)
                return REJ;
        int cp = cipher_partner(c), hp = hash_partner(h);
        if (hp && hp != c)
                return REJ; /* dedicated hash with a foreign cipher */
        if (cp && cp != h)
                return REJ; /* dedicated AEAD cipher with a foreign hash */
        if (h == IMB_AUTH_DOCSIS_CRC32) {
                /* encrypt: hash then cipher; decrypt: cipher then hash */
                if ((d == IMB_DIR_ENCRYPT) != (o == IMB_ORDER_HASH_CIPHER))
                        return REJ;
        }
        if (c == IMB_CIPHER_CCM) {
                /* header/README: CCM encrypt hashes first, decrypt ciphers first; the other order is
                 * not described */
                if ((d == IMB_DIR_ENCRYPT) != (o == IMB_ORDER_HASH_CIPHER))
                        return SILENT;
        }
        return kl;
}

static unsigned
legal_keylen(int c, unsigned k)
{
        static const unsigned ks[] = { 16, 32, 24, 8 };
        if (key_legal(c, k) == ACC)
                return k;
        for (unsigned i = 0; i < 4; i++)
                if (key_legal(c, ks[i]) == ACC)
                        return ks[i];
        return 16;
}

static int
executable(int c, int h)
{
        /* pairs the item model can compute */
        if ((c == IMB_CIPHER_PON_AES_CNTR) != (h == IMB_AUTH_PON_CRC_BIP))
                return 0;
        if (c == IMB_CIPHER_GCM_SGL || c == IMB_CIPHER_CHACHA20_POLY1305_SGL)
                return 0; /* executed by the sgl engine (C10) */
        return 1;
}

struct outcome {
        int status;
        int err;
        uint8_t out[160];
        uint32_t outlen;
        uint8_t tag[MAX_TAG];
        uint32_t suite_id[2];
};
static struct item *IT;
static IMB_JOB *last_job;
static void
suite_done(struct mmgr *mm, IMB_JOB *job, void *arg)
{
        (void) mm;
        (void) arg;
        last_job = job;
}

int
eng_suite(void)
{
        guard_init(2);
        IT = item_new();
        long unit = 0;
        uint64_t ncells = 0, nacc = 0, nrej = 0, nsilent = 0, nexec = 0, nsilent_acc = 0;
        for (int vi = 0; vi < g_nvariants; vi++) {
                int cfg = g_variant_cfg[vi];
                if (g_opt.cfg_only >= 0 && cfg != g_opt.cfg_only)
                        continue;
                struct mmgr *mmj = mm_new(cfg), *mmb = mm_new(cfg); /* job API and burst API managers */
                struct mmgr *mm = mmj;
                if (!mmj || !mmb)
                        continue;
                const char *vn = variant_name(mm->variant);
                for (int c = 1; c < IMB_CIPHER_NUM; c++)
                        for (int h = 1; h < IMB_AUTH_NUM; h++) {
                                if (unit++ % g_opt.nshards != g_opt.shard)
                                        continue;
                                if (g_opt.from_case > 0 && h != g_opt.from_case % 100)
                                        continue; /* debugging aid: --from <hash>[+100*cipher] */
                                if (g_opt.from_case >= 100 && c != g_opt.from_case / 100)
                                        continue;
                                g_case_no = unit;
                                for (unsigned ki = 0; ki < 4; ki++)
                                        for (int d = 1; d <= 2; d++)
                                                for (int ov = 1; ov <= ((c == IMB_CIPHER_DOCSIS_SEC_BPI && h == IMB_AUTH_DOCSIS_CRC32) ? 6 : 2); ov++) {
                                                        /* DOCSIS-BPI + CRC32 has three documented shapes: CRC and cipher, CRC switched off
                                                         * (msg_len_to_hash = 0) and cipher switched off (msg_len_to_cipher = 0) */
                                                        const int o = ((ov - 1) & 1) + 1, sub = (ov - 1) >> 1;
                                                        static const unsigned ks[] = { 8, 16, 24, 32 };
                                                        unsigned k = ks[ki];
                                                        int model = cell_model(c, k, d, h, o);
                                                        struct rng r;
                                                        struct genopt g;
                                                        struct suite cs = { "cell", (IMB_CIPHER_MODE) c, legal_keylen(c, k),
                                                                            IMB_AUTH_NULL, 0 };
                                                        struct suite hs = { "cell", IMB_CIPHER_NULL, 0, (IMB_HASH_ALG) h, 0 };
                                                        int dedicated = cipher_partner(c) == h && h != 0;
                                                        if (h == IMB_AUTH_DOCSIS_CRC32 && c == IMB_CIPHER_DOCSIS_SEC_BPI)
                                                                dedicated = 1;
                                                        if (dedicated) {
                                                                cs.hash = (IMB_HASH_ALG) h;
                                                                cs.aead = 1;
                                                        }
                                                        ncells++;
                                                        rng_seed(&r, g_opt.seed * 99991 + (uint64_t) c * 1000003 + (uint64_t) h * 1009 +
                                                                             ki * 17 + (uint64_t) d * 5 + (uint64_t) o);
                                                        genopt_default(&g);
                                                        g.slot = 0;
                                                        g.dir = d;
                                                        g.inplace = 1;
                                                        g.len = 64 + (long) rng_below(&r, 5) * 8;
                                                        g.pl = PL_PLAIN;
                                                        g.off = 0;
                                                        const struct suite *pcs = c == IMB_CIPHER_NULL ? NULL : &cs;
                                                        const struct suite *phs = (h == IMB_AUTH_NULL || dedicated) ? NULL : &hs;
                                                        if (!executable(c, h) && model != REJ) {
                                                                cov_hit("C06", "%s|c%d|k%u|d%d|h%d|o%d|not-executed", vn, c, k, d, h, o);
                                                                continue;
                                                        }
                                                        if (!pcs && !phs) { /* NULL + NULL */
                                                                cov_hit("C06", "%s|c%d|k%u|d%d|h%d|o%d|null-null", vn, c, k, d, h, o);
                                                                continue;
                                                        }
                                                        if (c == IMB_CIPHER_PON_AES_CNTR || h == IMB_AUTH_PON_CRC_BIP ||
                                                            c == IMB_CIPHER_GCM_SGL || c == IMB_CIPHER_CHACHA20_POLY1305_SGL ||
                                                            h == IMB_AUTH_GCM_SGL || h == IMB_AUTH_CHACHA20_POLY1305_SGL) {
                                                                /* rejected cells with PON/SGL members: submit a minimal
                                                                 * descriptor built from the partner-less generic form */
                                                        }
                                                        if (g_opt.verbose)
                                                                fprintf(stderr, "cell c%d k%u d%d h%d o%d model %d\n", c, k, d, h, o, model);
                                                        item_gen(IT, pcs, phs, &r, &g, mmj);
                                                        if (sub && IT->cipher == IMB_CIPHER_DOCSIS_SEC_BPI && IT->hash == IMB_AUTH_DOCSIS_CRC32) {
                                                                if (sub == 1 && IT->c_len > 0) {
                                                                        IT->h_len = 0;
                                                                        IT->tag_unspec = 1;
                                                                } else if (sub == 2 && IT->h_len >= 14) {
                                                                        IT->tag_unspec = 0;
                                                                        IT->c_len = IT->dst_len = 0;
                                                                }
                                                        }
                                                        if (c == IMB_CIPHER_PON_AES_CNTR && h == IMB_AUTH_PON_CRC_BIP && IT->c_len == 0)
                                                                model = ACC; /* no ciphering requested: key size and direction are not looked at */
                                                        if (!dedicated)
                                                                IT->order = (IMB_CHAIN_ORDER) o;
                                                        else if (c == IMB_CIPHER_CCM || c == IMB_CIPHER_DOCSIS_SEC_BPI)
                                                                IT->order = (IMB_CHAIN_ORDER) o; /* model decides */
                                                        else
                                                                IT->order = (IMB_CHAIN_ORDER) o;
                                                        item_expect(IT);
                                                        struct outcome oc[2];
                                                        sigjmp_buf jb;
                                                        uint64_t viol_before = g_violations;
                                                        memset(oc, 0, sizeof oc);
                                                        if (sigsetjmp(jb, 1)) {
                                                                char key[200], det[300];
                                                                snprintf(key, sizeof key, "C06|%s|crash|%s|%s|o%d", vn, cipher_name(c),
                                                                         hash_name(h), o);
                                                                snprintf(det, sizeof det,
                                                                         "fault (%s of %p in %s) while processing accepted cell cipher %s key %u "
                                                                         "dir %d hash %s order %d via %s",
                                                                         g_fault.is_write ? "write" : "read", g_fault.addr, g_fault.ripsym,
                                                                         cipher_name(c), k, d, hash_name(h), o,
                                                                         g_cm->cur_fn ? g_cm->cur_fn : "?");
                                                                ev_violation("C06", key, det, item_describe(IT));
                                                                g_job_done = NULL;
                                                                mmj = mm_new(cfg);
                                                                mmb = mm_new(cfg);
                                                                mm = mmj;
                                                                cov_count("faults_recovered", 1);
                                                                continue;
                                                        }
                                                        g_fault_jmp = &jb;
                                                        for (int api = 0; api < 2; api++) {
                                                                IMB_JOB *j;
                                                                mm = api ? mmb : mmj;
                                                                IMB_JOB *bj[1];
                                                                /* fresh buffers for the second API */
                                                                if (api == 1) {
                                                                        memcpy(IT->src, IT->src_orig, IT->buf_len);
                                                                        if (IT->tag)
                                                                                memset(IT->tag, 0x77, IT->tag_len);
                                                                }
                                                                last_job = NULL;
                                                                g_custom_ntrace = 0;
                                                                g_job_done = suite_done;
                                                                if (api == 0) {
                                                                        j = mm_get_next_job(mm);
                                                                        item_fill_job(IT, j);
                                                                        j->key_len_in_bytes = (c == IMB_CIPHER_NULL) ? k : k;
                                                                        j->chain_order = (IMB_CHAIN_ORDER) o;
                                                                        mm_submit_job(mm, 0, model == ACC ? 0 : (model == REJ ? -1 : -2));
                                                                        while (mm_flush_job(mm))
                                                                                ;
                                                                } else {
                                                                        if (mm_get_next_burst(mm, 1, bj) != 1)
                                                                                break;
                                                                        j = bj[0];
                                                                        item_fill_job(IT, j);
                                                                        j->key_len_in_bytes = k;
                                                                        j->chain_order = (IMB_CHAIN_ORDER) o;
                                                                        mcall("imb_set_session", (void *) imb_set_session, 2,
                                                                              (uint64_t) mm->m, (uint64_t) j);
                                                                        uint32_t n = mm_submit_burst(mm, 1, bj, 0,
                                                                                                     model == ACC ? 0 : (model == REJ ? -1 : -2));
                                                                        if (model == SILENT) {
                                                                                /* model of the ring cannot know: resync */
                                                                                if (j->status != IMB_STATUS_INVALID_ARGS && n == 0) {
                                                                                        IMB_JOB *fj[4];
                                                                                        mcall("flush_burst", (void *) mm->m->flush_burst, 3,
                                                                                              (uint64_t) mm->m, (uint64_t) 4, (uint64_t) fj);
                                                                                }
                                                                                last_job = j;
                                                                        } else {
                                                                                IMB_JOB *fj[4];
                                                                                while (mm_flush_burst(mm, 4, fj))
                                                                                        ;
                                                                                if (model == REJ)
                                                                                        last_job = j;
                                                                        }
                                                                }
                                                                g_job_done = NULL;
                                                                oc[api].status = last_job ? (int) last_job->status : -1;
                                                                oc[api].suite_id[0] = j->suite_id[0];
                                                                oc[api].suite_id[1] = j->suite_id[1];
                                                                oc[api].outlen = IT->buf_len < sizeof oc[api].out ? IT->buf_len : sizeof oc[api].out;
                                                                memcpy(oc[api].out, IT->src, oc[api].outlen);
                                                                if (IT->tag)
                                                                        memcpy(oc[api].tag, IT->tag, IT->tag_len);
                                                                int accepted = oc[api].status == IMB_STATUS_COMPLETED;
                                                                char key[200], det[300];
                                                                if (model == REJ && oc[api].status != IMB_STATUS_INVALID_ARGS) {
                                                                        snprintf(key, sizeof key, "C06|%s|accepted-forbidden|%s|%s", vn,
                                                                                 cipher_name(c), hash_name(h));
                                                                        snprintf(det, sizeof det,
                                                                                 "cell cipher %s key %u dir %d hash %s order %d must be rejected "
                                                                                 "but came back with status %d via %s API",
                                                                                 cipher_name(c), k, d, hash_name(h), o, oc[api].status,
                                                                                 api ? "burst" : "job");
                                                                        ev_violation("C06", key, det, NULL);
                                                                } else if (model == ACC && !accepted) {
                                                                        snprintf(key, sizeof key, "C06|%s|rejected-permitted|%s-%u|%s|d%d|o%d", vn,
                                                                                 cipher_name(c), k, hash_name(h), d, o);
                                                                        snprintf(det, sizeof det,
                                                                                 "permitted cell came back with status %d errno %d via %s API",
                                                                                 oc[api].status, imb_get_errno(mm->m), api ? "burst" : "job");
                                                                        ev_violation("C06", key, det, item_describe(IT));
                                                                } else if (accepted && (model == ACC || model == SILENT)) {
                                                                        /* must have run exactly the named pair */
                                                                        if (model == SILENT)
                                                                                nsilent_acc++;
                                                                        else {
                                                                                IT->keylen = k ? k : IT->keylen;
                                                                                item_check(IT, last_job, "C06", mm, api ? "suite/burst" : "suite/job");
                                                                                nexec++;
                                                                        }
                                                                        if (c == IMB_CIPHER_CUSTOM || h == IMB_AUTH_CUSTOM) {
                                                                                int want[2], nw = 0;
                                                                                if (o == IMB_ORDER_CIPHER_HASH) {
                                                                                        if (c == IMB_CIPHER_CUSTOM)
                                                                                                want[nw++] = 1;
                                                                                        if (h == IMB_AUTH_CUSTOM)
                                                                                                want[nw++] = 2;
                                                                                } else {
                                                                                        if (h == IMB_AUTH_CUSTOM)
                                                                                                want[nw++] = 2;
                                                                                        if (c == IMB_CIPHER_CUSTOM)
                                                                                                want[nw++] = 1;
                                                                                }
                                                                                int okt = g_custom_ntrace == nw;
                                                                                for (int q = 0; okt && q < nw; q++)
                                                                                        okt = g_custom_trace[q] == want[q];
                                                                                if (!okt) {
                                                                                        snprintf(key, sizeof key, "C06|%s|custom-dispatch|%s|%s", vn,
                                                                                                 cipher_name(c), hash_name(h));
                                                                                        snprintf(det, sizeof det,
                                                                                                 "custom callbacks invoked %d times (first %d), expected "
                                                                                                 "%d in order %d",
                                                                                                 g_custom_ntrace, g_custom_ntrace ? g_custom_trace[0] : 0,
                                                                                                 nw, o);
                                                                                        ev_violation("C06", key, det, NULL);
                                                                                }
                                                                                cov_count("custom_dispatch_probes", 1);
                                                                        }
                                                                }
                                                        }
                                                        g_fault_jmp = NULL;
                                                        if (g_violations != viol_before) {
                                                                /* do not let a misbehaving cell poison the following ones */
                                                                mmj = mm_new(cfg);
                                                                mmb = mm_new(cfg);
                                                                mm = mmj;
                                                        }
                                                        if (model == ACC && oc[0].status == IMB_STATUS_COMPLETED &&
                                                            oc[1].status == IMB_STATUS_COMPLETED) {
                                                                if (oc[0].outlen != oc[1].outlen || memcmp(oc[0].out, oc[1].out, oc[0].outlen) ||
                                                                    (IT->tag_len && !IT->tag_unspec && memcmp(oc[0].tag, oc[1].tag, IT->tag_len))) {
                                                                        char key[200];
                                                                        snprintf(key, sizeof key, "C06|%s|burst-differs|%s|%s", vn, cipher_name(c),
                                                                                 hash_name(h));
                                                                        ev_violation("C06", key, "burst API result differs from job API result",
                                                                                     item_describe(IT));
                                                                }
                                                        }
                                                        if (model == ACC)
                                                                nacc++;
                                                        else if (model == REJ)
                                                                nrej++;
                                                        else
                                                                nsilent++;
                                                        cov_hit("C06", "%s|c%d|k%u|d%d|h%d|o%d|m%d|s%d", vn, c, k, d, h, o, model, oc[0].status);
                                                }
                        }
                mm_free(mmj);
                mm_free(mmb);
        }
        cov_count("cells", ncells);
        cov_count("cells_model_accept", nacc);
        cov_count("cells_model_reject", nrej);
        cov_count("cells_model_silent", nsilent);
        cov_count("cells_silent_accepted_by_lib", nsilent_acc);
        cov_count("cells_executed_and_verified", nexec);
        return 0;
}
