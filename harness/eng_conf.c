/* Engine "conf": conformance of ciphers (C01), hashes/MACs (C02) and AEAD/combined modes (C03)
 * against the reference models, on every reachable variant, with jobs submitted in batches of mixed
 * lengths so that multi-buffer lanes are heterogeneously occupied, collected by random flushes.
 * --arg cipher|hash|aead selects the family. */
#include "imbv.h"

#define BATCH_MAX 40
struct batch {
        struct item *it[BATCH_MAX];
        int n;
        int done[BATCH_MAX];
        const char *prop;
        uint64_t checked;
};
static struct batch B;

static const char *
len_class(uint32_t l)
{
        if (l == 0)
                return "0";
        if (l < 16)
                return "<16";
        if (l <= 64)
                return "<=64";
        if (l <= 256)
                return "<=256";
        if (l <= 1024)
                return "<=1k";
        if (l <= 4096)
                return "<=4k";
        if (l <= 16384)
                return "<=16k";
        if (l < 65504)
                return "<64k";
        return ">=65504";
}

static void
done_cb(struct mmgr *mm, IMB_JOB *job, void *arg)
{
        struct batch *b = arg;
        struct item *it = job->user_data;
        for (int i = 0; i < b->n; i++)
                if (b->it[i] == it) {
                        if (b->done[i]) {
                                ev_violation("C05", "C05|duplicate-return", "job returned twice", NULL);
                                return;
                        }
                        b->done[i] = 1;
                        item_check(it, job, b->prop, mm, "conf");
                        b->checked++;
                        uint32_t l = it->cipher != IMB_CIPHER_NULL ? it->c_len : it->h_len;
                        cov_hit(b->prop, "%s|%s-%u|%s|d%d|m128=%u|%s|iv%u|tag%u|aad%s|ip%d|pl%d|bits%u",
                                variant_name(mm->variant), cipher_name(it->cipher), it->keylen,
                                hash_name(it->hash), it->dir, l % 128, len_class(l), it->iv_len, it->tag_len,
                                len_class(it->aad_len), it->inplace, it->pl,
                                (it->c_len_bits | it->h_len_bits) & 7);
                        if (l > 0)
                                cov_count("nontrivial_jobs", 1);
                        return;
                }
        ev_violation("C05", "C05|unknown-job", "returned job does not belong to the batch", NULL);
}

/* boundary lengths per family */
static const uint32_t big_lens[] = { 511,   512,   513,   1023,  1024,  1025,  2047,  2048,  2049,
                                     4095,  4096,  4097,  4112,  4128,  4160,  4224,  4352,  4608,
                                     4864,  8191,  8192,  8193,  16383, 16384, 16400, 32768, 32769,
                                     65503, 65504, 65519, 65520, 65527, 65528, 65533, 65534 };

static void
fault_report(struct mmgr *mm, const char *prop_ctx)
{
        char key[256], det[400];
        struct item *it = NULL;
        for (int i = 0; i < B.n; i++)
                if (B.it[i]->slot == g_fault.slot)
                        it = B.it[i];
        const char *sname = it ? item_fault_suite(it, g_fault.kind) : "?";
        snprintf(key, sizeof key, "C07|%s|%s|%s|%s|%s", variant_name(mm->variant), sname,
                 g_fault.is_write ? "write" : "read", g_fault.kind,
                 g_fault.pl == PL_END ? "past-end" : "before-start");
        snprintf(det, sizeof det,
                 "fault in %s (%s) accessing %s object of %zu bytes: %s at offset %ld from its end / %ld "
                 "from its start (placement %d), via %s",
                 g_fault.ripsym, prop_ctx, g_fault.kind, g_fault.obj_len,
                 g_fault.is_write ? "write" : "read", g_fault.off_from_obj_end, g_fault.off_from_obj_start,
                 g_fault.pl, g_cm->cur_fn ? g_cm->cur_fn : "?");
        ev_violation("C07", key, det, it ? item_describe(it) : NULL);
}

static struct mmgr *
run_batch(struct mmgr *mm, struct rng *r, int cfg)
{
        sigjmp_buf jb;
        memset(B.done, 0, sizeof B.done);
        g_job_done = done_cb;
        g_job_done_arg = &B;
        if (sigsetjmp(jb, 1)) {
                fault_report(mm, "conf");
                /* the manager is in an unknown state: abandon it */
                g_job_done = NULL;
                struct mmgr *n = mm_new(cfg);
                cov_count("faults_recovered", 1);
                return n;
        }
        g_fault_jmp = &jb;
        unsigned pflush = rng_below(r, 4) == 0 ? 0 : rng_below(r, 30);
        for (int i = 0; i < B.n; i++) {
                IMB_JOB *j = mm_get_next_job(mm);
                item_fill_job(B.it[i], j);
                mm_submit_job(mm, 0, 0);
                if (pflush && rng_below(r, 100) < pflush)
                        mm_flush_job(mm);
                if (rng_below(r, 8) == 0)
                        while (mm_get_completed_job(mm))
                                ;
        }
        while (mm_flush_job(mm))
                ;
        g_fault_jmp = NULL;
        mm_queue_size(mm);
        for (int i = 0; i < B.n; i++)
                if (!B.done[i]) {
                        ev_violation("C05", "C05|lost-job", "job never returned after draining the queue",
                                     item_describe(B.it[i]));
                }
        g_job_done = NULL;
        return mm;
}

int
eng_conf(void)
{
        char famb[64];
        const char *only_suite = NULL;
        long lenlo = -1, lenhi = -1;
        snprintf(famb, sizeof famb, "%s", g_opt.arg1 ? g_opt.arg1 : "cipher");
        {
                /* family[:suite[:lo-hi]] */
                char *c = strchr(famb, ':');
                if (c) {
                        *c++ = 0;
                        only_suite = c;
                        char *d = strchr(c, ':');
                        if (d) {
                                *d++ = 0;
                                sscanf(d, "%ld-%ld", &lenlo, &lenhi);
                        }
                }
        }
        const char *fam = famb;
        const struct suite *tab;
        int ntab;
        struct rng r;
        if (!strcmp(fam, "cipher")) {
                tab = g_cipher_suites;
                ntab = g_n_cipher_suites;
                B.prop = "C01";
        } else if (!strcmp(fam, "hash")) {
                tab = g_hash_suites;
                ntab = g_n_hash_suites;
                B.prop = "C02";
        } else {
                tab = g_aead_suites;
                ntab = g_n_aead_suites;
                B.prop = "C03";
        }
        guard_init(BATCH_MAX);
        for (int i = 0; i < BATCH_MAX; i++)
                B.it[i] = item_new();
        rng_seed(&r, g_opt.seed * 7919 + 17);
        long unit = 0;
        /* number of batches per (variant, suite): cases is the total budget of batches */
        long per = g_opt.cases / ((long) g_nvariants * ntab);
        if (per < 1)
                per = 1;
        for (int vi = 0; vi < g_nvariants; vi++) {
                int cfg = g_variant_cfg[vi];
                if (g_opt.cfg_only >= 0 && cfg != g_opt.cfg_only)
                        continue;
                struct mmgr *mm = mm_new(cfg);
                if (!mm)
                        continue;
                for (int si = 0; si < ntab; si++) {
                        const struct suite *s = &tab[si];
                        if (only_suite && strcmp(only_suite, s->name))
                                continue;
                        for (long b = 0; b < per; b++, unit++) {
                                if (unit % g_opt.nshards != g_opt.shard)
                                        continue;
                                struct rng ur;
                                rng_seed(&ur, g_opt.seed * 1000003ULL + (uint64_t) unit * 7 +
                                                      (uint64_t) si * 131 + (uint64_t) vi * 17);
                                g_case_no = unit;
                                /* batch composition: lengths mixed; one batch in a while all-equal or
                                 * strictly increasing; big boundary lengths sprinkled in */
                                B.n = 1 + (int) rng_below(&ur, BATCH_MAX - 1);
                                if (rng_below(&ur, 6) == 0)
                                        B.n = 1;
                                int mode = (int) rng_below(&ur, 5);
                                uint32_t base = 1 + rng_below(&ur, 300);
                                for (int i = 0; i < B.n; i++) {
                                        struct genopt g;
                                        genopt_default(&g);
                                        g.slot = i;
                                        g.pl = rng_below(&ur, 3) == 0 ? PL_START : PL_END;
                                        g.iv_class = rng_below(&ur, 3) == 0 ? (int) (1 + rng_below(&ur, 5)) : 0;
                                        if (mode == 0)
                                                g.len = base;
                                        else if (mode == 1)
                                                g.len = base + (long) i;
                                        else if (mode == 2 && i == 0)
                                                g.len = big_lens[rng_below(&ur, ARRAY_SZ(big_lens))];
                                        else if (rng_below(&ur, 12) == 0)
                                                g.len = big_lens[rng_below(&ur, ARRAY_SZ(big_lens))];
                                        if (g_opt.tier == 0 && g.len > 20000 && rng_below(&ur, 4))
                                                g.len = -1; /* keep quick tier fast */
                                        if (lenlo >= 0)
                                                g.len = lenlo + (long) rng_below(&ur, (uint32_t) (lenhi - lenlo + 1));
                                        if (s->aead || s->cipher != IMB_CIPHER_NULL)
                                                item_gen(B.it[i], s, NULL, &ur, &g, mm);
                                        else
                                                item_gen(B.it[i], NULL, s, &ur, &g, mm);
                                        item_expect(B.it[i]);
                                }
                                mm = run_batch(mm, &ur, cfg);
                                cov_count("batches", 1);
                                cov_count("jobs", (uint64_t) B.n);
                                if (!mm)
                                        harness_fail("cannot re-create manager");
                        }
                }
                /* ---- systematic residue sweep: EVERY length of a few windows (0.., around 4 KiB where counter bytes
                 * carry and around 8 KiB), 40 consecutive lengths per batch so that lanes hold neighbouring lengths.
                 * Tail code of the kernels is selected by the length modulo 16/64/128/256/512, whatever the base. */
                static const struct { long lo, hi_quick, hi_thorough; } win[] = {
                        { 0, 703, 2303 }, { 4032, 4255, 4671 }, { 8160, 8223, 8351 }, { 16352, 16415, 16447 } };
                for (int si = 0; si < ntab && lenlo < 0; si++) {
                        const struct suite *s = &tab[si];
                        if (only_suite && strcmp(only_suite, s->name))
                                continue;
                        for (unsigned w = 0; w < ARRAY_SZ(win); w++) {
                                long hi = g_opt.tier ? win[w].hi_thorough : win[w].hi_quick;
                                for (long l0 = win[w].lo; l0 <= hi; l0 += BATCH_MAX, unit++) {
                                        if (unit % g_opt.nshards != g_opt.shard)
                                                continue;
                                        struct rng ur;
                                        rng_seed(&ur, g_opt.seed * 999331ULL + (uint64_t) unit * 13 + (uint64_t) si);
                                        g_case_no = unit;
                                        B.n = 0;
                                        for (long l = l0; l < l0 + BATCH_MAX && l <= hi; l++) {
                                                struct genopt g;
                                                genopt_default(&g);
                                                g.slot = B.n;
                                                g.pl = (l & 1) ? PL_START : PL_END;
                                                g.len = l;
                                                g.iv_class = (l % 5 == 0) ? (int) (1 + (l / 5) % 5) : 0;
                                                if (s->aead || s->cipher != IMB_CIPHER_NULL)
                                                        item_gen(B.it[B.n], s, NULL, &ur, &g, mm);
                                                else
                                                        item_gen(B.it[B.n], NULL, s, &ur, &g, mm);
                                                item_expect(B.it[B.n]);
                                                B.n++;
                                        }
                                        mm = run_batch(mm, &ur, cfg);
                                        cov_count("batches", 1);
                                        cov_count("jobs", (uint64_t) B.n);
                                        cov_count("sweep_jobs", (uint64_t) B.n);
                                        if (!mm)
                                                harness_fail("cannot re-create manager");
                                }
                        }
                }
                mm_free(mm);
        }
        cov_count("jobs_checked", B.checked);
        return 0;
}

/* Engine "bounds" (C07): systematic placement sweep. Every suite of the three families x every
 * message length 0/1..272 and the 512/4096/65534 neighbourhoods x {end-flush, start-flush}, as single
 * jobs and as co-scheduled batches (5 and 17 jobs of neighbouring lengths, each in its own arenas).
 * M-GUARD (faults, canaries, source snapshot) is the oracle; outputs are also compared with the
 * reference so that in-place and out-of-place runs are both pinned to the same expected bytes. */
int
eng_bounds(void)
{
        static const long extra[] = { 511, 512, 513, 1023, 1024, 1025, 4095, 4096, 4097, 8191, 16384, 65519, 65520, 65533, 65534 };
        const struct suite *tabs[3] = { g_cipher_suites, g_hash_suites, g_aead_suites };
        const int ntabs[3] = { g_n_cipher_suites, g_n_hash_suites, g_n_aead_suites };
        guard_init(BATCH_MAX);
        for (int i = 0; i < BATCH_MAX; i++)
                B.it[i] = item_new();
        B.prop = "C07";
        long unit = 0;
        int maxlen = g_opt.tier ? 272 : 140;
        for (int vi = 0; vi < g_nvariants; vi++) {
                int cfg = g_variant_cfg[vi];
                if (g_opt.cfg_only >= 0 && cfg != g_opt.cfg_only)
                        continue;
                struct mmgr *mm = mm_new(cfg);
                if (!mm)
                        continue;
                for (int fam = 0; fam < 3; fam++)
                        for (int si = 0; si < ntabs[fam]; si++, unit++) {
                                if (unit % g_opt.nshards != g_opt.shard)
                                        continue;
                                const struct suite *s = &tabs[fam][si];
                                struct rng ur;
                                rng_seed(&ur, g_opt.seed * 60013 + (uint64_t) unit);
                                g_case_no = unit;
                                int nl = maxlen + 1 + (int) ARRAY_SZ(extra);
                                for (int li = 0; li < nl; li++) {
                                        long len = li <= maxlen ? li : extra[li - maxlen - 1];
                                        if (!g_opt.tier && len > 5000 && (li + vi) % 3)
                                                continue;
                                        for (int pl = 0; pl < 2; pl++) {
                                                int nb = (li % 7 == 3) ? 17 : (li % 5 == 1) ? 5 : 1;
                                                if (len > 5000)
                                                        nb = 1;
                                                B.n = nb;
                                                for (int i = 0; i < nb; i++) {
                                                        struct genopt g;
                                                        genopt_default(&g);
                                                        g.slot = i;
                                                        g.pl = pl ? PL_START : PL_END;
                                                        g.len = len + i;
                                                        g.inplace = (li + i + pl) & 1;
                                                        g.off = (li >> 1) & 3;
                                                        if (fam == 1)
                                                                item_gen(B.it[i], NULL, s, &ur, &g, mm);
                                                        else
                                                                item_gen(B.it[i], s, NULL, &ur, &g, mm);
                                                        item_expect(B.it[i]);
                                                }
                                                mm = run_batch(mm, &ur, cfg);
                                                if (!mm)
                                                        harness_fail("cannot re-create manager");
                                                cov_count("guarded_jobs", (uint64_t) nb);
                                        }
                                }
                        }
                mm_free(mm);
        }
        cov_count("jobs_checked", B.checked);
        return 0;
}
